"""C07 — nested-dictionary algebra: intersection, difference and recursive update.

Real code: lena.context.intersection / difference / update_recursively / update_nested
(lena/context/functions.py).  Model: lean/LenaModel/Model/C07.lean (+ Model/Val.lean),
theorems lean/LenaModel/Props/C07.lean (helper lemmas lean/LenaModel/Lemmas/C07.lean).

Cases are JSON.  A dictionary is a JSON object (a key "#n" stands for the integer key n); a leaf is a JSON scalar or
list, or a marker object {"$": kind, "v": …} for what JSON cannot express: tuple, set, frozenset, float, bytes, an opaque
object with value equality; a marker {"$": kind, "v": {…}} is a dictionary of a dict subclass (OrderedDict, defaultdict, a
subclass with __missing__, lena.context.Context, a plain subclass) and {"$": "shared", "id": n, "v": …} one object that
occurs at several places of the arguments (the "dressing": by value a dressed dictionary is the dictionary it dresses).
`_build` turns a case value into new Python objects for every call of the real code (mode "real") or into its bare value
(mode "plain", for the judges).  For the model a case is translated to slot vectors over the sorted key alphabet of the case, a
leaf to the number of its class under Python `==` (so False, 0 and 0.0, True and 1, {1} and frozenset({1}) coincide: the
four functions observe leaves only through `==`, truthiness and isinstance(., dict)).
"""
import copy
import itertools
import json
import re

from harness.common import exc_name, jdump

PID = "C07"
TITLE = "Nested-dictionary algebra: intersection, difference and recursive update"
LEAN_MODULES = ["LenaModel.Props.C07"]
LEAN_SOURCES = ["LenaModel/Model/Val.lean", "LenaModel/Model/C07.lean", "LenaModel/Model/C07Tok.lean",
                "LenaModel/Model/C07Ext.lean", "LenaModel/Model/C07Mut.lean", "LenaModel/Model/C07Share.lean",
                "LenaModel/Lemmas/C07Share.lean", "LenaModel/Lemmas/C07Ext.lean",
                "LenaModel/Lemmas/C07Mut.lean",
                "LenaModel/Lemmas/C07Tok.lean", "LenaModel/Lemmas/C07.lean",
                "LenaModel/Lemmas/C07Update.lean", "LenaModel/Lemmas/C07Nested.lean", "LenaModel/Lemmas/C07Level.lean",
                "LenaModel/Props/C07.lean"]
DRIVER = "drivers/C07.lean"
THEOREMS = [
    # (the theorems that carry the property; structural / definitional ones are in AUX_THEOREMS)
    "Lena.C07.inter_lower",
    "Lena.C07.inter_greatest",
    "Lena.C07.inter_unique",
    "Lena.C07.inter_perm",
    "Lena.C07.inter_comm",
    "Lena.C07.inter_assoc",
    "Lena.C07.inter_idem",
    "Lena.C07.inter_eq_left_iff",
    "Lena.C07.inter_level0",
    "Lena.C07.inter_level1_key",
    "Lena.C07.inter_level_step",
    "Lena.C07.diff_exact",
    "Lena.C07.diff_truthiness_irrelevant",
    "Lena.C07.diff_key_iff",
    "Lena.C07.diff_key_value",
    "Lena.C07.diff_keeps_scalar",
    "Lena.C07.diff_keeps_empty_dict",
    "Lena.C07.diff_empty_iff",
    "Lena.C07.diff_contained",
    "Lena.C07.reconstruct",
    "Lena.C07.reconstruct_from_part",
    "Lena.C07.reconstruct_nary",
    "Lena.C07.cont_level_unlimited",
    "Lena.C07.inter_level_le_unlimited",
    "Lena.C07.level_covers_inter",
    "Lena.C07.level_covers_diff",
    "Lena.C07.level_covers_cont",
    "Lena.C07.inter_is_copy",
    "Lena.C07.inter_shares_nothing",
    "Lena.C07.diff_objects",
    "Lena.C07.inter_writes_only_new",
    "Lena.C07.inter_changes_no_argument",
    "Lena.C07.diff_writes_only_new",
    "Lena.C07.diff_changes_no_argument",
    "Lena.C07.update_str_value",
    "Lena.C07.update_str_leaves_alone",
    "Lena.C07.nested_dicts_test_never_fires",
    "Lena.C07.most_nested_spec",
    "Lena.C07.split_context",
    "Lena.C07.group_context",
    "Lena.C07.zip_context",
    "Lena.C07.update_with_group_contains",
    "Lena.C07.update_with_group_contains_old",
    "Lena.C07.update_with_group_result_partial",
    "Lena.C07.update_with_group_result_full_false",
    "Lena.C07.update_writes",
    "Lena.C07.update_never_writes_other",
    "Lena.C07.update_objects",
    "Lena.C07.update_other_objects_intact",
    "Lena.C07.diff_old_objects_intact",
    "Lena.C07.update_nested_writes",
    "Lena.C07.update_contains",
    "Lena.C07.update_keeps",
    "Lena.C07.update_keys",
    "Lena.C07.update_scalar_overwrites",
    "Lena.C07.update_idem",
    "Lena.C07.update_nested_ok",
    "Lena.C07.update_nested_keeps",
    "Lena.C07.update_nested_other_kept",
    "Lena.C07.update_nested_typeError_iff",
    # arguments with shared objects (one object reachable twice): Model/C07Share.lean
    "Lena.C07.inter_stores_hit_one_place",
    "Lena.C07.inter_object_level",
    "Lena.C07.inter_shared_value",
    "Lena.C07.inter_shared_is_copy",
    "Lena.C07.deepcopy_memo_value",
    "Lena.C07.deepcopy_memo_sharing",
    "Lena.C07.deepcopy_memo_fresh",
    "Lena.C07.deepcopy_root_once",
    "Lena.C07.store_root_once",
    "Lena.C07.store_elsewhere",
]
# true by unfolding, model-to-model glue, vocabulary-only or encoding lemmas: audited, not counted as obligations of C07
AUX_THEOREMS = [
    "Lena.C07.cont_refl",
    "Lena.C07.cont_trans",
    "Lena.C07.cont_antisymm",
    "Lena.C07.interN_cons",
    "Lena.C07.inter_wf",
    "Lena.C07.inter_key",
    "Lena.C07.inter_nil_single",
    "Lena.C07.intersection_error_iff",
    "Lena.C07.diffV_nondict",
    "Lena.C07.diffV_dict",
    "Lena.C07.reconstruct_call",
    "Lena.C07.update_error_iff",
    "Lena.C07.update_forms",
    "Lena.C07.intersection_kw",
    "Lena.C07.str_to_dict_errors",
    "Lena.C07.str_to_dict_value",
    "Lena.C07.interT_value",
    "Lena.C07.diffT_value",
    "Lena.C07.update_mut_value",
    "Lena.C07.update_nested_mut_value",
    "Lena.C07.interArgs_value",
    "Lena.C07.diffArgs_value",
]
TRUSTED = [
    "Lean 4.33.0 kernel; axioms limited to propext, Classical.choice, Quot.sound (audited by #print axioms on every run)",
    "hand transcription of intersection, difference, update_recursively (all argument forms), update_nested (with its "
    "nested_dicts test), str_to_dict after the split (lena/context/functions.py), Zip._create_context, group_plots, "
    "_update_with_group, LenaSplit._get_context into LenaModel/Model/C07.lean + C07Ext.lean on slot vectors (Model/Val.lean) "
    "and, with object identities and write logs, into Model/C07Tok.lean + C07Mut.lean; validated by this correspondence "
    "check (values, exception classes, the id() pattern of results and arguments after the call, the objects whose items "
    "really changed)",
    "the slot-vector reading of dictionaries: iteration order and mutation-during-iteration are not modelled (the loops "
    "of the four functions read and write only the current key)",
    "the specification vocabulary (contained, diffSpec, untouchedL, getPath, depthL, nestDepth, mnV, toksV, dictToksV, subsV, "
    "eraseV) means what its Python reference in harness/props/c07.py means: compared on every generated case.  For the "
    "finite levels 0, 1, 2, … both the Lean `contained level` and the Python references contained/ref_glb/ref_diff follow "
    "the level convention of the code's docstrings and were written by the same author: they are not an independent "
    "oracle for what 'contained at level 1' ought to mean (inter_level0 / inter_level1_key / inter_level_step say what the "
    "levels do without that order)",
    "arguments with shared objects: Model/C07Share.lean transcribes intersection with the memoising copy.deepcopy (identities "
    "renamed injectively in the order of first occurrence) on values whose identities may repeat; validated by comparing, for "
    "every generated argument with shared objects, which places of copy.deepcopy(d1) and of the real intersection hold the "
    "same object.  That every store of intersection goes into the `res` of the running call — the root of a copy made by that "
    "call — is read off the code; deepcopy_root_once + store_root_once then say that such a store changes one slot only",
    "the write logs are part of the transcription: that intersection / difference contain no statement storing into an "
    "argument is read off the code; the theorems then say that every logged store goes into a new object, and the harness "
    "checks object by object that no dictionary of an argument changed",
    "JSON line protocol encoders (harness/props/c07.py, drivers/C07.lean)",
]
ASSUMPTIONS = [
    "leaves are observed only through ==, truthiness and isinstance(., dict): a leaf is modelled by its class under Python's "
    "== (theorems are generic in the leaf type and in the truthiness of leaves); lists, tuples, sets, floats, bytes, objects "
    "are leaves",
    "leaves have a reflexive == that copy.deepcopy preserves (the leaf type of the model has decidable equality): no NaN, no "
    "objects compared by identity — for those intersection(a, a) == {} on the real code "
    "(notes/C07_observation_leaf_equality.md, judged outside the statement)",
    "the token and write-log models (Model/C07Tok.lean, C07Mut.lean) assume tree-shaped, pairwise disjoint arguments (they "
    "allocate per occurrence).  Arguments in which one object is reachable twice, or which share objects with each other, "
    "are inside the statement for intersection and difference (by value they are nested dictionaries; adversary candidate 1): "
    "they are generated (exhaustively {a: s, b: s} against the depth-2 universe, sampled up to depth 6), judged by the oracle "
    "by value, and compared with the sharing model (Model/C07Share.lean, memoising deepcopy).  For the d of "
    "update_recursively / update_nested an object reachable twice is outside the statement: an in-place update of an object "
    "changes every place that shares it, so 'keeps every item that other does not overwrite' has no reading by value there "
    "(d is built tree-shaped; `other` may share).  After update_recursively(d, other) this is no longer "
    "true of (d, other) — sub-dictionaries of other are stored in d uncopied, by design — and the `seq` cases follow "
    "successive calls on one d through exactly that: the model predicts, and the real objects confirm, that a later update "
    "can write into an earlier `other` (reported in the evidence labels, not judged)",
    "a dictionary is what isinstance(., dict) says (the test of the code under test): plain dict, collections.OrderedDict, "
    "collections.defaultdict (reading a missing key with d[key] inserts it), a subclass whose __missing__ returns a value, "
    "lena.context.Context, a plain subclass — at any place of any argument (adversary candidates 2, 3).  The model has one "
    "kind of dictionary; the types of the dictionaries in a result are not compared (the statement speaks of values).  "
    "Equal dictionaries have dict's order-insensitive ==: OrderedDicts of a case are built with sorted keys, because "
    "OrderedDict == OrderedDict depends on the insertion order (intersection(a, b, level=0) of two OrderedDicts with the same "
    "items in different order is {}; judged outside the statement like a leaf whose == is not value equality).  Keys are "
    "strings or integers; `level` is an int",
    "copy.deepcopy is the identity on values (value model) and allocates new objects for every mutable object (token model); "
    "an assignment `x[key] = v` / `del x[key]` changes the object x only (write-log model)",
    "identities are compared in the correspondence (not in the oracle) because the theorems inter_is_copy, diff_objects, "
    "update_objects, update_nested_writes are about them; the oracle judges values, plus 'shares no mutable object with an "
    "argument' for intersection ('as a deep copy')",
    "a self-referential `other` of update_nested is not a value of the model: its documented LenaValueError is compared with "
    "the two-line model updateNestedCyclic (cycles of length 1-5 after 0-2 further dictionaries); the test that raises it is "
    "proved dead for finite values",
    "str.split('.') is trusted: str_to_dict is modelled from its parts on; which strings are malformed beyond that is C08's",
    "output.changed holds hashable scalars (as documented: a boolean) in the group_plots / _update_with_group cases",
]
RULE = ("value domain: nested dictionaries (plain dict, OrderedDict, defaultdict, a subclass with __missing__, lena.context.Context, "
        "a plain subclass - at any depth of any argument in 30% of the sampled pair / tuple / update_nested / update_recursively / "
        "sequence cases) with string or integer keys; in 25% of the sampled pairs and 20% of the tuples an item of an argument "
        "occurs at a second place as the SAME object (and 12-15% more share equal parts between arguments); exhaustive dressed "
        "scopes: {a: s, b: s} with one object s (all 9 s of depth 1) against every dictionary of the depth-2 universe in both "
        "argument orders; all 36^2 pairs of the dictionaries over {a,b} of depth <= 2 with one leaf, each argument of one of the "
        "6 dictionary types (all 36 type combinations for every first argument), every third pair with its equal parts shared; "
        "triples with the same object twice; leaves 0, False, None, '', [], "
        "0.0, (), set(), 1, True, 'x', [1], 2, 'y', [{}], (1,), ([1],), ({'x': [1]},), {1, 2}, frozenset({1}), 1.5, "
        "1.5000000000000002, an opaque object with value equality, b'x'.  "
        "pair cases (a, b): intersection(a,b), intersection(b,a), intersection(a,a), difference(a,b), "
        "update_recursively(intersection, difference) for every level in {-1,0,1,2,3} (exhaustive depth<=2 scopes of the quick "
        "tier: {-1,0,1,2}), the calls without `level` and with a positional one, difference(a,a), update_recursively(copy(a), b), "
        "the identity pattern (id()) of the results, the dictionaries of the arguments whose items changed, and for "
        "update_recursively d and other afterwards; exhaustive: all pairs of dictionaries over keys {a,b} of depth <= 2 with "
        "leaves 0,'x' (quick: 144^2 pairs) or 0,None,'x' (thorough: 400^2 pairs), all pairs over {a,b,c} of depth 1 with three "
        "leaves rotating with the seed (64^2), all 144 pairs over one key of depth <= 3 with leaves 0,None,'x', all triples of "
        "depth-1 dictionaries over {a,b} x 5 levels (all 6 permutations, both nestings); systematic: of the 21609 dictionaries "
        "over {a,b} of depth <= 3 with leaves 0,'x' every 12th with one partner (quick: 1801 pairs) / every one with one partner "
        "(thorough: 21609 pairs) — depth 3 is otherwise sampled only; sampled per seed (quick / thorough): 1600 / 45000 pairs "
        "(60% depth 3) and 1600 / 30000 tuples of 2-4 dictionaries over 3 keys up to depth 3 with the whole palette, 60% "
        "neighbours of each other, levels also -2 and 4; 266 / 7500 narrow pairs of depth 4-6 with levels -1,-2,1,2,4,5,6; "
        "1000 / 15000 update_nested calls with key chains of length 0-12 ending in an absent key or a non-dictionary (objects "
        "after the call and write log compared), 14 self-referential ones; 400 / 3000 calls with non-dictionary arguments, "
        "100 / 750 with keyword arguments; 400 / 6000 each of: update_recursively with a string / dictionary / other `other` and "
        "with `value`; 2-4 successive update_recursively calls on one d with every `other` inspected afterwards; Zip over 1-4 "
        "stub sources (fill-compute or fill-request, optional namedtuple fields, 40% with a second tuple of values through the "
        "same Zip object); group_plots and Split._get_context over branches built from real SetContext elements; "
        "_update_with_group directly and through MapGroup.run (one or two results per member).  Non-trivial: the arguments are "
        "non-empty dictionaries that are not all equal (update_nested: d has the key).")
CASE_TIMEOUT = 10

LEVELS = [-1, 0, 1, 2, 3]


# ----------------------------------------------------------------------------------------
# the value domain.  Cases are JSON; values that JSON cannot express are written as marker objects {"$": kind, "v": …}
# and a key "#n" stands for the integer key n.  `_build` makes the Python values handed to lena (always new,
# tree-shaped objects), `_unbuild` writes results back.  Everything that judges values (oracle, references, leaf classes)
# works on the built values with Python's own `==`, as the code under test does.

class _Obj(object):
    """an opaque mutable object with value equality (what a user-defined class with __eq__ looks like)"""

    def __init__(self, p):
        self.p = p

    def __eq__(self, o):
        return isinstance(o, _Obj) and o.p == self.p

    def __ne__(self, o):
        return not self.__eq__(o)

    def __hash__(self):
        return hash(("_Obj", self.p))

    def __repr__(self):
        return "Obj(%r)" % (self.p,)


class _DictSub(dict):
    """a dictionary subclass ("This function always returns a dictionary or its subtype")"""

    def __repr__(self):
        return "DictSub(%s)" % dict.__repr__(self)


def _T(*v):
    return {"$": "tuple", "v": list(v)}


def _F(x):
    return {"$": "float", "v": repr(float(x))}


def _bkey(k):
    if isinstance(k, str) and k[:1] == "#" and k[1:].lstrip("-").isdigit():
        return int(k[1:])
    return k


def _kstr(k):
    return "#%d" % k if isinstance(k, int) and not isinstance(k, bool) else k


def _isd(v):
    """a dictionary of the case (not the marker of a leaf)"""
    return isinstance(v, dict) and "$" not in v


class _MissingDict(dict):
    """a dictionary subclass whose `d[key]` never raises KeyError (like collections.Counter): `__missing__` returns a
    value and stores nothing"""

    def __missing__(self, key):
        return None

    def __repr__(self):
        return "MissingDict(%s)" % dict.__repr__(self)


# the dictionary types of the domain ("dictionary" is what isinstance(., dict) says, as in the code under test):
#   dictsub  a plain subclass                        ordered  collections.OrderedDict (keys always inserted in sorted order)
#   defdict  collections.defaultdict(dict): reading a missing key with d[key] INSERTS it
#   missing  _MissingDict: d[key] of a missing key returns None        context  lena.context.Context
_DICT_KINDS = ("dictsub", "ordered", "defdict", "missing", "context")


def _make_dict(kind, items):
    import collections
    if kind == "dictsub":
        return _DictSub(items)
    if kind == "ordered":
        # (OrderedDict == OrderedDict is sensitive to the order: equal dictionaries of a case always have the same one)
        return collections.OrderedDict(sorted(items, key=lambda kv: str(_kstr(kv[0]))))
    if kind == "defdict":
        return collections.defaultdict(dict, items)
    if kind == "missing":
        return _MissingDict(items)
    if kind == "context":
        from lena.context import Context
        return Context(dict(items))
    raise ValueError(kind)


def _kind_of(v):
    """the marker kind of a dictionary object (None for a plain dict)"""
    import collections
    if type(v) is dict:
        return None
    if isinstance(v, _DictSub):
        return "dictsub"
    if isinstance(v, _MissingDict):
        return "missing"
    if isinstance(v, collections.OrderedDict):
        return "ordered"
    if isinstance(v, collections.defaultdict):
        return "defdict"
    if type(v).__name__ == "Context":
        return "context"
    return "dictsub"


def _build(v, mode="plain", memo=None):
    """the Python value of a case value.  mode "real": what the code under test is called with (dictionary subclasses,
    one object per {"$": "shared", "id": n} within one call of _build); "tree": the same without sharing; "plain": plain
    dictionaries, no sharing — the value, which is all that the judges (oracle, references, encoders) look at"""
    if memo is None:
        memo = {}
    if isinstance(v, dict):
        kind = v.get("$")
        if kind is None:
            return {_bkey(k): _build(x, mode, memo) for k, x in v.items()}
        if kind == "shared":
            if mode != "real":
                return _build(v["v"], mode, memo)
            if v["id"] not in memo:
                memo[v["id"]] = _build(v["v"], mode, memo)
            return memo[v["id"]]
        if kind == "tuple":
            return tuple(_build(x, mode, memo) for x in v["v"])
        if kind == "set":
            return set(_build(x, mode, memo) for x in v["v"])
        if kind == "frozenset":
            return frozenset(_build(x, mode, memo) for x in v["v"])
        if kind == "float":
            return float(v["v"])
        if kind == "obj":
            return _Obj(v["v"])
        if kind == "bytes":
            return v["v"].encode("ascii")
        if kind in _DICT_KINDS:
            items = [(_bkey(k), _build(x, mode, memo)) for k, x in v["v"].items()]
            return dict(items) if mode == "plain" else _make_dict(kind, items)
        raise ValueError(v)
    if isinstance(v, list):
        return [_build(x, mode, memo) for x in v]
    return v


def _unbuild(v):
    if isinstance(v, dict):
        kind = _kind_of(v)
        items = {_kstr(k): _unbuild(x) for k, x in v.items()}
        return items if kind is None else {"$": kind, "v": items}
    if isinstance(v, list):
        return [_unbuild(x) for x in v]
    if isinstance(v, tuple):
        return {"$": "tuple", "v": [_unbuild(x) for x in v]}
    if isinstance(v, (set, frozenset)):
        return {"$": "set" if isinstance(v, set) else "frozenset", "v": sorted((_unbuild(x) for x in v), key=jdump)}
    if isinstance(v, float):
        return {"$": "float", "v": repr(v)}
    if isinstance(v, _Obj):
        return {"$": "obj", "v": v.p}
    if isinstance(v, bytes):
        return {"$": "bytes", "v": v.decode("ascii")}
    return v


def _strip(v):
    """a case value without its dressing (dictionary subclasses, shared objects): the bare value, in case form"""
    if isinstance(v, dict):
        kind = v.get("$")
        if kind is None:
            return {k: _strip(x) for k, x in v.items()}
        if kind == "shared" or kind in _DICT_KINDS:
            return _strip(v["v"])
        if kind == "tuple":
            return {"$": "tuple", "v": [_strip(x) for x in v["v"]]}
        return v
    if isinstance(v, list):
        return [_strip(x) for x in v]
    return v


def _dressing(v, acc=None):
    """which dressings a case value carries: the set of marker kinds among _DICT_KINDS + "shared" """
    if acc is None:
        acc = set()
    if isinstance(v, dict):
        kind = v.get("$")
        if kind is None:
            for x in v.values():
                _dressing(x, acc)
        elif kind == "shared" or kind in _DICT_KINDS:
            acc.add(kind)
            _dressing(v["v"], acc)
        elif kind == "tuple":
            _dressing(v["v"], acc)
    elif isinstance(v, list):
        for x in v:
            _dressing(x, acc)
    return acc


FALSY = [0, False, None, "", [], _F(0.0), _T(), {"$": "set", "v": []}]
TRUTHY = [1, True, "x", [1], 2, "y", [{}],
          _T(1), _T([1]), _T({"x": [1]}),          # tuples: immutable themselves, may hold mutable objects (context.zip)
          {"$": "set", "v": [1, 2]}, {"$": "frozenset", "v": [1]},
          _F(1.5), _F(1.5000000000000002),         # neighbouring floats: equal only under a tolerance
          {"$": "obj", "v": 7}, {"$": "bytes", "v": "x"}]
PALETTE = FALSY + TRUTHY


# ----------------------------------------------------------------------------------------
# generation

def _dicts(keys, vals):
    """all dictionaries over `keys` whose values are taken from `vals`"""
    out = []
    for combo in itertools.product([_ABSENT] + list(vals), repeat=len(keys)):
        out.append({k: v for k, v in zip(keys, combo) if v is not _ABSENT})
    return out


class _Absent:
    pass


_ABSENT = _Absent()


def _universe(keys, leaves, depth):
    """all dictionaries over `keys` of depth <= depth (depth 1: leaves only)"""
    ds = _dicts(keys, leaves)
    for _ in range(depth - 1):
        ds = _dicts(keys, list(leaves) + ds)
    return ds


def _rand_dict(rng, keys, depth, leaves, p_absent=0.35, p_dict=0.4):
    d = {}
    for k in keys:
        r = rng.random()
        if r < p_absent:
            continue
        if depth > 1 and rng.random() < p_dict:
            d[k] = _rand_dict(rng, keys, depth - 1, leaves, p_absent, p_dict)
        else:
            d[k] = copy.deepcopy(rng.choice(leaves))
    return d


def _mutate(rng, d, keys, leaves):
    """a random neighbour of d (so that pairs share structure: equal sub-dictionaries, contained ones)"""
    d = copy.deepcopy(d)
    for _ in range(rng.randint(0, 3)):
        cur = d
        while True:
            k = rng.choice(keys)
            if _isd(cur.get(k)) and rng.random() < 0.6:
                cur = cur[k]
                continue
            r = rng.random()
            if r < 0.35:
                cur.pop(k, None)
            elif r < 0.75:
                cur[k] = copy.deepcopy(rng.choice(leaves))
            else:
                cur[k] = _rand_dict(rng, keys, 1, leaves)
            break
    return d


CHANGED_VALUES = [True, False, None, 0, 1, "x", ""]      # hashable: `_update_with_group` puts them into a set


def _with_changed(rng, c, p=0.5):
    """maybe give the context an `output.changed` item (or a non-dictionary `output`)"""
    r = rng.random()
    if r < p:
        out = c.get("output")
        if not _isd(out):
            out = c["output"] = {}
        out["changed"] = rng.choice(CHANGED_VALUES)
    elif r < p + 0.08:
        c["output"] = rng.choice([0, "x", None])
    return c


def _family(rng, keys, depth, leaves, n, p_mut=0.75):
    """n dictionaries, most of them neighbours of one base dictionary"""
    base = _rand_dict(rng, keys, depth, leaves, p_absent=0.2)
    return [(_mutate(rng, base, keys, leaves) if rng.random() < p_mut else _rand_dict(rng, keys, depth, leaves))
            for _ in range(n)]


def _interleave(streams):
    """round robin over generators until all are exhausted (so that a prefix of the case stream is a mix)"""
    streams = [iter(g) for g in streams]
    while streams:
        alive = []
        for g in streams:
            try:
                yield next(g)
                alive.append(g)
            except StopIteration:
                pass
        streams = alive


def _mutate_deep(rng, d, keys, leaves):
    """change d at one or two places as deep down as possible"""
    d = copy.deepcopy(d)
    for _ in range(rng.randint(1, 2)):
        cur = d
        while True:
            sub = [k for k in keys if _isd(cur.get(k))]
            if sub and rng.random() < 0.9:
                cur = cur[rng.choice(sub)]
                continue
            k = rng.choice(keys)
            r = rng.random()
            if r < 0.3:
                cur.pop(k, None)
            elif r < 0.7:
                cur[k] = copy.deepcopy(rng.choice(leaves))
            else:
                cur[k] = {rng.choice(keys): copy.deepcopy(rng.choice(leaves))}
            break
    return d


# ---- dressing: dictionary subclasses and shared objects -------------------------------------------------------------
# By value a dressed dictionary is the dictionary it dresses (the model and the judges see the value only); the code under
# test is called with the dressed objects.  Dressing is the last step of a generator: the helpers above (_mutate, _paths,
# _isd …) treat a marker as a leaf.

def _dress_kinds(rng, v, p=0.5, kinds=_DICT_KINDS):
    """v with each of its dictionaries (those that are context dictionaries, not those inside a list) turned into a
    dictionary subclass with probability p"""
    if not _isd(v):
        return v
    out = {k: _dress_kinds(rng, x, p, kinds) for k, x in v.items()}
    if rng.random() < p:
        return {"$": rng.choice(kinds), "v": out}
    return out


def _dress_all(v, kind):
    """every dictionary of v as the subclass `kind` (None: as it is)"""
    if kind is None or not _isd(v):
        return v
    return {"$": kind, "v": {k: _dress_all(x, kind) for k, x in v.items()}}


def _inner(v):
    """the items of a (possibly kind-dressed) dictionary in case form, else None"""
    if _isd(v):
        return v
    if isinstance(v, dict) and v.get("$") in _DICT_KINDS:
        return v["v"]
    return None


def _shareable(v):
    """a mutable object: a dictionary, a list, a set, an opaque object"""
    return _inner(v) is not None or isinstance(v, list) or (isinstance(v, dict) and v.get("$") in ("set", "obj"))


def _share(rng, vals, p_group=0.75, roots=False):
    """the case values `vals` with groups of equal mutable sub-values (equal including their dressing) made ONE object:
    every occurrence becomes {"$": "shared", "id": n, "v": value}.  Within one argument (an object reachable twice: the
    argument is a DAG, not a tree) and across arguments (d1["k"] is d2["k"])."""
    count = {}

    def scan(v, root):
        if _shareable(v) and not (root and not roots):
            key = jdump(v)
            count[key] = count.get(key, 0) + 1
        items = _inner(v)
        if items is not None:
            for x in items.values():
                scan(x, False)

    for v in vals:
        scan(v, True)
    chosen = {}
    for key in sorted(k for k, n in count.items() if n >= 2):
        if rng.random() < p_group:
            chosen[key] = len(chosen)

    def rebuild(v, root):
        key = jdump(v) if _shareable(v) and not (root and not roots) else None
        items = _inner(v)
        if items is not None:
            new = {k: rebuild(x, False) for k, x in items.items()}
            out = new if _isd(v) else {"$": v["$"], "v": new}
        else:
            out = v
        if key is not None and key in chosen:
            return {"$": "shared", "id": chosen[key], "v": out}
        return out

    return [rebuild(v, True) for v in vals], bool(chosen)


def _node_paths(v, pre=()):
    """paths of all dictionary nodes of an undressed case value (the root: ())"""
    out = [pre]
    for k, x in v.items():
        if _isd(x):
            out.extend(_node_paths(x, pre + (k,)))
    return out


def _plant(rng, v, keys):
    """a copy of the undressed dictionary v in which some item (preferably a sub-dictionary) occurs at a second place;
    returns (v', path of the item, path of its twin) or (v, None, None) when there is no room"""
    v = copy.deepcopy(v)
    items = [p for p in _paths(v)]
    dicts_ = [p for p in items if _isd(get_path(v, p))]
    src_pool = dicts_ if dicts_ and rng.random() < 0.85 else [p for p in items if _shareable(get_path(v, p))]
    if not src_pool:
        return v, None, None
    for _ in range(8):
        p = rng.choice(src_pool)
        q = rng.choice(_node_paths(v))
        t = q + (rng.choice(keys),)
        # not onto the item itself or one of its ancestors, not inside the item
        if p[:len(t)] == t or t[:len(p)] == p:
            continue
        get_path(v, q)[t[-1]] = copy.deepcopy(get_path(v, p))
        return v, p, t
    return v, None, None


def _set_path(v, p, x):
    get_path(v, p[:-1])[p[-1]] = x


KIND_ROTA = (None,) + _DICT_KINDS
FLOW_KINDS = ("context", "context", "ordered", "dictsub", "defdict")


def _gen(ctx, n_exh_leaves, n_pair, n_multi, n_nested, n_bad, n_ext):
    """lazy stream of cases; every stream has its own generator seeded from ctx.rng"""
    top = ctx.rng
    keys3 = ["a", "b", "c"]
    # the exhaustive scopes use fixed leaves (a falsy and a truthy scalar, None in the thorough tier; `{}` comes with the
    # depth); one smaller scope rotates through the rest of the palette with the seed
    f, t = 0, "x"
    leaves2 = [0, "x"] if n_exh_leaves < 3 else [0, None, "x"]
    leaves3 = [top.choice(FALSY), top.choice(TRUTHY), top.choice(PALETTE)]
    u2 = _universe(["a", "b"], leaves2, 2)
    u3 = _universe(["a", "b", "c"], leaves3, 1)
    u1 = _universe(["a", "b"], [f, t], 1)
    ud3 = _universe(["a", "b"], [0, "x"], 3)              # 21 609 dictionaries of depth <= 3: pairs sampled systematically
    ud3_1 = _universe(["a"], [0, None, "x"], 3)            # 12 dictionaries over one key, depth <= 3: all pairs
    deep_every = 8
    # (these dictionaries have depth <= 2: level 3 is level -1 there — `level_covers_*` — and is left to the sampled
    # scopes in the quick tier)
    exh_levels = [-1, 0, 1, 2] if n_exh_leaves < 3 else LEVELS
    seeds = [top.random() for _ in range(16)]
    ctx.exhaustive = False   # the sampled part is not an enumeration
    ctx.notes = [f"exhaustive pair scope: keys a,b depth<=2 leaves {leaves2!r} ({len(u2)}^2 pairs); keys a,b,c depth 1 leaves "
                 f"{leaves3!r} ({len(u3)}^2 pairs); key a depth<=3 leaves 0,None,'x' ({len(ud3_1)}^2 pairs); all {len(u1)}^3 "
                 f"triples over a,b depth 1 x {len(LEVELS)} levels; systematic sample of the pairs of the {len(ud3)} "
                 f"dictionaries over a,b of depth<=3 with leaves 0,'x'"]

    def exh_pairs():
        for i, a in enumerate(u2):
            for j, b in enumerate(u2):
                # ("paths": also compare the Lean path vocabulary untouchedL/getPath with the Python reference, the id()
                # pattern of the results with the token model and the objects written by update_recursively with the write
                # log; on an eighth of the exhaustive scope and on every sampled pair)
                yield {"op": "pair", "a": a, "b": b, "levels": exh_levels, "paths": (i + j) % deep_every == 0,
                       "idem": j == (i * 7) % len(u2)}

    def exh_depth3():
        for a in ud3_1:
            for b in ud3_1:
                yield {"op": "pair", "a": a, "b": b, "levels": LEVELS, "paths": True}
        n3 = len(ud3)
        stride, partners = (12, 1) if n_exh_leaves < 3 else (1, 1)
        for i in range(0, n3, stride):
            for j in range(partners):
                b = ud3[(i * 7919 + 13 + 1009 * j) % n3] if (i + j) % 3 else ud3[(i + 1 + j) % n3]     # far and near partners
                yield {"op": "pair", "a": ud3[i], "b": b, "levels": LEVELS, "paths": i % 16 == 0}

    def exh_small():
        for a in u3:
            for b in u3:
                yield {"op": "pair", "a": a, "b": b, "levels": exh_levels}
        for a in u1:
            for b in u1:
                for c in u1:
                    for lv in LEVELS:
                        yield {"op": "multi", "ds": [a, b, c], "level": lv}
        # the calls with no and with one argument
        for lv in LEVELS:
            yield {"op": "multi", "ds": [], "level": lv}
            for a in u1:
                yield {"op": "multi", "ds": [a], "level": lv}
        # self-referential `other` of update_nested ("recursive dictionaries are strongly discouraged")
        for tail in (0, 1, 2):
            for length in (1, 2, 3, 5):
                yield {"op": "cyc", "key": "a", "d": {"a": 1, "b": 2}, "cycle": length, "tail": tail}
        yield {"op": "cyc", "key": "a", "d": {"b": 2}, "cycle": 1, "tail": 0}
        yield {"op": "cyc", "key": "a", "d": {"b": 2}, "cycle": 2, "tail": 2}

    def exh_dressed():
        """the two dressings of a dictionary that its value does not show, systematically over small universes"""
        # (1) {a: s, b: s} whose two items are ONE object s (all 9 s of depth 1), against every dictionary of the depth-2
        # universe, as first and as second argument
        for si, s_ in enumerate(u1):
            sh = {"$": "shared", "id": 0, "v": s_}
            a = {"a": sh, "b": sh}
            for j, b in enumerate(u2):
                yield {"op": "pair", "a": a, "b": b, "levels": exh_levels, "paths": False, "idem": j % 9 == si}
                yield {"op": "pair", "a": b, "b": a, "levels": exh_levels, "paths": False, "idem": False}
        # (2) all pairs of the 36 dictionaries over a,b of depth <= 2 with one leaf, every dictionary of an argument of one
        # type: all 36 combinations (plain dict, 5 subclasses) x (the same) for every first argument, rotating with the
        # seed over the second; every third pair with its equal parts shared between the two arguments
        uk = _universe(["a", "b"], [f], 2)
        rot = top.randrange(36)
        for i, a in enumerate(uk):
            for j, b in enumerate(uk):
                n = j + rot
                a2, b2 = _dress_all(a, KIND_ROTA[n % 6]), _dress_all(b, KIND_ROTA[(n // 6 + i) % 6])
                shared = False
                if (i + j) % 3 == 0:
                    (a2, b2), shared = _share(top, [a2, b2], p_group=1.0)
                yield {"op": "pair", "a": a2, "b": b2, "levels": exh_levels, "paths": not shared and (i + j) % 4 == 1,
                       "idem": j == (i * 5) % len(uk)}
        # (3) intersection of three arguments of which two are the same object / share their items
        for a in u1:
            for b in u1:
                sh = {"$": "shared", "id": 0, "v": a}
                for lv in (-1, 0, 1):
                    yield {"op": "multi", "ds": [sh, b, sh], "level": lv, "dag": True}
                yield {"op": "multi", "ds": [{"a": sh, "b": sh}, {"a": b, "b": a}, {"a": a, "b": b}], "level": -1, "dag": True}
                yield {"op": "multi", "ds": [{"a": sh, "b": sh}, {"a": b, "b": a}, {"a": a, "b": b}], "level": 2, "dag": True}

    def pairs():
        rng = __import__("random").Random(seeds[0])
        for _ in range(n_pair):
            depth = rng.choice([1, 2, 3, 3, 3])
            leaves = PALETTE if rng.random() < 0.7 else rng.sample(PALETTE, 3)
            keys = keys3 if rng.random() < 0.85 else ["a", "#1", "#2"]         # integer keys 1, 2
            a = _rand_dict(rng, keys, depth, leaves)
            # an item of a at a second place (the two will be ONE object: a is a DAG, not a tree)
            p1 = p2 = None
            if depth > 1 and rng.random() < 0.25:
                a, p1, p2 = _plant(rng, a, keys)
            b = _mutate(rng, a, keys, leaves) if rng.random() < 0.6 else _rand_dict(rng, keys, depth, leaves)
            if p1 is not None and _isd(get_path(a, p1)) and rng.random() < 0.6:
                # the other argument differs from a inside the shared part, differently at its two places
                b = copy.deepcopy(a)
                for pp in (p1, p2):
                    if rng.random() < 0.8:
                        _set_path(b, pp, _mutate_deep(rng, get_path(a, p1), keys, leaves))
            if rng.random() < 0.5:
                a, b = b, a
            if rng.random() < 0.3:
                # dictionary subclasses, anywhere in either argument (the result is "a dictionary or its subtype")
                which = rng.choice(["a", "b", "ab", "ab"])
                if "a" in which:
                    a = _dress_kinds(rng, a, rng.choice([0.3, 0.6, 1.0]))
                if "b" in which:
                    b = _dress_kinds(rng, b, rng.choice([0.3, 0.6, 1.0]))
            shared = False
            if p1 is not None or rng.random() < 0.12:
                (a, b), shared = _share(rng, [a, b])
            # (the token and write-log models number objects per occurrence: not compared for shared objects)
            yield {"op": "pair", "a": a, "b": b, "levels": LEVELS, "paths": not shared}

    def deep_pairs():
        """narrow dictionaries of depth up to 6 (beyond the depth 3 the property names): the recursion reaches levels
        that the shallow scopes never see (-4, -5, …; a positive level counted down to 1 several levels below)"""
        rng = __import__("random").Random(seeds[8])
        for _ in range(max(n_pair // 6, 100)):
            keys = rng.choice([["a"], ["a", "b"], ["a", "b"]])
            leaves = rng.sample(PALETTE, 2)
            a = _rand_dict(rng, keys, rng.choice([4, 5, 6]), leaves, p_absent=0.15, p_dict=0.8)
            b = _mutate_deep(rng, a, keys, leaves)
            if rng.random() < 0.5:
                a, b = b, a
            if rng.random() < 0.25:
                a, b = _dress_kinds(rng, a, 0.5), _dress_kinds(rng, b, 0.5)
            shared = False
            if rng.random() < 0.2:
                (a, b), shared = _share(rng, [a, b])
            yield {"op": "pair", "a": a, "b": b, "levels": [-1, -2, 1, 2, 4, 5, 6], "paths": not shared and rng.random() < 0.3}

    def multis():
        rng = __import__("random").Random(seeds[1])
        for _ in range(n_multi):
            depth = rng.choice([1, 2, 2, 3])
            leaves = PALETTE if rng.random() < 0.5 else rng.sample(PALETTE, 3)
            keys = keys3 if rng.random() < 0.7 else ["a", "b"]
            ds = _family(rng, keys, depth, leaves, rng.choice([2, 3, 3, 3, 4, 6]))
            case = {"op": "multi", "level": rng.choice(LEVELS + [-1, -1, 4, -2])}
            planted = depth > 1 and rng.random() < 0.2
            if planted:
                i = rng.randrange(len(ds))
                ds[i] = _plant(rng, ds[i], keys)[0]
            if rng.random() < 0.3:
                ds = [_dress_kinds(rng, d, rng.choice([0.3, 0.6, 1.0])) if rng.random() < 0.7 else d for d in ds]
            if planted or rng.random() < 0.15:
                # shared objects within an argument and between arguments (also: the same object passed twice)
                ds, shared = _share(rng, ds, roots=True)
                if shared:
                    case["dag"] = True
            case["ds"] = ds
            yield case

    def nesteds():
        rng = __import__("random").Random(seeds[2])
        for _ in range(n_nested):
            key = rng.choice(keys3)
            leaves = PALETTE if rng.random() < 0.5 else rng.sample(PALETTE, 3)
            d = _rand_dict(rng, keys3, rng.choice([1, 2]), leaves, p_absent=0.3)
            # `other` with a chain key.key...key of random length, ending in an absent key (fine) or in a leaf (TypeError)
            other = _rand_dict(rng, keys3, 2, leaves)
            cur = other
            for _ in range(rng.choice([0, 0, 1, 2, 3, 5, 8, 12])):
                nxt = _rand_dict(rng, keys3, 1, leaves)
                cur[key] = nxt
                cur = nxt
            r = rng.random()
            if r < 0.7:
                cur.pop(key, None)
            elif r < 0.85:
                cur[key] = copy.deepcopy(rng.choice(leaves))
            if rng.random() < 0.3:
                d, other = _dress_kinds(rng, d, 0.5), _dress_kinds(rng, other, 0.5)
            yield {"op": "nested", "key": key, "d": d, "other": other}

    def bads():
        rng = __import__("random").Random(seeds[3])
        for i in range(n_bad):
            vals = [rng.choice(PALETTE) if rng.random() < 0.4 else _rand_dict(rng, ["a", "b"], 2, PALETTE)
                    for _ in range(rng.choice([1, 2, 2, 3]))]
            yield {"op": "bad", "vals": copy.deepcopy(vals), "level": rng.choice(LEVELS)}
            if i % 4 == 0:
                # keyword arguments of intersection: an unknown one, with and without `level`
                ds = _family(rng, ["a", "b"], 2, PALETTE, rng.choice([0, 1, 2, 2]))
                if rng.random() < 0.2:
                    ds.append(rng.choice(PALETTE))
                yield {"op": "kw", "ds": ds, "level": rng.choice([None] + LEVELS), "unknown": rng.random() < 0.7}

    def ustrs():
        """update_recursively(d, other[, value]) with a string / a dictionary / something else as `other`"""
        rng = __import__("random").Random(seeds[4])
        for _ in range(n_ext):
            leaves = PALETTE if rng.random() < 0.5 else rng.sample(PALETTE, 3)
            d = _rand_dict(rng, keys3, rng.choice([1, 2, 3]), leaves, p_absent=0.3)
            if rng.random() < 0.05:
                d = rng.choice(PALETTE)
            r = rng.random()
            if r < 0.75:
                # a path of d (so that dictionaries and scalars are overwritten / merged), or a random one
                paths = _paths(d) if isinstance(d, dict) else []
                if paths and rng.random() < 0.6:
                    parts = list(rng.choice(paths))
                    if rng.random() < 0.4:
                        parts.append(rng.choice(keys3))
                else:
                    parts = [rng.choice(keys3 + ["", "x"]) for _ in range(rng.choice([1, 1, 2, 2, 3, 4]))]
                other = ".".join(parts) if rng.random() < 0.93 else ""
            elif r < 0.9:
                other = _rand_dict(rng, keys3, 2, leaves)
            else:
                other = rng.choice([0, None, [], 1, True, [1]])
            case = {"op": "ustr", "d": d, "other": other}
            if rng.random() < (0.7 if isinstance(other, str) else 0.3):
                case["value"] = (_rand_dict(rng, keys3, rng.choice([1, 2]), leaves) if rng.random() < 0.3
                                 else copy.deepcopy(rng.choice(leaves)))
            if _isd(d) and (isinstance(other, str) or _isd(other)) and rng.random() < 0.35:
                # dictionary subclasses in d, in a dictionary `other` and in a dictionary `value` (only where no error
                # message is formatted: the representation of lena.context.Context is JSON)
                for name in ("d", "other", "value"):
                    if _isd(case.get(name)):
                        case[name] = _dress_kinds(rng, case[name], rng.choice([0.4, 1.0]))
            yield case

    def seqs():
        """two to four successive update_recursively calls on one d; sub-dictionaries of an `other` that d did not have
        are stored in d as they are, so a later update may write into an earlier `other`"""
        rng = __import__("random").Random(seeds[9])
        for _ in range(n_ext):
            leaves = PALETTE if rng.random() < 0.4 else rng.sample(PALETTE, 3)
            d = _rand_dict(rng, keys3, rng.choice([1, 2]), leaves, p_absent=0.55)
            o1 = _rand_dict(rng, keys3, rng.choice([2, 3]), leaves, p_absent=0.3, p_dict=0.6)
            others = [o1]
            for _ in range(rng.choice([1, 1, 2, 3])):
                others.append(_mutate(rng, others[-1], keys3, leaves) if rng.random() < 0.7
                              else _rand_dict(rng, keys3, 2, leaves, p_dict=0.6))
            if rng.random() < 0.3:
                d = _dress_kinds(rng, d, 0.5)
                others = [_dress_kinds(rng, o, 0.5) for o in others]
            yield {"op": "seq", "d": d, "others": others}

    def zips():
        rng = __import__("random").Random(seeds[5])
        for _ in range(n_ext):
            leaves = PALETTE if rng.random() < 0.5 else rng.sample(PALETTE, 3)
            keys = keys3 if rng.random() < 0.6 else ["a", "b", "zip"]
            if "zip" in keys:
                # (the harness recognises the parts that Zip stores under "zip" by their being a tuple)
                leaves = [x for x in leaves if not (isinstance(x, dict) and x.get("$") == "tuple")] or [0, 1]
            vals = _family(rng, keys, rng.choice([1, 2, 2]), leaves, rng.choice([1, 2, 2, 3, 4]), p_mut=0.85)
            case = {"op": "zip", "values": vals, "fields": rng.random() < 0.3, "kind": rng.choice(["fc", "fc", "fr"])}
            if rng.random() < 0.4:
                # the same Zip object combines a second tuple of values
                case["values2"] = [_mutate(rng, v, keys, leaves) if rng.random() < 0.7 else
                                   _rand_dict(rng, keys, 2, leaves) for v in vals]
            if rng.random() < 0.25:
                # contexts of a flow may be dictionary subclasses (the element lena.context.Context makes them Context objects)
                for name in ("values", "values2"):
                    if name in case:
                        case[name] = [_dress_kinds(rng, v, 0.6, FLOW_KINDS) for v in case[name]]
            yield case

    def groups():
        rng = __import__("random").Random(seeds[6])
        for i in range(n_ext):
            leaves = PALETTE if rng.random() < 0.5 else rng.sample(PALETTE, 3)
            ctxs = _family(rng, keys3, rng.choice([1, 2, 2, 3]), leaves, rng.choice([0, 1, 2, 2, 3, 4]), p_mut=0.85)
            if i % 3 == 2:
                # LenaSplit._get_context over branches whose static contexts are set by SetContext elements
                yield {"op": "split", "ctxs": ctxs}
            else:
                ctxs = [_with_changed(rng, c, 0.35) for c in ctxs]
                if rng.random() < 0.25:
                    ctxs = [_dress_kinds(rng, c, 0.6, FLOW_KINDS) for c in ctxs]
                yield {"op": "group", "ctxs": ctxs}

    def uwgs():
        rng = __import__("random").Random(seeds[7])
        for _ in range(n_ext):
            leaves = PALETTE if rng.random() < 0.5 else rng.sample(PALETTE, 3)
            fam = _family(rng, keys3, rng.choice([1, 2, 2]), leaves, rng.choice([2, 3, 4, 5]), p_mut=0.9)
            new = fam[1:]
            old = (_unbuild(ref_glb(-1, _build(fam[0]), _build(fam[1]))) if rng.random() < 0.7
                   else _mutate(rng, fam[0], keys3, leaves))
            ctx_ = copy.deepcopy(old) if rng.random() < 0.6 else _mutate(rng, old, keys3, leaves)
            if rng.random() < 0.5:
                ctx_[rng.choice(keys3)] = copy.deepcopy(rng.choice(leaves))
            if rng.random() < 0.35:
                # through MapGroup.run: the old intersection is computed from context.group, one new context per member
                oldgrp = [_mutate(rng, c, keys3, leaves) for c in new]
                glb = _build(oldgrp[0])
                for c in oldgrp[1:]:
                    glb = ref_glb(-1, glb, _build(c))
                glb = _unbuild(glb)
                ctx_ = copy.deepcopy(glb) if rng.random() < 0.7 else _mutate(rng, glb, keys3, leaves)
                if rng.random() < 0.5:
                    ctx_[rng.choice(keys3)] = copy.deepcopy(rng.choice(leaves))
                case = {"op": "uwg", "ctx": _with_changed(rng, ctx_, 0.3), "new": [_with_changed(rng, c, 0.3) for c in new],
                        "old": {}, "oldgrp": oldgrp}
                if rng.random() < 0.4:
                    # the sequence yields two results per member: two values come out, the first with a copy of the context
                    case["new2"] = [_with_changed(rng, _mutate(rng, c, keys3, leaves), 0.2) for c in new]
                yield case
                continue
            yield {"op": "uwg", "ctx": _with_changed(rng, ctx_, 0.4), "new": [_with_changed(rng, c, 0.3) for c in new],
                   "old": _with_changed(rng, copy.deepcopy(old), 0.15)}

    return _interleave([exh_pairs(), exh_depth3(), exh_small(), exh_dressed(), pairs(), deep_pairs(), multis(), nesteds(), bads(), ustrs(), seqs(), zips(), groups(), uwgs()])


def gen_cases(ctx):
    if ctx.tier == "quick":
        return _gen(ctx, 2, 1600, 1600, 1000, 400, 400)
    return _gen(ctx, 3, 45000, 30000, 15000, 3000, 6000)


def search_cases(ctx):
    """failing-input search after a broken proof/correspondence: small exhaustive scope + a larger sample, per extra seed"""
    return _gen(ctx, 2, 30000, 20000, 8000, 1000, 4000)


# ----------------------------------------------------------------------------------------
# Python reference of the specification vocabulary (independent of lena and of the Lean model)

def cont_item(lv, v, w):
    """item value v is contained in item value w at level lv"""
    if v == w:
        return True
    return lv != 1 and isinstance(v, dict) and isinstance(w, dict) and cont(lv - 1, v, w)


def cont(lv, a, b):
    return all(k in b and cont_item(lv, a[k], b[k]) for k in a)


def contained(lv, a, b):
    """a is contained in b at `level` lv (level 0 allows no recursion at all: a == b, or a is empty)"""
    if lv == 0:
        return a == b or not a
    return cont(lv, a, b)


def ref_glb(lv, a, b):
    """the greatest dictionary contained (at level lv) in a and in b"""
    if lv == 0:
        return copy.deepcopy(a) if a == b else {}
    res = {}
    for k in a:
        if k in b:
            if a[k] == b[k]:
                res[k] = copy.deepcopy(a[k])
            elif lv != 1 and isinstance(a[k], dict) and isinstance(b[k], dict):
                res[k] = ref_glb(lv - 1, a[k], b[k])
    return res


def ref_diff(lv, a, b):
    """exactly the items of a not contained in b (at level lv)"""
    if lv == 0:
        return {} if a == b else a
    res = {}
    for k in a:
        if k in b and cont_item(lv, a[k], b[k]):
            continue
        if k in b and lv != 1 and isinstance(a[k], dict) and isinstance(b[k], dict):
            res[k] = ref_diff(lv - 1, a[k], b[k])
        else:
            res[k] = a[k]
    return res


def untouched(o, p):
    """`o` does not overwrite the path p"""
    if not p:
        return False
    if p[0] not in o:
        return True
    if not isinstance(o[p[0]], dict):
        return False
    return untouched(o[p[0]], p[1:])


_NOPATH = {"nopath": True}


def get_path(v, p):
    for k in p:
        if not isinstance(v, dict) or k not in v:
            return _NOPATH
        v = v[k]
    return v


def _paths(v, pre=()):
    """all key paths to nodes of the nested dictionary v (without the empty path)"""
    out = []
    if _isd(v):
        for k in v:
            out.append(pre + (k,))
            out.extend(_paths(v[k], pre + (k,)))
    return out


def _leaf_items(c, pre=()):
    """(path, value) of every item that is not a non-empty dictionary"""
    for k, v in c.items():
        if isinstance(v, dict) and v:
            yield from _leaf_items(v, pre + (k,))
        else:
            yield pre + (k,), v


def ref_str_to_dict(s, *value):
    """reference of str_to_dict for a well-formed call: nested singleton dictionaries"""
    parts = s.split(".") + list(value)
    res = parts[-1]
    for k in reversed(parts[:-1]):
        res = {k: res}
    return res


def _without(a, p, replace=_ABSENT):
    """a with the item at path p removed (or replaced); only the dictionaries along the path are copied"""
    c = dict(a)
    if len(p) == 1:
        if replace is _ABSENT:
            del c[p[0]]
        else:
            c[p[0]] = replace
    else:
        c[p[0]] = _without(a[p[0]], p[1:], replace)
    return c


def _prunings(a, limit=12):
    """some dictionaries contained in a: a with one item removed / one sub-dictionary emptied (read-only views)"""
    out = [{}]
    for p in _paths(a)[:limit]:
        out.append(_without(a, p))
        if isinstance(get_path(a, p), dict):
            out.append(_without(a, p, {}))
    return out


# ----------------------------------------------------------------------------------------
# the real code

_MUTABLE = (dict, list, set, _Obj)


def _children(o):
    if isinstance(o, dict):
        return list(o.values())
    if isinstance(o, (list, tuple)):
        return list(o)
    return []          # the members of a set are hashable: nothing mutable below; _Obj is a black box


def _mut_ids(v, acc):
    """ids of all mutable objects (dictionaries, lists, sets, opaque objects) reachable from v, also through tuples"""
    if isinstance(v, _MUTABLE):
        acc.add(id(v))
    for x in _children(v):
        _mut_ids(x, acc)
    return acc


def _shares(res, *args):
    r = _mut_ids(res, set())
    for a in args:
        if r & _mut_ids(a, set()):
            return True
    return False


def _mut_objs(leaf):
    """the mutable objects a leaf consists of (a list or set itself, lists and dictionaries inside lists/tuples), preorder"""
    out = []

    def rec(o):
        if isinstance(o, _MUTABLE):
            out.append(o)
        for x in _children(o):
            rec(x)
    rec(leaf)
    return out


def _tok_tree(v, enc, ctr, idmap=None):
    """token-annotated slot-vector form of an argument: identities 0, 1, 2, … in preorder (keys in alphabet order);
    with `idmap`, also records id(object) -> identity"""
    if isinstance(v, dict):
        t = ctr[0]
        ctr[0] += 1
        if idmap is not None:
            idmap[id(v)] = t
        kv = {_kstr(k): x for k, x in v.items()}
        return {"t": t, "s": [(_tok_tree(kv[k], enc, ctr, idmap) if k in kv else None) for k in enc.keys]}
    ts = []
    for o in _mut_objs(v):
        ts.append(ctr[0])
        if idmap is not None:
            idmap[id(o)] = ctr[0]
        ctr[0] += 1
    return {"l": enc.cls(v), "t": ts}


def _tok_result(v, enc, idmap):
    """the same form for a result: identity of a known object, -1 for a new one (-2: an object of the second argument)"""
    if isinstance(v, dict):
        kv = {_kstr(k): x for k, x in v.items()}
        return {"t": idmap.get(id(v), -1),
                "s": [(_tok_result(kv[k], enc, idmap) if k in kv else None) for k in enc.keys]}
    return {"l": enc.cls(v), "t": [idmap.get(id(o), -1) for o in _mut_objs(v)]}


def _tok_dag(v, enc, idmap, ctr):
    """like _tok_tree for values in which one object may be reachable several times (and from several arguments: pass the
    same idmap): an object met again has the identity it got first"""
    if isinstance(v, dict):
        if id(v) not in idmap:
            idmap[id(v)] = ctr[0]
            ctr[0] += 1
        kv = {_kstr(k): x for k, x in v.items()}
        return {"t": idmap[id(v)], "s": [(_tok_dag(kv[k], enc, idmap, ctr) if k in kv else None) for k in enc.keys]}
    ts = []
    for o in _mut_objs(v):
        if id(o) not in idmap:
            idmap[id(o)] = ctr[0]
            ctr[0] += 1
        ts.append(idmap[id(o)])
    return {"l": enc.cls(v), "t": ts}


def _canon_pat(t, ren=None):
    """the sharing pattern of a token-annotated tree: identities renumbered 0, 1, 2, … in the order of their first
    occurrence (preorder), so that two trees have the same pattern iff the same places hold the same object"""
    if ren is None:
        ren = {}
    if "s" in t:
        root = ren.setdefault(t["t"], len(ren))
        return {"t": root, "s": [None if c is None else _canon_pat(c, ren) for c in t["s"]]}
    return {"l": t["l"], "t": [ren.setdefault(x, len(ren)) for x in t["t"]]}


def _is_shared(case):
    return "shared" in _dressing(_case_values(case))


def _shallow(o):
    """the items of one dictionary object: keys with the identity of mutable values and the value of scalars"""
    return sorted(((_kstr(k), ("id", id(v)) if isinstance(v, _MUTABLE + (tuple,)) else ("v", type(v).__name__, repr(v)))
                   for k, v in o.items()), key=lambda kv: str(kv[0]))


def _shallow_all(*roots):
    """id -> (object, its items) for every dictionary reachable from the roots (kept alive by the references)"""
    out = {}

    def rec(v):
        if isinstance(v, dict):
            if id(v) not in out:
                out[id(v)] = (v, _shallow(v))
                for x in v.values():
                    rec(x)
        elif isinstance(v, (list, tuple)):
            for x in v:
                rec(x)
    for r in roots:
        rec(r)
    return out


def _written(before, idmap):
    """identities of the dictionaries that existed before the call and whose own items differ now"""
    return sorted(idmap[i] for i, (o, sh) in before.items() if _shallow(o) != sh and i in idmap)


def _fresh(v, mode="real"):
    """the Python objects of a case value, new at every call: dictionary subclasses where the case says so, and one object
    for all occurrences of a {"$": "shared"} marker within v (pass a list to share between arguments); mode "tree": no
    sharing (for the d of update_recursively, whose in-place update of an object reachable twice is outside the statement)"""
    return _build(v, mode)


def _snap(*vs):
    return jdump(_unbuild(list(vs)))


def _call(f, *a, **kw):
    try:
        return {"r": f(*a, **kw)}
    except Exception as e:  # noqa: the exception class is the observation
        return {"e": exc_name(e)}


def run_impl(case):
    """the observations are returned as one JSON string (field "z"): the big runs keep hundreds of thousands of results
    in memory, and a string is several times smaller than the tree; `_unz` decodes it where it is used"""
    return {"z": jdump(_unbuild(_run_impl(case)))}


_UNZ_CACHE = [None, None]


def _unz(r):
    """decode a stored result (and rebuild the Python values in it); the judges only read it, so the last one is kept
    (oracle and classify are called one after the other on the same result)"""
    if not (isinstance(r, dict) and "z" in r):
        return r
    if _UNZ_CACHE[0] is r["z"]:
        return _UNZ_CACHE[1]
    v = _build(json.loads(r["z"]))
    _UNZ_CACHE[0], _UNZ_CACHE[1] = r["z"], v
    return v


def _run_impl(case):
    import lena.context as lc
    op = case["op"]
    if op == "pair":
        a, b = _fresh([case["a"], case["b"]])
        s0 = _snap(a, b)
        out = {"lv": []}
        idmap = None
        if case.get("paths"):
            # identities: the objects of a are numbered first, then those of b
            enc = _Enc(case)
            idmap, ctr = {}, [0]
            _tok_tree(a, enc, ctr, idmap)
            _tok_tree(b, enc, ctr, idmap)
            before_ab = _shallow_all(a, b)
        shared = _is_shared(case)
        if shared:
            # one object at several places of the arguments: identities by object, a then b (sharing model)
            enc = _Enc(case)
            dagmap, dctr = {}, [0]
            _tok_dag(a, enc, dagmap, dctr)
            _tok_dag(b, enc, dagmap, dctr)
            cp = _call(lc.intersection, a)          # (one argument: the deep copy itself)
            out["copy_pat"] = _canon_pat(_tok_dag(cp["r"], enc, {}, [0])) if "r" in cp else cp
        # the calls with the default level and with a positional level; an argument against itself
        idem = case.get("idem", True)
        if idem:
            out["default"] = {"iab": _call(lc.intersection, a, b), "dab": _call(lc.difference, a, b),
                              "dab_pos": _call(lc.difference, a, b, -1), "daa": _call(lc.difference, a, a)}
            for name in ("iab", "dab", "dab_pos", "daa"):
                if "r" in out["default"][name]:
                    out["default"][name] = {"r": copy.deepcopy(out["default"][name]["r"])}
        for lv in case["levels"]:
            r = {}
            iab = _call(lc.intersection, a, b, level=lv)
            r["iab"] = iab
            if "r" in iab:
                r["iab_shares"] = _shares(iab["r"], a, b)
            r["iba"] = _call(lc.intersection, b, a, level=lv)
            if idem:
                iaa = _call(lc.intersection, a, a, level=lv)
                r["iaa"] = iaa
                if "r" in iaa:
                    r["iaa_shares"] = _shares(iaa["r"], a)
            dab = _call(lc.difference, a, b, level=lv)
            r["dab"] = dab
            if idmap is not None and "r" in iab and "r" in dab:
                # which objects do the results consist of?  (before anything is updated)
                r["tok"] = {"inter": _tok_result(iab["r"], enc, idmap), "diff": _tok_result(dab["r"], enc, idmap)}
                # which objects of the arguments did intersection / difference change?  (none, one hopes)
                r["written"] = _written(before_ab, idmap)
            if shared and "r" in iab and "r" in dab:
                # which places of the intersection hold the same object; which objects of d1 the difference returns
                r["pat"] = {"inter": _canon_pat(_tok_dag(iab["r"], enc, {}, [0])),
                            "diff": _tok_result(dab["r"], enc, dagmap)}
            if "r" in iab and "r" in dab:
                # freeze the observations before anything is updated (difference may return parts of a)
                r["iab"] = {"r": copy.deepcopy(iab["r"])}
                r["dab"] = {"r": copy.deepcopy(dab["r"])}
                rec = iab["r"]
                u = _call(lc.update_recursively, rec, dab["r"])
                r["rec"] = {"r": copy.deepcopy(rec)} if "r" in u else u

            # compact the result (memory of the big runs): values that repeat another one are stored as a marker
            if r["iba"] == r["iab"]:
                r["iba"] = "=iab"
            for name in ("iaa", "rec"):
                if r.get(name) == {"r": a}:
                    r[name] = "=a"
            out["lv"].append(r)
        out["changed"] = _snap(a, b) != s0
        d = _fresh(case["a"], "tree")
        if idmap is not None:
            # which objects does update_recursively write to, what do d and other consist of afterwards?
            o = _fresh(case["b"], "tree")
            mp, ctr = {}, [0]
            _tok_tree(d, enc, ctr, mp)
            _tok_tree(o, enc, ctr, mp)
            before = _shallow_all(d, o)
            u = _call(lc.update_recursively, d, o)
            out["mut"] = {"d": _tok_result(d, enc, mp), "other": _tok_result(o, enc, mp),
                          "written": _written(before, mp)}
        else:
            u = _call(lc.update_recursively, d, b)
        out["upd"] = {"r": d} if "r" in u else u
        if idem:
            # d and other are the same object
            dd = _fresh(case["a"], "tree")
            u = _call(lc.update_recursively, dd, dd)
            out["uaa"] = {"r": dd} if "r" in u else u
        return out
    if op == "multi":
        ds = _fresh(case["ds"])
        lv = case["level"]
        s0 = _snap(ds)
        enc, mp, ctr = _Enc(case), {}, [0]
        for d in ds:
            _tok_tree(d, enc, ctr, mp)
        before = _shallow_all(*ds)
        out = {"all": _call(lc.intersection, *ds, level=lv)}
        if "r" in out["all"]:
            out["shares"] = _shares(out["all"]["r"], *ds)
            if not case.get("dag"):
                # what the result consists of (every object must be new) and which argument objects changed (none)
                out["tok"] = _tok_result(out["all"]["r"], enc, mp)
                out["written"] = _written(before, mp)
            else:
                out["pat"] = _canon_pat(_tok_dag(out["all"]["r"], enc, {}, [0]))
        out["default_level"] = _call(lc.intersection, *ds) if lv == -1 else None
        n = len(ds)
        if 2 <= n <= 3:
            out["perms"] = [_call(lc.intersection, *[ds[i] for i in p], level=lv)
                            for p in itertools.permutations(range(n))]
        if n == 3:
            ab = _call(lc.intersection, ds[0], ds[1], level=lv)
            bc = _call(lc.intersection, ds[1], ds[2], level=lv)
            out["ab_c"] = _call(lc.intersection, ab["r"], ds[2], level=lv) if "r" in ab else ab
            out["a_bc"] = _call(lc.intersection, ds[0], bc["r"], level=lv) if "r" in bc else bc
        if n >= 2:
            # left fold of the binary intersection
            acc = {"r": ds[0]}
            for d in ds[1:]:
                acc = _call(lc.intersection, acc["r"], d, level=lv)
                if "e" in acc:
                    break
            out["fold"] = acc
        if "r" in out["all"] and n >= 1:
            # every argument is the intersection updated with its own difference (Zip._create_context, group_plots)
            recs = []
            for d in ds:
                dd = _call(lc.difference, d, out["all"]["r"], level=lv)
                if "e" in dd:
                    recs.append(dd)
                    continue
                rec = copy.deepcopy(out["all"]["r"])
                u = _call(lc.update_recursively, rec, copy.deepcopy(dd["r"]))
                recs.append({"r": rec} if "r" in u else u)
            out["recs"] = recs
        out["changed"] = _snap(ds) != s0
        return out
    if op == "nested":
        key = case["key"]
        d, other = _fresh(case["d"]), _fresh(case["other"])
        prev = d.get(key, _ABSENT)
        enc, mp, ctr = _Enc(case), {}, [0]
        _tok_tree(d, enc, ctr, mp)
        _tok_tree(other, enc, ctr, mp)
        before = _shallow_all(d, other)
        u = _call(lc.update_nested, key, d, other)
        out = {"d": d, "other": other,
               "mut": {"d": _tok_result(d, enc, mp), "other": _tok_result(other, enc, mp), "written": _written(before, mp)}}
        if "e" in u:
            out["e"] = u["e"]
            return out
        out["is_other"] = d.get(key) is other
        # where is the previous d[key]?  walk d[key][key]...[key]
        at, cur, steps = None, d.get(key), 0
        if prev is not _ABSENT:
            # (the statement asks for the previous value to be reachable, not for the same object: the identity is
            # recorded for the correspondence with the write-log model only)
            at_same = None
            while isinstance(cur, dict) and key in cur and steps < 60:
                cur = cur[key]
                steps += 1
                if cur is prev:
                    at_same = steps
                if cur is prev or (type(cur) is type(prev) and cur == prev):
                    at = steps
                    if cur is prev:
                        break
            out["prev_at_same_object"] = at_same
        out["prev_at"] = at
        return out
    if op == "seq":
        # d.update_recursively(o1); d.update_recursively(o2); …: every `other` is kept and looked at again at the end
        d = _fresh(case["d"])
        others = [_fresh(o) for o in case["others"]]
        enc, mp, ctr = _Enc(case), {}, [0]
        _tok_tree(d, enc, ctr, mp)
        for o in others:
            _tok_tree(o, enc, ctr, mp)
        # every numbered object stays alive to the end: an object that d drops on the way must not lend its id() to a new one
        alive = [copy.copy(d)] + _mut_objs(d) + [x for o in others for x in _mut_objs(o)]
        steps = []
        for o in others:
            before = _shallow_all(d, *others)
            d_before = copy.deepcopy(d)
            o_before = copy.deepcopy(o)
            u = _call(lc.update_recursively, d, o)
            if "e" in u:
                steps.append(u)
                break
            steps.append({"d": copy.deepcopy(d), "d_before": d_before, "o_before": o_before,
                          "tree": _tok_result(d, enc, mp), "written": _written(before, mp)})
        out = {"steps": steps, "others_after": [_tok_result(o, enc, mp) for o in others],
               "others_values": [copy.deepcopy(o) for o in others]}
        del alive
        return out
    if op == "ustr":
        d, other = _fresh(case["d"]), _fresh(case["other"])
        args = [d, other] + ([_fresh(case["value"])] if "value" in case else [])
        u = _call(lc.update_recursively, *args)
        return ({"r": d} if "r" in u else u)
    if op == "kw":
        ds = _fresh(case["ds"])
        kw = {}
        if case["level"] is not None:
            kw["level"] = case["level"]
        if case["unknown"]:
            kw["levle"] = 1
        return {"inter": _call(lc.intersection, *ds, **kw), "changed": _snap(ds) != _snap(case["ds"])}
    if op == "cyc":
        # other[key][key]... leads back to `other`
        key, d = case["key"], _fresh(case["d"])
        # other -> (tail dictionaries) -> a cycle of `cycle` dictionaries, all along `key`
        tail = [{"c": "t%d" % i} for i in range(case.get("tail", 0))]
        nodes = [{"c": i} for i in range(case["cycle"])]
        for i, nd in enumerate(nodes):
            nd[key] = nodes[(i + 1) % len(nodes)]
        for i, nd in enumerate(tail):
            nd[key] = tail[i + 1] if i + 1 < len(tail) else nodes[0]
        other = (tail + nodes)[0]
        u = _call(lc.update_nested, key, d, other)
        return {"e": u["e"]} if "e" in u else {"ok": d.get(key) is other}
    if op == "zip":
        import lena.flow
        rounds = [_fresh(case["values"])] + ([_fresh(case["values2"])] if "values2" in case else [])
        s0 = _snap(rounds)
        fr = case.get("kind") == "fr"

        class _Src(object):
            def __init__(self, i):
                self.i = i

            def fill(self, val):
                pass

            def _vals(self):
                for rnd in rounds:
                    yield (self.i, rnd[self.i])

            def reset(self):
                pass

        if fr:
            _Src.request = _Src._vals
        else:
            _Src.compute = _Src._vals
        kw = {"fields": ["f%d" % i for i in range(len(rounds[0]))]} if case.get("fields") else {}
        try:
            z = lena.flow.Zip([_Src(i) for i in range(len(rounds[0]))], **kw)
            z.fill(0)
            if fr:
                z.reset()
            it = z.request() if fr else z.compute()
        except Exception as e:  # noqa
            return {"e": exc_name(e), "phase": "init"}
        outs = []
        for _ in rounds:
            try:
                val = next(it)
            except StopIteration:
                outs.append({"e": "Other:StopIteration"})
                break
            except Exception as e:  # noqa
                outs.append({"e": exc_name(e)})
                break            # the generator is finished after an exception
            data, context = lena.flow.get_data_context(val)
            zp = context.get("zip")
            out = {"data": list(data)}
            if isinstance(zp, tuple):
                out["zip"] = [x for x in zp]
                out["common"] = {k: v for k, v in context.items() if k != "zip"}
                # each value is the common part updated with its own part (the point of the construction)
                recs = []
                for x in zp:
                    rec = copy.deepcopy(out["common"])
                    u = _call(lc.update_recursively, rec, copy.deepcopy(x))
                    recs.append({"r": rec} if "r" in u else u)
                out["recs"] = recs
            else:
                out["zip"] = None
                out["common"] = context
            outs.append(out)
        ended = None
        if outs and "e" not in outs[-1]:
            try:
                next(it)
                ended = False
            except StopIteration:
                ended = True
            except Exception as e:  # noqa
                ended = exc_name(e)
        return {"outs": outs, "ended": ended, "changed": _snap(rounds) != s0}
    if op == "group":
        from lena.flow.group_plots import group_plots
        ctxs = _fresh(case["ctxs"])
        s0 = _snap(ctxs)
        u = _call(group_plots, [(i, c) for i, c in enumerate(ctxs)])
        if "e" in u:
            return u
        data, context = u["r"]
        grp = context.get("group")
        return {"ctx": {k: v for k, v in context.items() if k != "group"}, "data": list(data),
                "group_is": isinstance(grp, list) and len(grp) == len(ctxs) and all(x is y for x, y in zip(grp, ctxs)),
                "shares": _shares({k: v for k, v in context.items() if k != "group"}, *ctxs),
                "changed": _snap(ctxs) != s0}
    if op == "split":
        import lena.core
        from lena.meta import SetContext
        ctxs = _fresh(case["ctxs"])

        def branch(c):
            els = [SetContext(".".join(p), v) for p, v in _leaf_items(c)]
            els.append(lambda x: x)
            return tuple(els)

        try:
            sp = lena.core.Split([branch(c) for c in ctxs])
            branch_ctxs = [seq._get_context() for seq in sp._seqs]
            res = sp._get_context()
        except Exception as e:  # noqa
            return {"e": exc_name(e)}
        return {"ctx": res, "branches": branch_ctxs, "again": sp._get_context() == res,
                "fresh": sp._get_context() is not res}
    if op == "uwg":
        from lena.flow.group_plots import _update_with_group
        ctx_, new, old = _fresh(case["ctx"]), _fresh(case["new"]), _fresh(case["old"])
        if "oldgrp" in case:
            import lena.flow
            from lena.flow.group_plots import MapGroup
            oldgrp = _fresh(case["oldgrp"])
            s0 = _snap(new, oldgrp)

            news = [new] + ([_fresh(case["new2"])] if "new2" in case else [])

            class _Repl(object):
                def run(self, flow):
                    for val in flow:
                        data, _c = lena.flow.get_data_context(val)
                        for nw in news:
                            yield (data, nw[data])

            ctx_["group"] = oldgrp
            u = _call(lambda: list(MapGroup(_Repl()).run([(list(range(len(oldgrp))), ctx_)])))
            if "e" in u:
                return u
            if len(u["r"]) != len(news):
                return {"e": "Other:%d values instead of %d" % (len(u["r"]), len(news))}
            outs = []
            for (data, c1), nw in zip(u["r"], news):
                grp = c1.get("group")
                outs.append({"ctx": {k: v for k, v in c1.items() if k != "group"},
                             "group_is": isinstance(grp, list) and len(grp) == len(nw) and all(x is y for x, y in zip(grp, nw))})
            return {"ctx": outs[0]["ctx"], "group_is": outs[0]["group_is"], "ctx2": outs[1]["ctx"] if len(outs) > 1 else None,
                    "changed": _snap(news, oldgrp) != _snap([_fresh(case["new"])] + ([_fresh(case["new2"])] if "new2" in case else []),
                                                           case["oldgrp"])}
        s0 = _snap(new, old)
        u = _call(_update_with_group, ctx_, new, old)
        if "e" in u:
            return u
        return {"ctx": {k: v for k, v in ctx_.items() if k != "group"}, "group_is": ctx_.get("group") is new,
                "changed": _snap(new, old) != s0}
    if op == "bad":
        vals = _fresh(case["vals"])
        lv = case["level"]
        out = {"inter": _call(lc.intersection, *vals, level=lv)}
        if len(vals) >= 2:
            out["diff"] = _call(lc.difference, vals[0], vals[1], level=lv)
        if len(vals) >= 2 and not isinstance(vals[1], str):
            # (a string `other` is converted by str_to_dict first: C08)
            d = _fresh(vals[0])
            u = _call(lc.update_recursively, d, _fresh(vals[1]))
            out["upd"] = {"r": d} if "r" in u else u
        out["changed"] = _snap(vals) != _snap(case["vals"])
        return out
    raise ValueError(op)


# ----------------------------------------------------------------------------------------
# translation to the model's slot vectors

_VALUE_FIELDS = ("a", "b", "d", "other", "value", "ctx", "old")
_LIST_FIELDS = ("ds", "vals", "values", "values2", "ctxs", "new", "new2", "oldgrp", "others")


def _case_values(case):
    vs = [case[n] for n in _VALUE_FIELDS if n in case]
    for n in _LIST_FIELDS:
        vs.extend(case.get(n, []))
    return vs


def _collect_keys(v, acc):
    """keys (as case strings) of all dictionaries of a value (lists, tuples … are leaves: what is inside is not a context key)"""
    if isinstance(v, dict):
        for k, x in v.items():
            acc.add(_kstr(k))
            _collect_keys(x, acc)


class _Enc:
    """slot-vector encoding of the values of one case: sorted key alphabet, leaf classes under =="""

    def __init__(self, case):
        case = _build(case)
        keys = set()
        for v in _case_values(case):
            _collect_keys(v, keys)
        op = case["op"]
        if op == "nested":
            keys.add(case["key"])
        elif op == "ustr" and isinstance(case["other"], str) and case["other"] != "":
            keys.update(case["other"].split("."))
        elif op == "zip":
            keys.add("zip")
        elif op in ("group", "uwg"):
            keys.update(("output", "changed"))
        self.keys = sorted(keys, key=str)
        self.classes = []          # representatives of the leaf classes under ==
        if op in ("group", "uwg"):
            self.tt, self.ff = self.cls(True), self.cls(False)
        for v in _case_values(case):
            self.val(v)

    def cls(self, leaf):
        """the class of a leaf under Python's own `==` (what the code under test observes): 0 == False == 0.0,
        (1,) != [1], {1} == frozenset({1})"""
        for i, r in enumerate(self.classes):
            try:
                same = (r == leaf) is True and (leaf == r) is True
            except Exception:  # noqa
                same = False
            if same:
                return i
        self.classes.append(leaf)
        return len(self.classes) - 1

    def val(self, v):
        if isinstance(v, dict):
            kv = {_kstr(k): x for k, x in v.items()}
            extra = [k for k in kv if k not in self.keys]
            slots = [self.val(kv[k]) if k in kv else None for k in self.keys]
            return slots + [{"unknown-key": str(k)} for k in extra] if extra else slots
        return self.cls(v)

    def falsy(self):
        return [i for i, r in enumerate(self.classes) if not r]

    def path(self, p):
        return [self.keys.index(_kstr(k)) for k in p]


def _enc(case):
    return _Enc(case)


def _pair_paths(case):
    a, b = case["a"], case["b"]
    ps = set(_paths(a)) | set(_paths(b))
    order = lambda p: [str(_kstr(k)) for k in p]          # keys may be strings and integers
    keys = sorted({k for p in ps for k in p}, key=lambda k: str(_kstr(k)))
    ext = set()
    for p in sorted(ps, key=order)[:10]:
        for k in keys[:2]:
            ext.add(p + (k,))
    return [()] + sorted(ps | ext, key=order)[:40]


def _share_request(raw_values, e, n, levels):
    """the arguments as the code under test gets them (one object per shared marker), identities by object"""
    real = _build(list(raw_values), "real")
    idmap, ctr = {}, [0]
    args = [_tok_dag(v, e, idmap, ctr) for v in real]
    return {"op": "share", "n": n, "levels": levels, "args": args, "c": ctr[0], "falsy": e.falsy()}


def model_requests(case):
    raw = case
    case = _build(case)
    op = case["op"]
    e = _enc(case)
    n = len(e.keys)
    if op == "pair":
        a, b = e.val(case["a"]), e.val(case["b"])
        reqs = [{"op": "pair", "n": n, "a": a, "b": b, "levels": case["levels"], "falsy": e.falsy()}]
        if case.get("idem", True):
            reqs.append({"op": "update", "d": a, "other": a, "uaa": True})
        if case.get("paths"):
            reqs.append({"op": "paths", "d": a, "o": b, "paths": [e.path(p) for p in _pair_paths(case)]})
            ctr = [0]
            ta = _tok_tree(case["a"], e, ctr)
            tb = _tok_tree(case["b"], e, ctr)
            reqs.append({"op": "tok", "n": n, "a": ta, "b": tb, "c": ctr[0], "levels": case["levels"], "falsy": e.falsy()})
            ctr = [0]
            td = _tok_tree(case["a"], e, ctr)
            to = _tok_tree(case["b"], e, ctr)
            reqs.append({"op": "mutupd", "d": td, "other": to, "c": ctr[0]})
        if _is_shared(raw):
            reqs.append(_share_request([raw["a"], raw["b"]], e, n, case["levels"]))
        return reqs
    if op == "multi":
        ds = [e.val(d) for d in case["ds"]]
        reqs = [{"op": "inter", "n": n, "level": case["level"], "ds": ds, "falsy": e.falsy()}]
        ctr = [0]
        args = [_tok_tree(d, e, ctr) for d in case["ds"]]
        reqs.append({"op": "tokn", "n": n, "level": case["level"], "args": args, "c": ctr[0]})
        if len(ds) == 3:
            reqs.append({"op": "assoc", "n": n, "level": case["level"], "a": ds[0], "b": ds[1], "c": ds[2]})
        if raw.get("dag") and ds:
            reqs.append(_share_request(raw["ds"], e, n, [case["level"]]))
        return reqs
    if op == "nested":
        ctr = [0]
        td = _tok_tree(case["d"], e, ctr)
        to = _tok_tree(case["other"], e, ctr)
        return [{"op": "nested", "k": e.keys.index(case["key"]), "d": e.val(case["d"]), "other": e.val(case["other"])},
                {"op": "mutnest", "k": e.keys.index(case["key"]), "d": td, "other": to, "c": ctr[0]},
                {"op": "mn", "k": e.keys.index(case["key"]), "v": e.val(case["other"])}]
    if op == "seq":
        ctr = [0]
        td = _tok_tree(case["d"], e, ctr)
        tos = [_tok_tree(o, e, ctr) for o in case["others"]]
        return [{"op": "mutseq", "d": td, "others": tos, "c": ctr[0]}]
    if op == "ustr":
        other = case["other"]
        if isinstance(other, str):
            parts = other.split(".")
            mo = {"s": {"empty": other == "", "keys": [] if other == "" else [e.keys.index(p_) for p_ in parts],
                        "last": e.cls(parts[-1])}}
        else:
            mo = {"v": e.val(other)}
        return [{"op": "ustr", "n": n, "d": e.val(case["d"]), "other": mo,
                 "value": {"v": e.val(case["value"])} if "value" in case else None}]
    if op == "kw":
        return [{"op": "kw", "n": n, "level": -1 if case["level"] is None else case["level"],
                 "ds": [e.val(d) for d in case["ds"]], "unknown": case["unknown"]}]
    if op == "cyc":
        # a self-referential value is not a value of the model; only "does d have the key" matters (updateNestedCyclic)
        return [{"op": "cyc", "key_in_d": case["key"] in case["d"]}]
    if op == "zip":
        return [{"op": "zip", "n": n, "zk": e.keys.index("zip"), "values": [e.val(v) for v in vals], "falsy": e.falsy()}
                for vals in _zip_rounds(case)]
    if op in ("group", "split"):
        ks = e.keys + ["output", "changed"] if op == "split" else e.keys
        return [{"op": "group", "n": n, "o": ks.index("output"), "ch": ks.index("changed"),
                 "tt": getattr(e, "tt", 0), "ff": getattr(e, "ff", 0), "ctxs": [e.val(c) for c in case["ctxs"]],
                 "falsy": e.falsy()}]
    if op == "uwg":
        return [{"op": "uwg", "n": n, "o": e.keys.index("output"), "ch": e.keys.index("changed"), "tt": e.tt, "ff": e.ff,
                 "ctx": e.val(case["ctx"]), "new": [e.val(c) for c in case[nw]], "old": e.val(case["old"]),
                 "falsy": e.falsy(), **({"oldgrp": [e.val(c) for c in case["oldgrp"]]} if "oldgrp" in case else {})}
                for nw in (["new", "new2"] if "new2" in case else ["new"])]
    if op == "bad":
        vals = [e.val(v) for v in case["vals"]]
        reqs = [{"op": "inter", "n": n, "level": case["level"], "ds": vals, "falsy": e.falsy()}]
        if len(vals) >= 2:
            reqs.append({"op": "diffv", "level": case["level"], "a": vals[0], "b": vals[1], "falsy": e.falsy()})
            if not isinstance(case["vals"][1], str):
                reqs.append({"op": "update", "d": vals[0], "other": vals[1]})
        return reqs
    raise ValueError(op)


def _expand(r, a):
    """undo the compaction of a per-level result of a pair case"""
    if r.get("iba") == "=iab" or r.get("iaa") == "=a" or r.get("rec") == "=a":
        r = dict(r)
        if r.get("iba") == "=iab":
            r["iba"] = r["iab"]
        for name in ("iaa", "rec"):
            if r.get(name) == "=a":
                r[name] = {"r": a}
    return r


def _ref_toks(t):
    """identities reachable from a token-annotated tree, in preorder"""
    if "s" in t:
        return [t["t"]] + [x for c in t["s"] if c is not None for x in _ref_toks(c)]
    return list(t["t"])


def _ref_dict_toks(t):
    if "s" in t:
        return [t["t"]] + [x for c in t["s"] if c is not None for x in _ref_dict_toks(c)]
    return []


def _ref_erase(t):
    if "s" in t:
        return [None if c is None else _ref_erase(c) for c in t["s"]]
    return t["l"]


def _zip_rounds(case):
    return [case["values"]] + ([case["values2"]] if "values2" in case else [])


def _count_toks(v, enc):
    ctr = [0]
    _tok_tree(v, enc, ctr)
    return ctr[0]


def _compare_mut(what, mut, m, other_before):
    """objects after a mutating call: the tree of d (with identities) as the write-log model predicts it, `other`
    untouched or as predicted, and every dictionary whose items really changed is in the model's write log"""
    if "e" in m:
        if mut["written"]:
            return f"{what} raised but wrote to the objects {mut['written']}"
        return None
    if other_before is not None and mut["other"] != other_before:
        return f"{what}: `other` consists of {mut['other']} afterwards, before the call of {other_before}"
    if mut["d"] != m["d"]:
        return f"{what}: objects of d afterwards: impl {mut['d']} vs write-log model {m['d']}"
    if "subs" in m and m["subs"] != _ref_dict_toks(m["d"]):
        return f"{what}: Lean subsV/rootTok give {m['subs']} for {m['d']}"
    if m["erase"] != _ref_erase(m["d"]) or ("objs" in m and m["objs"] != _ref_toks(m["d"])):
        return f"{what}: Lean eraseV/toksV give {m['erase']}/{m.get('objs')} for {m['d']}"
    bad = [t for t in mut["written"] if t not in m["log"]]
    if bad:
        return f"{what}: the dictionaries {bad} were changed but are not in the model's write log {m['log']}"
    return None


def _obs(e, r):
    """impl observation {"r": value} | {"e": name} in the model's vocabulary"""
    if r is None:
        return None
    if "e" in r:
        return {"e": r["e"]}
    return {"r": e.val(r["r"])}


def compare(case, res, replies):
    op = case["op"]
    for m in replies:
        if "err" in m:
            return f"model driver error: {m['err']}"
    if isinstance(res, dict) and res.get("__timeout__"):
        return None          # reported by the watchdog as a failing input
    case = _build(case)
    res = _unz(res)
    replies = [_unz(m) for m in replies]
    e = _enc(case)
    if op == "pair":
        m = replies[0]
        if case.get("idem", True):
            # update_recursively(d, d): d and other are one object
            muaa, replies = replies[1], [m] + replies[2:]
            if "uaa" in res and _obs(e, res["uaa"]) != muaa:
                return f"update_recursively(d, d) with d = {case['a']}: impl {_obs(e, res['uaa'])} vs model {muaa}"
        mp = replies[1] if case.get("paths") and len(replies) > 1 else {"r": []}
        a, b = case["a"], case["b"]
        if case.get("paths") and len(replies) > 2:
            # identity pattern of the results: new object / which object of d1 (token model)
            for lv, r, mt, ml in zip(case["levels"], res["lv"], replies[2]["r"], m["r"]):
                # Lean toksV / eraseV on the model's own results against the Python reference of the same notions
                for tree, toks, er, val in (("inter", "itoks", "ierase", "iab"), ("diff", "dtoks", "derase", "dab")):
                    if mt[toks] != _ref_toks(mt[tree]):
                        return f"Lean toksV gives {mt[toks]} for {mt[tree]}, the Python reference {_ref_toks(mt[tree])}"
                    if mt[er] != _ref_erase(mt[tree]) or mt[er] != ml[val]:
                        return f"Lean eraseV gives {mt[er]} for {mt[tree]} (reference {_ref_erase(mt[tree])}, value model {ml[val]})"
                if mt["dsubs"] != _ref_dict_toks(mt["diff"]):
                    return f"Lean subsV/rootTok give {mt['dsubs']} for {mt['diff']}, the Python reference {_ref_dict_toks(mt['diff'])}"
                for name in ("inter", "diff"):
                    if "tok" in r and r["tok"][name] != mt[name]:
                        return (f"level {lv}: objects of the {'intersection' if name == 'inter' else 'difference'}: impl "
                                f"{r['tok'][name]} vs token model {mt[name]} (t: identity of an object of d1 / d2, -1: new)")
                # the write logs: every dictionary of an argument whose items changed must be in a log (they hold new
                # objects only, so none may have changed)
                bad = [t for t in r.get("written", []) if t not in mt["ilog"] and t not in mt["dlog"]]
                if bad:
                    return (f"level {lv}: intersection/difference changed the dictionaries {bad} of their arguments; the "
                            f"write logs of the model are {mt['ilog']} and {mt['dlog']}")
        for lv, r, ml in zip(case["levels"], res["lv"], m["r"]):
            r = _expand(r, a)
            for name in ("iab", "iba", "dab", "rec"):
                got = _obs(e, r.get(name))
                if got != {"r": ml[name]}:
                    return f"level {lv}: {name}: impl {got} vs model {ml[name]}"
            if "iaa" in r and _obs(e, r["iaa"]) != {"r": e.val(a)}:
                return f"level {lv}: intersection(a, a): impl {_obs(e, r['iaa'])} vs model (`inter_idem`) {e.val(a)}"
            if ml["dspec"] != e.val(ref_diff(lv, a, b)):
                return (f"level {lv}: Lean `diffSpec` gives {ml['dspec']}, the Python reference of 'the items of d1 not "
                        f"contained in d2' {e.val(ref_diff(lv, a, b))}")
            ref = {"cab": contained(lv, a, b), "cba": contained(lv, b, a)}
            for name in ("cab", "cba"):
                if ml[name] != ref[name]:
                    return f"level {lv}: Lean `contained` gives {ml[name]} for {name}, the Python reference {ref[name]}"
            if not (ml["ciab_a"] and ml["ciab_b"]):
                return f"level {lv}: the model's intersection is not contained in an argument (Lean `contained`): {ml}"
        if -1 in case["levels"] and "default" in res:
            unl = m["r"][case["levels"].index(-1)]
            for name, key in (("iab", "iab"), ("dab", "dab"), ("dab_pos", "dab")):
                if _obs(e, res["default"][name]) != {"r": unl[key]}:
                    return (f"{name} with the default / positional level: impl {_obs(e, res['default'][name])} vs model at "
                            f"level -1 {unl[key]}")
        if "default" in res and _obs(e, res["default"]["daa"]) != {"r": [None] * len(e.keys)}:
            return f"difference(a, a): impl {_obs(e, res['default']['daa'])} vs model (empty)"
        if case.get("paths") and len(replies) > 3 and "mut" in res:
            msg = _compare_mut("update_recursively", res["mut"], replies[3], _tok_tree(b, e, [_count_toks(a, e)]))
            if msg:
                return msg
            if "dicts" in replies[3] and replies[3]["dicts"] != _ref_dict_toks(_tok_tree(a, e, [0])):
                return f"Lean dictToksV gives {replies[3]['dicts']}, the Python reference {_ref_dict_toks(_tok_tree(a, e, [0]))}"
            if "erase" in replies[3] and replies[3]["erase"] != m["upd"]:
                return f"write-log model value {replies[3]['erase']} differs from the value model {m['upd']}"
        ms = next((x for x in replies if isinstance(x, dict) and "copy" in x), None)
        if ms is not None:
            # arguments with shared objects: the sharing pattern of deepcopy, of the intersection, the objects of the difference
            if res.get("copy_pat") != _canon_pat(ms["copy"]):
                return (f"copy.deepcopy of d1 (intersection(d1)): which places hold the same object: impl {res.get('copy_pat')} "
                        f"vs memoising-copy model {_canon_pat(ms['copy'])}")
            for lv, r, mt, ml in zip(case["levels"], res["lv"], ms["r"], m["r"]):
                if mt["ierase"] != ml["iab"]:
                    return f"level {lv}: sharing model value {mt['ierase']} differs from the value model {ml['iab']}"
                if "pat" not in r:
                    continue
                if r["pat"]["inter"] != _canon_pat(mt["inter"]):
                    return (f"level {lv}: intersection of arguments with shared objects: which places of the result hold the "
                            f"same object: impl {r['pat']['inter']} vs sharing model {_canon_pat(mt['inter'])}")
                if "obj" in mt and r["pat"]["inter"] != _canon_pat(mt["obj"]):
                    return (f"level {lv}: intersection of arguments with shared objects: impl {r['pat']['inter']} vs the loop "
                            f"executed as stores into the one object res (interObj2) {_canon_pat(mt['obj'])}")
                if r["pat"]["diff"] != mt["diff"]:
                    return (f"level {lv}: objects of the difference (arguments with shared objects): impl {r['pat']['diff']} "
                            f"vs token model {mt['diff']} (t: identity of an object of d1 / d2, -1: new)")
        da = max([_depth(v) for v in a.values()] + [0])
        if m["da"] != da:
            return f"Lean depthL gives {m['da']}, the Python reference {da}"
        if -1 in case["levels"]:
            unl = m["r"][case["levels"].index(-1)]
            for lv, ml in zip(case["levels"], m["r"]):
                if lv > da and any(ml[k] != unl[k] for k in ("iab", "dab", "cab")):
                    return f"model: level {lv} exceeds the depth {da} of d1's items but differs from level -1: {ml} vs {unl}"
        if _obs(e, res["upd"]) != {"r": m["upd"]}:
            return f"update_recursively: impl {_obs(e, res['upd'])} vs model {m['upd']}"
        # the specification vocabulary for paths: Lean untouchedL / getPath against the Python reference
        upd = res["upd"].get("r")
        for p, mr in zip(_pair_paths(case), mp["r"]):
            def ov(v):
                return None if v is _NOPATH else {"v": e.val(v)}
            ref = {"u": untouched(b, p), "gd": ov(get_path(a, p)), "go": ov(get_path(b, p))}
            if upd is not None:
                ref["gu"] = ov(get_path(upd, p))
            for k, v in ref.items():
                if mr[k] != v:
                    return f"path {list(p)}: Lean {k} = {mr[k]} vs Python reference {v}"
        return None
    if op == "multi":
        got = _obs(e, res["all"])
        m0 = {k: v for k, v in replies[0].items() if k != "recs"}
        if got != m0:
            return f"intersection(*ds, level={case['level']}): impl {got} vs model {m0}"
        if "recs" in res and [_obs(e, r) for r in res["recs"]] != [{"r": x} for x in replies[0].get("recs", [])]:
            return (f"reconstruction of the arguments: impl {[_obs(e, r) for r in res['recs']]} vs model "
                    f"{replies[0].get('recs')}")
        mt = replies[1]
        if "tok" in res:
            if res["tok"] != mt["r"]:
                return (f"intersection(*ds, level={case['level']}): objects of the result: impl {res['tok']} vs token model "
                        f"{mt['r']} (t: identity of an argument's object, -1: new)")
            bad = [t for t in res["written"] if t not in mt["log"]]
            if bad:
                return f"intersection changed the dictionaries {bad} of its arguments; the model's write log is {mt['log']}"
        ms = next((x for x in replies if isinstance(x, dict) and "copy" in x), None)
        if ms is not None and "r" in res["all"]:
            if ms["r"][0]["ierase"] != replies[0].get("r"):
                return f"sharing model value {ms['r'][0]['ierase']} differs from the value model {replies[0].get('r')}"
            if res.get("pat") != _canon_pat(ms["r"][0]["inter"]):
                return (f"intersection(*ds, level={case['level']}) of arguments with shared objects: which places of the result "
                        f"hold the same object: impl {res.get('pat')} vs sharing model {_canon_pat(ms['r'][0]['inter'])}")
            if "obj" in ms["r"][0] and res.get("pat") != _canon_pat(ms["r"][0]["obj"]):
                return (f"intersection(*ds, level={case['level']}) of arguments with shared objects: impl {res.get('pat')} vs the "
                        f"loop executed as stores into the one object res (interObj2) {_canon_pat(ms['r'][0]['obj'])}")
        if len(case["ds"]) == 3:
            m = replies[2]
            for name in ("ab_c", "a_bc"):
                if _obs(e, res[name]) != {"r": m[name]}:
                    return f"{name}: impl {_obs(e, res[name])} vs model {m[name]}"
            if _obs(e, res["fold"]) != {"r": m["ab_c"]}:
                return f"fold: impl {_obs(e, res['fold'])} vs model {m['ab_c']}"
            if [_obs(e, r) for r in res["perms"]] != [{"r": x} for x in m["perms"]]:
                return f"permutations: impl {[_obs(e, r) for r in res['perms']]} vs model {m['perms']}"
            if m["fold2"] != m["abc"]:
                return f"model: foldl inter2 {m['fold2']} differs from interN {m['abc']}"
        return None
    if op == "nested":
        m = replies[0]
        # the write log: d and the most nested dictionary of `other` (when d has the key), nothing else
        msg = _compare_mut("update_nested", res["mut"], replies[1], None)
        if msg:
            return msg
        to = _tok_tree(case["other"], e, [_count_toks(case["d"], e)])
        if "e" not in res:
            # `other` afterwards is the subtree of d at key (same objects)
            k = e.keys.index(case["key"])
            if res["mut"]["other"] != replies[1]["d"]["s"][k]:
                return f"update_nested: objects of other afterwards: impl {res['mut']['other']} vs model {replies[1]['d']['s'][k]}"
        elif res["mut"]["other"] != to:
            return f"update_nested raised but changed other: {res['mut']['other']} (before: {to})"
        # Lean mnV (get_most_nested_subdict_with) against the Python reference walk
        cur, ref = case["other"], None
        while isinstance(cur, dict) and case["key"] in cur:
            cur = cur[case["key"]]
        ref = {"r": e.val(cur)} if isinstance(cur, dict) else {"e": "Other:TypeError"}
        if replies[2] != ref:
            return f"Lean mnV gives {replies[2]}, the Python reference of the most nested dictionary {ref}"
        if "e" in res or "e" in m:
            if res.get("e") != m.get("e"):
                return f"update_nested: impl {res.get('e', 'returns')} vs model {m}"
            return None
        got = e.val(res["d"])
        if got != m["r"]:
            return f"update_nested: impl d = {got} vs model {m['r']}"
        if case["key"] in case["d"] and res.get("prev_at_same_object") != m["depth"] + 1:
            return (f"update_nested: the object that was d[key] is found at depth {res.get('prev_at_same_object')}, "
                    f"model nestDepth+1 = {m['depth'] + 1}")
        return None
    if op == "seq":
        msteps = replies[0]["steps"]
        latest = {}          # identity -> the latest tree the model has for that dictionary object

        def note(t):
            if "s" in t:
                if t["t"] >= 0:
                    latest[t["t"]] = t
                for c in t["s"]:
                    if c is not None:
                        note(c)

        def resolve(t):
            """the tree of an object as the model leaves it: its latest version, children resolved likewise"""
            if "s" not in t:
                return t
            cur = latest.get(t["t"], t) if t["t"] >= 0 else t
            return {"t": cur["t"], "s": [None if c is None else resolve(c) for c in cur["s"]]}

        ctr = [_count_toks(case["d"], e)]
        tos = [_tok_tree(o, e, ctr) for o in case["others"]]
        for i, (st, ms) in enumerate(zip(res["steps"], msteps)):
            if "e" in st or "e" in ms:
                if st.get("e") != ms.get("e"):
                    return f"step {i + 1}: impl {st.get('e', 'returns')} vs model {ms}"
                break
            if st["tree"] != ms["d"]:
                return (f"step {i + 1} (update_recursively(d, {case['others'][i]})): objects of d afterwards: impl {st['tree']} "
                        f"vs write-log model {ms['d']}")
            bad = [t for t in st["written"] if t not in ms["log"]]
            if bad:
                return f"step {i + 1}: the dictionaries {bad} were changed but are not in the model's write log {ms['log']}"
            note(ms["d"])
        else:
            # every `other` afterwards: its own objects in their latest state (a later update of d may have written into a
            # dictionary that an earlier update stored in d without copying it: by design, reported, not judged)
            for i, (to, after) in enumerate(zip(tos, res["others_after"])):
                if resolve(to) != after:
                    return (f"other #{i + 1} = {case['others'][i]} consists of {after} after the sequence; the write-log "
                            f"model predicts {resolve(to)}")
        return None
    if op == "ustr":
        got = _obs(e, res)
        if got != replies[0]:
            return (f"update_recursively({case['d']}, {case['other']!r}{', ' + repr(case['value']) if 'value' in case else ''}): "
                    f"impl {got} vs model {replies[0]}")
        return None
    if op == "kw":
        got = _obs(e, res["inter"])
        if got != replies[0]:
            return f"intersection with keyword arguments: impl {got} vs model {replies[0]}"
        return None
    if op == "cyc":
        got = {"e": res["e"]} if "e" in res else {"ok": res["ok"]}
        if got != replies[0]:
            return (f"update_nested({case['key']!r}, {case['d']}, <other: {case.get('tail', 0)} dictionaries, then a cycle of {case['cycle']}, along the key>): "
                    f"impl {got} vs model {replies[0]}")
        return None
    if op == "zip":
        if "e" in res:
            return f"Zip could not be set up: {res}"
        for i, (vals, m) in enumerate(zip(_zip_rounds(case), replies)):
            if i >= len(res["outs"]):
                return f"Zip yielded {len(res['outs'])} values for {len(replies)} tuples of values"
            out = res["outs"][i]
            what = f"Zip._create_context({vals})" + (" (second value of the same Zip)" if i else "")
            if "e" in out or "e" in m:
                if out.get("e") != m.get("e"):
                    return f"{what}: impl {out.get('e', 'returns')} vs model {m}"
                break            # the generator is finished after the exception
            got = {"common": e.val(out["common"]), "zip": None if out["zip"] is None else [e.val(x) for x in out["zip"]]}
            if got != {"common": m["common"], "zip": m["zip"]}:
                return f"{what}: impl {got} vs model {m}"
            if "recs" in out and [_obs(e, r) for r in out["recs"]] != [{"r": x} for x in m["recs"]]:
                return f"{what}: common part updated with each value's part: impl {out['recs']} vs model {m['recs']}"
            if m["recs"] != [e.val(v) for v in vals]:
                return f"model: Zip parts do not reconstruct the values: {m['recs']}"
        return None
    if op == "group":
        m = replies[0]
        if "e" in res:
            return f"group_plots raised {res['e']} (model: {m})"
        if e.val(res["ctx"]) != m["ctx"]:
            return f"group_plots({case['ctxs']}): context impl {e.val(res['ctx'])} vs model {m['ctx']}"
        if m["recs"] != [e.val(c) for c in case["ctxs"]]:
            return f"model: intersection + difference do not reconstruct the members: {m['recs']}"
        return None
    if op == "split":
        m = replies[0]
        if "e" in res:
            return f"Split._get_context raised {res['e']}"
        if [e.val(c) for c in res["branches"]] != [e.val(c) for c in case["ctxs"]]:
            return f"harness: the branches do not carry the intended static contexts: {res['branches']}"
        if e.val(res["ctx"]) != m["inter"]:
            return f"Split._get_context over {case['ctxs']}: impl {e.val(res['ctx'])} vs model {m['inter']}"
        return None
    if op == "uwg":
        m = replies[0]
        if "e" in res:
            return f"_update_with_group raised {res['e']} (model: {m})"
        if e.val(res["ctx"]) != m["ctx"]:
            return (f"_update_with_group({case['ctx']}, {case['new']}, {case['old']}): context impl {e.val(res['ctx'])} "
                    f"vs model {m['ctx']}")
        if len(replies) > 1 and e.val(res["ctx2"]) != replies[1]["ctx"]:
            return (f"MapGroup.run, second value: context impl {e.val(res['ctx2'])} vs model {replies[1]['ctx']} "
                    f"(context {case['ctx']}, group {case['oldgrp']} -> {case['new2']})")
        return None
    if op == "bad":
        names = ["inter", "diff", "upd"]
        for name, m in zip(names, replies):
            m = {k: v for k, v in m.items() if k != "recs"}
            got = _obs(e, res.get(name))
            if got != m:
                return f"{name}: impl {got} vs model {m}"
        return None
    raise ValueError(op)


# ----------------------------------------------------------------------------------------
# the property's own statement, evaluated on the real code's results

def _falsy_note(v):
    return " (a falsy value)" if not v else ""


def _oracle_inter(lv, ds, res, what, enumerate_small=True, prunings=None):
    """res = intersection(*ds, level=lv): contained in every argument, and the greatest such dictionary"""
    for i, d in enumerate(ds):
        if not contained(lv, res, d):
            return f"{what} = {res} is not contained in argument {i} = {d} (level {lv})"
    cands = list(ds) + (_prunings(ds[0]) if prunings is None else prunings)
    # for small arguments: every dictionary over their top-level keys and item values (the law itself, not a reference)
    keys = []
    vals = []
    for d in ds:
        for k, v in d.items():
            if k not in keys:
                keys.append(k)
            if not any(v is x or (type(v) is type(x) and v == x) for x in vals):
                vals.append(v)
    if enumerate_small and keys and (len(vals) + 1) ** len(keys) <= 27:
        for combo in itertools.product([_ABSENT] + vals, repeat=len(keys)):
            cands.append({k: v for k, v in zip(keys, combo) if v is not _ABSENT})
    glb = ds[0]
    for d in ds[1:]:
        glb = ref_glb(lv, glb, d)
    cands.append(glb)
    for c in cands:
        if all(contained(lv, c, d) for d in ds) and not contained(lv, c, res):
            return (f"{what} = {res} is not the greatest common part at level {lv}: {c} is contained in every "
                    f"argument {ds} but not in the result")
    return None


def oracle(case, res):
    """None if the property's statement holds on this case, else "[tag] description" (the tag is the signature)"""
    msg = _oracle(_build(case), _unz(res))
    if msg is None:
        return None
    dr = sorted(_dressing([v for v in _case_values(case)]))
    if dr:
        # (the message shows the values; which dictionaries are subclasses / one shared object is in the case itself)
        msg += " [arguments dressed: " + ", ".join(dr) + "; case: " + jdump(case)[:600] + "]"
    for tag, pat in _TAGS:
        if re.search(pat, msg):
            return f"[{tag}] {msg}"
    return "[other] " + msg


_TAGS = [
    ("arguments-changed", r"changed (an argument|d1, d2|other)"),
    ("not-a-deep-copy", r"deep copy"),
    ("inter-not-contained", r"is not contained in argument"),
    ("inter-not-greatest", r"not the greatest"),
    ("inter-not-commutative", r"not commutative"),
    ("inter-not-associative", r"not associative"),
    ("inter-not-idempotent", r"not idempotent"),
    ("diff-item-dropped", r"not contained in d2 but dropped"),
    ("diff-item-kept", r"is contained in d2 but kept"),
    ("diff-not-exact", r"^difference\("),
    ("no-reconstruction", r"updating the intersection"),
    ("update-not-containing", r"does not contain other"),
    ("update-item-lost", r"is not overwritten by other"),
    ("update-nested", r"^update_nested"),
    ("zip-context", r"^Zip\._create_context"),
    ("group-context", r"^group_plots|^Split\._get_context|^_update_with_group|^MapGroup"),
    ("exception", r"raised"),
]


def _oracle(case, res):
    op = case["op"]
    if op == "pair":
        a, b = case["a"], case["b"]
        prun = _prunings(a)
        if res.get("changed"):
            return f"intersection/difference changed an argument (d1={a}, d2={b})"
        for lv, r in zip(case["levels"], res["lv"]):
            r = _expand(r, a)
            for name in ("iab", "iba", "iaa", "dab"):
                if name in r and "e" in r[name]:
                    return f"level {lv}: {name} raised {r[name]['e']} for d1={a}, d2={b}"
            iab, iba, dab = r["iab"]["r"], r["iba"]["r"], r["dab"]["r"]
            iaa = r["iaa"]["r"] if "iaa" in r else a
            msg = _oracle_inter(lv, [a, b], iab, f"intersection({a}, {b}, level={lv})", enumerate_small=lv in (-1, 1), prunings=prun)
            if msg:
                return msg
            if iab != iba:
                return f"intersection is not commutative at level {lv}: ({a}, {b}) -> {iab}, swapped -> {iba}"
            if iaa != a:
                return f"intersection is not idempotent at level {lv}: intersection({a}, {a}) = {iaa}"
            if r["iab_shares"]:
                return (f"intersection({a}, {b}, level={lv}) = {iab} is not a deep copy: it shares a mutable object "
                        f"(dictionary, list, set or object) with an argument")
            if r.get("iaa_shares"):
                return (f"intersection({a}, {a}, level={lv}) = {iaa} is not a deep copy: it shares a mutable object "
                        f"(dictionary, list, set or object) with its argument")
            # difference: exactly the items of d1 not contained in d2
            if lv != 0:
                for k in a:
                    inb = k in b and cont_item(lv, a[k], b[k])
                    if (k in dab) == inb:
                        return (f"difference({a}, {b}, level={lv}) = {dab}: item {k!r}: {a[k]!r}{_falsy_note(a[k])} is "
                                f"{'contained' if inb else 'not contained'} in d2 but {'kept' if k in dab else 'dropped'}")
                for k in dab:
                    if k not in a:
                        return f"difference({a}, {b}, level={lv}) = {dab} has the key {k!r} that d1 has not"
            ref = ref_diff(lv, a, b)
            if dab != ref:
                return f"difference({a}, {b}, level={lv}) = {dab}, but the items of d1 not contained in d2 are {ref}"
            if (not dab) != contained(lv, a, b):
                return f"difference({a}, {b}, level={lv}) = {dab} but d1 contained in d2 is {contained(lv, a, b)}"
            if "e" in r["rec"]:
                return f"level {lv}: update_recursively(intersection, difference) raised {r['rec']['e']} for d1={a}, d2={b}"
            rec = r["rec"]["r"]
            if rec != a:
                return (f"level {lv}: updating the intersection {iab} with the difference {dab} gives {rec}, "
                        f"not d1 = {a} (d2 = {b})")
        # the calls without `level` (and with a positional one) are the unlimited ones; an argument against itself
        for name, ref, what in (() if "default" not in res else (("iab", ref_glb(-1, a, b), f"intersection({a}, {b})"),
                                ("dab", ref_diff(-1, a, b), f"difference({a}, {b})"),
                                ("dab_pos", ref_diff(-1, a, b), f"difference({a}, {b}, -1)"),
                                ("daa", {}, f"difference({a}, {a})"))):
            got = res["default"][name]
            if "e" in got:
                return f"{what} raised {got['e']}"
            if got["r"] != ref:
                return (f"{what} = {got['r']}, but " + ("the greatest common part is " if name == "iab" else
                        "the items of d1 not contained in d2 are ") + f"{ref}")
        # update_recursively(d, other): other contained in d afterwards, untouched items kept
        if "e" in res["upd"]:
            return f"update_recursively({a}, {b}) raised {res['upd']['e']}"
        upd = res["upd"]["r"]
        if not contained(-1, b, upd):
            return f"update_recursively({a}, {b}) gives {upd}, which does not contain other"
        for p in _paths(a):
            if untouched(b, p) and get_path(upd, p) != get_path(a, p):
                after = get_path(upd, p)
                return (f"update_recursively({a}, {b}) gives {upd}: the item at {'.'.join(map(str, p))} is not overwritten by other "
                        f"but changed from {get_path(a, p)!r} to {'nothing (absent)' if after is _NOPATH else repr(after)}")
        if "uaa" in res:
            if "e" in res["uaa"]:
                return f"update_recursively(d, d) raised {res['uaa']['e']} for d = {a}"
            uaa = res["uaa"]["r"]
            if not contained(-1, a, uaa):
                return f"update_recursively(d, d) with d = {a} gives {uaa}, which does not contain other"
        # (update_recursively documents nothing about `other`, and difference warns that it may return parts of d1:
        # whether `other` / d1 are changed by the update is recorded in the result but is outside the statement)
        return None
    if op == "multi":
        ds, lv = case["ds"], case["level"]
        if "e" in res["all"]:
            return f"intersection(*{ds}, level={lv}) raised {res['all']['e']}"
        r = res["all"]["r"]
        if res["changed"]:
            return f"intersection(*{ds}, level={lv}) changed an argument"
        if res.get("shares"):
            return f"intersection(*{ds}, level={lv}) = {r} shares a mutable object with an argument (not a deep copy)"
        if not ds:
            return None if r == {} else f"intersection() = {r}, not the empty dictionary"
        msg = _oracle_inter(lv, ds, r, f"intersection(*{ds}, level={lv})")
        if msg:
            return msg
        if len(ds) == 1 and r != ds[0]:
            return f"intersection({ds[0]}, level={lv}) = {r}"
        if res.get("default_level") is not None and res["default_level"] != res["all"]:
            return f"intersection(*{ds}) = {res['default_level']} differs from level=-1: {r}"
        for name in ("ab_c", "a_bc", "fold"):
            if name in res:
                if "e" in res[name]:
                    return f"{name} raised {res[name]['e']} for {ds}, level={lv}"
                if res[name]["r"] != r:
                    return (f"intersection is not associative at level {lv}: intersection(*{ds}) = {r}, "
                            f"{name} = {res[name]['r']}")
        for d, rec in zip(ds, res.get("recs", [])):
            if "e" in rec:
                return f"difference/update_recursively raised {rec['e']} for d1={d}, d2=intersection(*{ds}, level={lv})={r}"
            if rec["r"] != d:
                return (f"level {lv}: updating the intersection {r} of {ds} with the difference of the argument {d} "
                        f"gives {rec['r']}, not that argument")
        for i, pr in enumerate(res.get("perms", [])):
            if "e" in pr or pr["r"] != r:
                return f"intersection is not commutative at level {lv}: {ds} -> {r}, permutation #{i} -> {pr}"
        return None
    if op == "nested":
        key, d0, o0 = case["key"], case["d"], case["other"]
        # the chain other[key][key]... must consist of dictionaries for the call to be meaningful
        cur, chain_ok = o0, True
        while True:
            if not isinstance(cur, dict):
                chain_ok = False
                break
            if key not in cur:
                break
            cur = cur[key]
        if "e" in res:
            if key in d0 and not chain_ok:
                return None   # nowhere to put the previous value: outside the statement
            return f"update_nested({key!r}, {d0}, {o0}) raised {res['e']}"
        d1 = res["d"]
        # "Update d[key] with the other dictionary preserving data": the previous value is reachable under the new one,
        # the new d[key] is `other` with that value put in (nothing of `other` is lost), the other keys of d are as they
        # were — all by value; that d[key] is the *object* `other` is left to the correspondence
        what = f"update_nested({key!r}, {d0}, {o0})"
        if key in d0 and res["prev_at"] is None:
            return (f"{what}: the previous d[{key!r}] = {d0[key]!r} is not reachable "
                    f"under the new one by following {key!r}: d = {d1}")
        for k in set(d0) | set(d1):
            if k != key and (k not in d0 or k not in d1 or d0[k] != d1[k]):
                return f"{what} changed the other key {k!r} of d: d = {d1}"
        if key in d0:
            o1 = copy.deepcopy(d1[key])
            cur = o1
            for _ in range(res["prev_at"] - 1):
                cur = cur[key]
            del cur[key]
            if o1 != o0:
                return f"{what} lost or changed items of other: d = {d1}"
        elif d1.get(key) != o0:
            return f"{what}: d[key] = {d1.get(key)} is not other"
        return None
    if op == "seq":
        # each step by itself obeys the statement (other contained afterwards, untouched items of d kept); what happens to
        # the earlier `other`s through shared sub-dictionaries is by design and only compared with the model
        for i, st in enumerate(res["steps"]):
            if "e" in st:
                return f"step {i + 1} of {case}: update_recursively raised {st['e']}"
            o, d0, d1 = st["o_before"], st["d_before"], st["d"]
            what = f"step {i + 1}: update_recursively({d0}, {o})"
            if not contained(-1, o, d1):
                return f"{what} gives {d1}, which does not contain other"
            for p in _paths(d0):
                if untouched(o, p) and get_path(d1, p) != get_path(d0, p):
                    after = get_path(d1, p)
                    return (f"{what} gives {d1}: the item at {'.'.join(map(str, p))} is not overwritten by other but changed "
                            f"from {get_path(d0, p)!r} to {'nothing (absent)' if after is _NOPATH else repr(after)}")
        return None
    if op == "ustr":
        d0, other = case["d"], case["other"]
        if not isinstance(d0, dict):
            return None
        if isinstance(other, str):
            # (which strings are malformed is C08's business: only well-formed calls are judged here)
            if other == "" or ("value" not in case and "." not in other):
                return None
            o = ref_str_to_dict(other, *([case["value"]] if "value" in case else []))
            what = f"update_recursively({d0}, {other!r}{', ' + repr(case['value']) if 'value' in case else ''})"
        elif isinstance(other, dict) and "value" not in case:
            o, what = other, f"update_recursively({d0}, {other})"
        else:
            return None
        if "e" in res:
            return f"{what} raised {res['e']}"
        r = res["r"]
        if not contained(-1, o, r):
            return f"{what} gives {r}, which does not contain other = {o}"
        for p in _paths(d0):
            if untouched(o, p) and get_path(r, p) != get_path(d0, p):
                after = get_path(r, p)
                return (f"{what} gives {r}: the item at {'.'.join(map(str, p))} is not overwritten by other but changed from "
                        f"{get_path(d0, p)!r} to {'nothing (absent)' if after is _NOPATH else repr(after)}")
        return None
    if op == "kw":
        if res["changed"]:
            return f"intersection changed an argument: {case['ds']}"
        return None
    if op == "cyc":
        return None
    if op == "zip":
        if "e" in res:
            return f"Zip could not be set up: {res} for {case}"
        if res.get("changed"):
            return f"Zip._create_context changed a context of {_zip_rounds(case)}"
        if res.get("ended") not in (None, True):
            return f"Zip yields more values than its sources ({_zip_rounds(case)}): {res['ended']}"
        for i, vals in enumerate(_zip_rounds(case)):
            if i >= len(res["outs"]):
                return f"Zip yielded only {len(res['outs'])} values for {_zip_rounds(case)}"
            out = res["outs"][i]
            if "e" in out:
                # update_nested with a tuple as `other` when the common part has the key "zip": outside the statement
                # (notes/C07_defect_1.md); the generator is finished afterwards
                return None
            common, zp = out["common"], out["zip"]
            what = f"Zip._create_context({vals})" + (" (second value of the same Zip)" if i else "")
            msg = _oracle_inter(1, vals, common, f"{what}: common part")
            if msg:
                return msg
            if zp is None:
                for v in vals:
                    if ref_diff(1, v, common):
                        return f"{what} = {common} without zip, but {v} has items not contained in it"
                continue
            for v, x, rec in zip(vals, zp, out["recs"]):
                if x != ref_diff(1, v, common):
                    return f"{what}: the part {x} of {v} is not its difference from the common part {common}"
                if "e" in rec or rec["r"] != v:
                    return f"level 1: updating the intersection {common} with the difference {x} gives {rec}, not {v} ({what})"
        return None
    if op == "group":
        ctxs = case["ctxs"]
        if "e" in res:
            return f"group_plots raised {res['e']} for the contexts {ctxs}"
        if res["changed"]:
            return f"group_plots changed a context of {ctxs}"
        if res["shares"]:
            return f"group_plots({ctxs}): the common context shares a mutable object with a member (intersection is not a deep copy)"
        ctx_ = res["ctx"]
        rest = {k: v for k, v in ctx_.items() if k != "output"}
        for c in ctxs:
            if not contained(-1, rest, c):
                return f"group_plots({ctxs}): common context {ctx_}: {rest} is not contained in the member {c}"
        if ctxs:
            glb = ctxs[0]
            for c in ctxs[1:]:
                glb = ref_glb(-1, glb, c)
            if not contained(-1, {k: v for k, v in glb.items() if k != "output"}, rest):
                return f"group_plots({ctxs}): common context {ctx_} is not the greatest common part {glb}"
        return None
    if op == "split":
        if "e" in res:
            return f"Split._get_context raised {res['e']} for branch contexts {case['ctxs']}"
        if not res["again"]:
            return f"Split._get_context gives different answers for {case['ctxs']}"
        if not case["ctxs"]:
            return None if res["ctx"] == {} else f"Split._get_context of no branch = {res['ctx']}"
        return _oracle_inter(-1, case["ctxs"], res["ctx"], f"Split._get_context over branches {case['ctxs']}")
    if op == "uwg":
        if "e" in res:
            return f"_update_with_group raised {res['e']} for {case}"
        if res["changed"]:
            return f"_update_with_group changed the new group contexts or the old intersection ({case})"
        if "new2" in case:
            # the second value of the same MapGroup run is judged like the first
            msg = _oracle({k: v for k, v in dict(case, new=case["new2"]).items() if k != "new2"},
                          {"ctx": res["ctx2"], "changed": False})
            if msg:
                return "MapGroup.run, second value: " + msg
        new = case["new"]
        glb = new[0]
        for c in new[1:]:
            glb = ref_glb(-1, glb, c)
        old = case["old"]
        if "oldgrp" in case:
            old = case["oldgrp"][0]
            for c in case["oldgrp"][1:]:
                old = ref_glb(-1, old, c)
        upd_ = ref_diff(-1, glb, old)
        what = (f"MapGroup.run: context {case['ctx']}, group {case['oldgrp']} -> {new}" if "oldgrp" in case
                else f"_update_with_group({case['ctx']}, {new}, {case['old']})")
        if not contained(-1, upd_, res["ctx"]):
            return f"{what} gives {res['ctx']}, which does not contain the difference {upd_} of the intersections"
        for p in _paths(case["ctx"]):
            if p[0] != "output" and untouched(upd_, p) and get_path(res["ctx"], p) != get_path(case["ctx"], p):
                return (f"{what} gives {res['ctx']}: the item at {'.'.join(map(str, p))} is not overwritten by other but changed "
                        f"from {get_path(case['ctx'], p)!r}")
        return None
    if op == "bad":
        # non-dictionary arguments are outside the property's statement; only "arguments unchanged" applies
        if res["changed"] and "r" in res["inter"]:
            return f"intersection/difference changed an argument: {case['vals']}"
        return None
    raise ValueError(op)


# ----------------------------------------------------------------------------------------

def nontrivial(case, res):
    op = case["op"]
    if op == "pair":
        a, b = _strip(case["a"]), _strip(case["b"])
        return bool(a) and bool(b) and a != b
    if op == "multi":
        ds = [_strip(d) for d in case["ds"]]
        return len(ds) >= 2 and all(ds) and any(d != ds[0] for d in ds)
    if op == "nested":
        return case["key"] in _strip(case["d"])
    if op == "ustr":
        d, o = _strip(case["d"]), _strip(case["other"])
        return _isd(d) and bool(d) and (isinstance(o, str) or _isd(o)) and bool(o)
    for name in ("values", "ctxs", "new"):
        if name in case:
            ds = case[name]
            return len(ds) >= 2 and all(ds) and any(d != ds[0] for d in ds)
    return True


def _depth(v):
    return 1 + max([_depth(x) for x in v.values()] + [0]) if isinstance(v, dict) else 0


def _all_leaves(v):
    if isinstance(v, dict):
        for x in v.values():
            yield from _all_leaves(x)
    else:
        yield v


def _has_falsy_leaf(v):
    if isinstance(v, dict):
        return any(_has_falsy_leaf(x) for x in v.values()) or not v
    return not v


def classify(case, res):
    if isinstance(res, dict) and res.get("__timeout__"):
        return [case["op"] + ":timeout"]
    dress = ["dressed:" + ("shared-object" if k == "shared" else "dict-subclass:" + k)
             for k in sorted(_dressing(_case_values(case)))]
    return _classify(case, res) + ([case["op"] + ":" + x for x in dress] if dress else [])


def _classify(case, res):
    case = _build(case)
    res = _unz(res)
    op = case["op"]
    if op == "pair":
        a, b = case["a"], case["b"]
        labels = [f"pair:depth={max(_depth(a), _depth(b))}"]
        rel = "equal" if a == b else ("a<b" if contained(-1, a, b) else ("b<a" if contained(-1, b, a) else "incomparable"))
        labels.append("pair:" + rel)
        if any(r["dab"].get("r") and _has_falsy_leaf(r["dab"]["r"]) for r in res["lv"]):
            labels.append("pair:diff-keeps-falsy-or-empty")
        if any(isinstance(x, (tuple, set, frozenset, float, _Obj, bytes)) for x in _all_leaves(a)):
            labels.append("pair:non-json-leaf")
        if any(isinstance(k, int) for k in a):
            labels.append("pair:int-keys")
        return labels
    if op == "multi":
        r = res["all"].get("r")
        return [f"multi:n={len(case['ds'])}", "multi:" + ("error" if "e" in res["all"] else ("empty" if not r else "nonempty"))]
    if op == "nested":
        return ["nested:" + ("error" if "e" in res else ("key-absent" if case["key"] not in case["d"]
                                                          else f"depth={res['prev_at']}"))]
    if op == "bad":
        return ["bad:inter=" + res["inter"].get("e", "ok")]
    if op == "ustr":
        o = case["other"]
        kind = ("str" if isinstance(o, str) else "dict" if isinstance(o, dict) else "other") + ("+value" if "value" in case else "")
        return [f"ustr:{kind}:" + (res["e"] if "e" in res else "ok")]
    if op == "kw":
        return ["kw:" + res["inter"].get("e", "ok")]
    if op == "zip":
        o = res["outs"][0] if res.get("outs") else res
        return ["zip:" + (o["e"] if "e" in o else ("all-common" if o["zip"] is None else "with-parts")),
                "zip:kind=" + case.get("kind", "fc") + ("+fields" if case.get("fields") else "")]
    if op in ("group", "split", "uwg", "cyc"):
        return [op + ":" + (res["e"] if "e" in res else "ok")]
    if op == "seq":
        shared = any(t in ms for st in res["steps"][1:] if "written" in st for t in st["written"]
                     for ms in [range(_count_toks(case["d"], _Enc(case)), 10 ** 6)])
        return [f"seq:steps={len(res['steps'])}", "seq:" + ("writes-into-an-earlier-other" if shared else "no-aliasing-effect")]
    return [op]


def signature(case, failure):
    m = re.match(r"\[([\w-]+)\]", failure or "")
    return case["op"] + ":" + (m.group(1) if m else "other")


def _sub_values(v):
    """smaller variants of a nested dictionary (case form)"""
    if not _isd(v):
        if isinstance(v, dict) and (v.get("$") == "shared" or v.get("$") in _DICT_KINDS):
            # first without the dressing, then smaller inside it
            yield v["v"]
            if _isd(v["v"]) and v["$"] != "shared":          # (all occurrences of a shared object carry the same value)
                for s in _sub_values(v["v"]):
                    yield dict(v, v=s)
        return
    for k in list(v):
        c = dict(v)
        del c[k]
        yield c
        if _isd(v[k]) or (isinstance(v[k], dict) and (v[k].get("$") == "shared" or v[k].get("$") in _DICT_KINDS)):
            yield dict(v, **{k: 1})
            for s in _sub_values(v[k]):
                yield dict(v, **{k: s})
        elif isinstance(v[k], list) and v[k]:
            yield dict(v, **{k: []})


def shrink(case):
    op = case["op"]
    if op == "pair":
        if len(case["levels"]) > 1:
            for lv in case["levels"]:
                yield dict(case, levels=[lv])
        for name in ("a", "b"):
            for s in _sub_values(case[name]):
                yield dict(case, **{name: s})
    elif op == "multi":
        ds = case["ds"]
        for i in range(len(ds)):
            if len(ds) > 2:
                yield dict(case, ds=ds[:i] + ds[i + 1:])
            for s in _sub_values(ds[i]):
                yield dict(case, ds=ds[:i] + [s] + ds[i + 1:])
    elif op == "nested":
        for name in ("d", "other"):
            for s in _sub_values(case[name]):
                yield dict(case, **{name: s})
    elif op in ("zip", "group", "split", "uwg", "kw"):
        if "values2" in case:
            yield {k: v for k, v in case.items() if k != "values2"}
            return
        name = {"zip": "values", "group": "ctxs", "split": "ctxs", "uwg": "new", "kw": "ds"}[op]
        ds = case[name]
        for i in range(len(ds)):
            if len(ds) > 1:
                yield dict(case, **{name: ds[:i] + ds[i + 1:]})
            for s_ in _sub_values(ds[i]):
                yield dict(case, **{name: ds[:i] + [s_] + ds[i + 1:]})
        for extra in ("ctx", "old"):
            if extra in case:
                for s_ in _sub_values(case[extra]):
                    yield dict(case, **{extra: s_})
    elif op == "seq":
        os_ = case["others"]
        for i in range(len(os_)):
            if len(os_) > 1:
                yield dict(case, others=os_[:i] + os_[i + 1:])
            for s_ in _sub_values(os_[i]):
                yield dict(case, others=os_[:i] + [s_] + os_[i + 1:])
        for s_ in _sub_values(case["d"]):
            yield dict(case, d=s_)
    elif op == "ustr":
        for name in ("d", "other", "value"):
            if isinstance(case.get(name), dict):
                for s_ in _sub_values(case[name]):
                    yield dict(case, **{name: s_})
        if isinstance(case["other"], str) and "." in case["other"]:
            yield dict(case, other=case["other"].rsplit(".", 1)[0])
    elif op == "bad":
        vals = case["vals"]
        for i in range(len(vals)):
            for s in _sub_values(vals[i]):
                yield dict(case, vals=vals[:i] + [s] + vals[i + 1:])


# ---- MANIFEST texts ------------------------------------------------------------------------
LEVEL_TEXT = ("Lean 4 theorems about a transcribed model of intersection/difference/update_recursively/update_nested and of "
              "their callers (Zip._create_context, group_plots, _update_with_group, LenaSplit._get_context) on "
              "nested dictionaries of any width and depth, any leaf type with decidable equality and every level (no bound), "
              "including which objects are created, shared and written to (token and write-log models); the model is tied to "
              "/repo by a correspondence check (exhaustive over small alphabets up to depth 3 with two or three scalar leaves, "
              "sampled over 3 keys / depth 3-6 / a palette with tuples, sets, floats, objects, integer keys; dictionaries of five dict "
              "subclasses at any depth and arguments with one object at several places, systematically over small universes) and "
              "the laws themselves are evaluated on the real code as a direct oracle.  At the finite levels 0, 1, 2, … the "
              "lattice theorems are relative to the level-indexed containment read off the code's docstring.")
LEVEL_NOTE = ("Trusted: Lean kernel (+ propext, Classical.choice, Quot.sound), the hand transcription validated by the "
              "correspondence run (values, exceptions, id() pattern, changed objects), the slot-vector reading of dictionaries, "
              "deepcopy as identity on values / fresh objects per occurrence (token model, tree-shaped disjoint arguments) or per "
              "object (sharing model of intersection, arguments with shared objects), reflexive deepcopy-stable leaf equality, "
              "one kind of dictionary (isinstance(., dict), order-insensitive ==), the JSON protocol.  'Does not change an argument' is a theorem about the write "
              "log of the transcription (every store of intersection / difference goes into a new object; update_recursively "
              "writes only into d's dictionaries; update_nested into d and one dictionary of other) and is checked on the real "
              "code object by object; that the transcription has no further stores is part of the trusted reading.")
TECHNIQUE = "Lean 4 proof over hand-written model + correspondence check (exhaustive small scopes, sampled deeper) + law oracle"
DESIGN_REF = "DESIGN.md section 3, C07"
