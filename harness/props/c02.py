"""C02 — evaluation is lazy: demand-driven consumption and bounded buffering.

Real code: lena.core.Sequence.run, lena.core.Run._call_run, lena.flow.Filter/Slice/Count/RunIf/Print,
lena.context.Context/UpdateContext, lena.output.MakeFilename, lena.variables.Variable, lena.core.Split.
Model: lean/LenaModel/Model/C02.lean (pull-based generators), theorems lean/LenaModel/Props/C02.lean.

A case is a pipeline of streaming elements over an *instrumented input*: a generator function that
advances a clock every time it is resumed (once per value it produces, once when it finds its input
exhausted), creates a fresh weakly referenceable object per value and records, at every resumption, how
many of the objects it produced earlier are still alive.  The consumer records every result together with
the clock at which it receives it.  That is the interleaving of pull and yield events the property is
about; for every consumer stop point k a separate run takes k results, closes the pipeline and checks that
the clock is the one of the long run after its k-th result.
"""
import contextlib
import io
import itertools
import json
import weakref

from harness.common import exc_name, jdump

PID = "C02"
TITLE = "Evaluation is lazy: demand-driven consumption and bounded buffering"
LEAN_MODULES = ["LenaModel.Props.C02", "LenaModel.Props.C02Src"]
LEAN_SOURCES = ["LenaModel/Model/C02.lean", "LenaModel/Model/C02Src.lean", "LenaModel/Lemmas/C02.lean",
                "LenaModel/Lemmas/C02Neg.lean",
                "LenaModel/Lemmas/C02Split.lean", "LenaModel/Lemmas/C02Spec.lean", "LenaModel/Lemmas/C02Sim.lean",
                "LenaModel/Lemmas/C02Min.lean", "LenaModel/Lemmas/C02Src.lean",
                "LenaModel/Props/C02.lean", "LenaModel/Props/C02Src.lean"]
DRIVER = "drivers/C02.lean"
THEOREMS = [
    # the property's main sentences
    "Lena.C02.pipeline_lazy",
    "Lena.C02.compose_pulls",
    "Lena.C02.stage_produces",
    "Lena.C02.seqFuelOK_exists",
    "Lena.C02.take_produces",
    "Lena.C02.lazy_refines_list",
    "Lena.C02.pipeline_values",
    # infinite inputs and prefix determinacy (sufficiency), for every pipeline
    "Lena.C02.pipeline_lazy_infinite",
    "Lena.C02.pipeline_prefix_determined",
    "Lena.C02.slice_after_infinite_terminates",
    "Lena.C02.split_none_never_returns",
    # "shortest": necessity
    "Lena.C02.exact_pipeline_minimal",
    "Lena.C02.exact_stamps",
    "Lena.C02.count_lookahead_needed",
    "Lena.C02.lag_needed",
    # what the stage functions say about pulls
    "Lena.C02.filter_pulls",
    "Lena.C02.filter_pulls_source",
    "Lena.C02.islice_pulls",
    "Lena.C02.count_lookahead",
    "Lena.C02.negslice_lag",
    "Lena.C02.split_block_exact",
    # bounded buffering
    "Lena.C02.split_buffer_bound",
    "Lena.C02.split_retention_bound",
    "Lena.C02.negslice_held_bound",
    "Lena.C02.cap_sound",
    # the machines realise the stage functions
    "Lena.C02.filter_produces",
    "Lena.C02.runIf_produces",
    "Lena.C02.islice_feeds",
    "Lena.C02.islice_produces",
    "Lena.C02.count_produces",
    "Lena.C02.neg_produces",
    "Lena.C02.split_produces",
    # Split.__init__: only a Cache in a sequence-type branch gives up a finite bufsize
    "Lena.C02.effBufsize_no_cache",
    "Lena.C02.effBufsize_cache",
    # where the flow comes from: Chain(...) / a Split of Sources as the head of a Source, Sources inside a Split
    "Lena.C02.sources_lazy",
    "Lena.C02.sources_lazy_infinite",
    "Lena.C02.chain_produces",
    "Lena.C02.splice_produces",
    "Lena.C02.source_on_demand",
    "Lena.C02.sources_refine_list",
]
# true by definition / model-internal glue / encoding lemmas: audited, not counted as obligations of the property
AUX_THEOREMS = [
    "Lena.C02.build_is_silent",          # Stage.run builds a record: `rfl` per stage; the sentence is pipeline_lazy at k = 0
    "Lena.C02.take_feeds",
    "Lena.C02.stage_refines_list",
    "Lena.C02.source_pipeSim",
    "Lena.C02.prefix_pipeSim",
    "Lena.C02.seq_pipeSim",
    "Lena.C02.stage_pipeSim",
    "Lena.C02.take_sim",
    "Lena.C02.Stage.wfb_iff",
    "Lena.C02.seqFuelOKb_iff",
    "Lena.C02.containsCache_split",
    "Lena.C02.ofList_need",
    "Lena.C02.map_pulls",
    "Lena.C02.islice_end",
    "Lena.C02.negSpec_fst",
    "Lena.C02.split_block_bound",
    "Lena.C02.splitSpecGo_block",
    "Lena.C02.split_end_is_input_end",
    "Lena.C02.count_held_bound",
    "Lena.C02.listSrc_produces",
    "Lena.C02.fnSrc_feeds",
    "Lena.C02.map_feeds",
    "Lena.C02.sources_build_is_silent",   # `rfl` per element; the sentence is sources_lazy at k = 0
    "Lena.C02.xstage_produces",
    "Lena.C02.xcompose_pulls",
    "Lena.C02.xseqFuelOK_exists",
    "Lena.C02.chain_pipeSim",
    "Lena.C02.splice_pipeSim",
    "Lena.C02.xseq_pipeSim",
    "Lena.C02.XStage.wfb_iff",
    "Lena.C02.xseqFuelOKb_iff",
    "Lena.C02.ofChain_single",
    "Lena.C02.chainStamps_append",
    "Lena.C02.spliceVals_fst",
]
CASE_TIMEOUT = 20

LIMIT = 1500        # an "infinite" input gives up after this many values (Runaway)
FUEL = LIMIT + 200  # loop bound given to the model
REF_PREFIX = 400    # the reference computation sees this prefix of an infinite input
MAXRES = 400        # the long run of a case stops after this many results
SPEC_PREFIX = 60    # the Lean specification of an infinite-input case is evaluated on this prefix


# ----------------------------------------------------------------------------------------
# values and the harness vocabulary of callables / selectors

class Val(object):
    """a flow datum: weakly referenceable, carries an integer"""
    __slots__ = ("d", "__weakref__")

    def __init__(self, d):
        self.d = d

    def __deepcopy__(self, memo):
        return Val(self.d)

    def __repr__(self):
        return "Val(%d)" % self.d


def _split(v):
    if isinstance(v, tuple) and len(v) == 2 and isinstance(v[1], dict):
        return v[0], v[1]
    return v, None


def _dat(x):
    return x.d if isinstance(x, Val) else x


def proj(v):
    """what is compared: the integer datum and the integer-valued top-level context entries"""
    dat, ctx = _split(v)
    c = {}
    if ctx:
        for k, x in ctx.items():
            if type(x) is int:
                c[str(k)] = x
    return [_dat(dat), c]


def fn_on_int(f):
    if f[0] == "add":
        return lambda d: d + f[1]
    if f[0] == "mul":
        return lambda d: d * f[1]
    if f[0] == "id":
        return lambda d: d
    raise ValueError(f)


def pred_on_int(p):
    if p[0] == "mod":
        return lambda d: d % p[1] == p[2]
    if p[0] == "lt":
        return lambda d: d < p[1]
    if p[0] == "ge":
        return lambda d: d >= p[1]
    if p[0] == "all":
        return lambda d: True
    if p[0] == "none":
        return lambda d: False
    raise ValueError(p)


def mk_getter(f):
    g = fn_on_int(f)
    if f[0] == "id":
        return lambda dat: dat
    return lambda dat: Val(g(_dat(dat)))


def mk_callable(f):
    getter = mk_getter(f)

    def call(v):
        dat, ctx = _split(v)
        nd = getter(dat)
        return nd if ctx is None else (nd, ctx)
    return call


def mk_selector(p):
    t = pred_on_int(p)
    return lambda v: t(_dat(_split(v)[0]))


# ----------------------------------------------------------------------------------------
# building the real elements

def slice_args(st):
    form = st.get("form", 3)
    if form == 1:
        return (st["stop"],)
    if form == 2:
        return (st["start"], st["stop"])
    return (st["start"], st["stop"], st["step"])


_TMPFILES = []


def build_el(st, uid, sst=None):
    import lena.core
    import lena.flow
    import lena.context
    import lena.output
    import lena.variables
    t = st["t"]
    if t == "map":
        impl = st.get("impl", "callable")
        if impl == "callable":
            return mk_callable(st["f"])
        if impl == "variable":
            return lena.variables.Variable("v%d" % next(uid), mk_getter(st["f"]))
        if impl == "print":
            return lena.flow.Print(transform=lambda v: "")
        if impl == "context":
            return lena.context.Context()
        if impl == "updatecontext":
            return lena.context.UpdateContext("u.k%d" % next(uid), 5)
        if impl == "makefilename":
            return lena.output.MakeFilename("f%d" % next(uid))
        raise ValueError(impl)
    if t == "cache":
        # a Cache without a cache file passes the flow through (and pickles it at the end)
        import os
        import tempfile
        fd, path = tempfile.mkstemp(prefix="c02cache-", suffix=".pkl")
        os.close(fd)
        os.remove(path)
        _TMPFILES.append(path)
        return lena.flow.Cache(path, recompute=True)
    if t == "filter":
        return lena.flow.Filter(mk_selector(st["p"]))
    if t == "slice":
        if st.get("alias"):
            # the deprecated spelling ISlice(...) returns a Slice
            import warnings
            with warnings.catch_warnings():
                warnings.simplefilter("ignore")
                return lena.flow.ISlice(*slice_args(st))
        return lena.flow.Slice(*slice_args(st))
    if t == "count":
        return lena.flow.Count(st["name"], st["c0"])
    if t == "runif":
        inner = [build_el(s, uid, sst) for s in st["inner"]]
        if st.get("seqarg"):
            # the other accepted form: a Selector object and one Sequence
            return lena.flow.RunIf(lena.flow.Selector(mk_selector(st["p"])), lena.core.Sequence(*inner))
        return lena.flow.RunIf(mk_selector(st["p"]), *inner)
    if t == "runifx":
        # a RunIf whose sequence EXPANDS a selected value into several results: a Split with (optionally) an ordinary
        # branch and a Source whose flow is an instrumented generator (fresh for every selected value; m values or
        # infinitely many), optionally followed by a callable.  The pulls from that flow are on the clock of the case,
        # so how far the inner sequence was driven when a result is handed over is observable.
        brs = []
        if st.get("f"):
            brs.append(mk_callable(st["f"]))
        brs.append(lena.core.Source(lambda st=st: source(st["m"], sst, st.get("pairs", False), st["base"])))
        inner = [lena.core.Split(brs, bufsize=st.get("bufsize", 1))]
        if st.get("post"):
            inner.append(mk_callable(st["post"]))
        if st.get("seqarg"):
            return lena.flow.RunIf(lena.flow.Selector(mk_selector(st["p"])), lena.core.Sequence(*inner))
        return lena.flow.RunIf(mk_selector(st["p"]), *inner)
    if t == "split":
        brs = []
        for b in st["branches"]:
            if b["k"] == "seq":
                els = tuple(build_el(s, uid, sst) for s in b["stages"])
                if b.get("explicit"):
                    brs.append(lena.core.Sequence(*els))
                else:
                    brs.append(els[0] if len(els) == 1 and b.get("bare") else els)
            elif b["k"] == "fr":
                els = []
                for s in b["pre"]:
                    if s["t"] == "count":
                        els.append(lena.core.FillInto(lena.flow.Count(s["name"], s["c0"])))
                    else:
                        els.append(build_el(s, uid, sst))
                els.append(BlockSum(b["stop"], b.get("pairs", False)))
                els.extend(build_el(s, uid, sst) for s in b["post"])
                brs.append(lena.core.FillRequestSeq(*els, bufsize=1, reset=False, buffer_input=True)
                           if b.get("explicit") else tuple(els))
            elif b["k"] == "src":
                vals = [Val(b["base"] + i) for i in range(b["m"])]
                if b.get("pairs"):
                    vals = [(v, {}) for v in vals]
                brs.append(lena.core.Source(lambda vals=vals: iter(vals)))
            elif b["k"] == "isrc":
                # a Source whose flow is an instrumented generator (finite or infinite): it advances the clock of the
                # case, so that WHEN its values are produced is observable
                mk = (lambda b=b: source(b["m"], sst, b.get("pairs", False), b["base"]))
                tail = [mk_callable(b["tf"])] if b.get("tf") else []
                import warnings
                with warnings.catch_warnings():
                    warnings.simplefilter("ignore")
                    brs.append(lena.core.Source(mk() if b.get("form") == "iter" else mk, *tail))
            else:
                els = []
                for s in b["pre"]:
                    if s["t"] == "count":
                        # a bare Count would itself be taken as the fill/compute element
                        els.append(lena.core.FillInto(lena.flow.Count(s["name"], s["c0"])))
                    else:
                        els.append(build_el(s, uid, sst))
                els.append(lena.flow.Count(b["name"], b["c0"]))
                els.extend(build_el(s, uid, sst) for s in b["post"])
                brs.append(lena.core.FillComputeSeq(*els) if b.get("explicit") else tuple(els))
        return lena.core.Split(brs, bufsize=st["bufsize"], copy_buf=st["copy"])
    raise ValueError(t)


class BlockSum(object):
    """the fill/request element of the harness: adds up the data it is filled with; `request()` yields the sum of
    what was filled since the last request and clears it; once `stop` values were filled, `fill` raises LenaStopFill"""

    def __init__(self, stop=None, pairs=False):
        self.stop, self.n, self.acc, self.pairs = stop, 0, 0, pairs

    def fill(self, value):
        import lena.core
        if self.stop is not None and self.n >= self.stop:
            raise lena.core.LenaStopFill()
        self.n += 1
        self.acc += _dat(_split(value)[0])

    def request(self):
        acc, self.acc = self.acc, 0
        yield (Val(acc), {}) if self.pairs else Val(acc)


class Runaway(Exception):
    pass


class Box(object):
    """a re-iterable container given to Chain: it has a length, and iterating it runs an instrumented generator"""

    def __init__(self, n, st, pairs, start):
        self.args = (n, st, pairs, start)

    def __len__(self):
        return self.args[0]

    def __iter__(self):
        return source(*self.args)


class Opener(object):
    """the first element of a Source that does its work when it is CALLED (like a function that opens a file) and
    returns an iterator: the call is the first thing the pipeline takes from that input and advances the clock of
    the case once; the values come from an instrumented generator."""

    def __init__(self, n, st, pairs, start):
        self.args = (n, st, pairs, start)

    def __call__(self):
        self.args[1].clock += 1
        self.args[1].alive_log.append(self.args[1].alive)
        return source(*self.args)


def opens(part):
    return 1 if part.get("kind") in ("fn", "obj") else 0


class TickVal(Val):
    """the start value given to CountFrom: itertools.count computes `value + step` once per value it hands out, so
    the addition is the pull event of that (otherwise unobservable) infinite Source"""
    __slots__ = ("st",)

    def __init__(self, d, st):
        self.d = d
        self.st = st

    def __int__(self):
        return self.d

    def __add__(self, step):
        st = self.st
        st.clock += 1
        if self.d >= LIMIT:
            raise Runaway()
        return TickVal(self.d + step, st)

    def __deepcopy__(self, memo):
        return Val(self.d)


def head_parts(case):
    """[(number of values or None, first index, kind)] of the iterables chained in the head of the pipeline"""
    out, start = [], 0
    for p in case["head"]["parts"]:
        out.append((p["n"], start, p.get("kind", "gen")))
        start += p["n"]
    if case["head"].get("inf"):
        out.append((None, start, case["head"].get("infkind", "gen")))
    return out


def build_head(case, st):
    """the first element of Source(first, *els) for the heads made of several instrumented iterables"""
    import lena.core
    import lena.flow
    pairs = case.get("pairs", False)
    if case["via"] == "countfrom":
        return lena.flow.CountFrom(TickVal(0, st), 1)
    parts = head_parts(case)
    if case["via"] == "splitcall":
        # a Split of Sources is itself a Source: Split.__call__ chains them
        def first(a):
            if a[2] in ("fn", "obj"):
                return Opener(a[0], st, pairs, a[1]) if a[2] == "obj" else Opener(a[0], st, pairs, a[1]).__call__
            return lambda a=a: source(a[0], st, pairs, a[1])
        # ("late": Sources placed after the infinite one - they are never reached, so they must never be started)
        late = [(q["n"], 10 ** 6, q.get("kind", "gen")) for q in case["head"].get("late", [])]
        return lena.core.Split([lena.core.Source(first(a)) for a in parts + late],
                               bufsize=case["head"].get("bufsize", 1000))
    its = []
    for n, start, kind in parts:
        its.append(Box(n, st, pairs, start) if kind == "box" and n is not None else source(n, st, pairs, start))
    if case["head"].get("inf") and case["head"].get("after"):
        # what follows an infinite iterable is never reached
        its.append([Val(-1 - i) for i in range(case["head"]["after"])])
    return lena.flow.Chain(*its)


class SrcState(object):
    def __init__(self):
        self.clock = 0
        self.alive = 0
        self.alive_log = []
        self.refs = []

    def _dead(self, _ref):
        self.alive -= 1


def source(n, st, pairs, start=0):
    """an instrumented input: values Val(start), Val(start + 1), ... (n of them, or for ever).  Every instrumented
    generator of a case (the input, the iterables given to a Chain, the Sources inside a Split) advances the ONE
    clock of the case: once per value it produces, once when it finds itself exhausted."""
    refs = st.refs       # (kept with the case, not in this frame: a weak reference that is itself gone reports nothing)
    i = 0
    while n is None or i < n:
        st.clock += 1
        st.alive_log.append(st.alive)
        if n is None and i >= LIMIT:
            raise Runaway()
        v = Val(start + i)
        refs.append(weakref.ref(v, st._dead))
        st.alive += 1
        if pairs:
            v = (v, {})
        yield v
        del v
        i += 1
    st.clock += 1
    st.alive_log.append(st.alive)


def second_run(seq, case, n2):
    """run the SAME pipeline object again on a fresh instrumented input of n2 values (drained)"""
    st = SrcState()
    try:
        flow = seq.run(source(n2, st, case.get("pairs", False)))
    except Exception as e:
        return {"built": st.clock, "r": [], "end": "error:" + exc_name(e), "clock": st.clock}
    built = st.clock
    res, end = [], "exhausted"
    try:
        for v in flow:
            res.append(proj(v) + [st.clock])
            del v
            if len(res) >= MAXRES:
                end = "stopped"
                break
    except Exception as e:
        end = "error:" + exc_name(e)
    return {"built": built, "r": res, "end": end, "clock": st.clock, "max_alive": max(st.alive_log or [0])}


def one_run(case, k, keep=None):
    """build the pipeline afresh, take at most k results (k None: until it ends).
    Returns (built_clock, results, end, final_clock, clock_after_close, alive_log)."""
    import lena.core
    uid = itertools.count()
    st = SrcState()
    els = [build_el(s, uid, st) for s in case["stages"]]
    try:
        if case.get("via") in ("chain", "splitcall", "countfrom"):
            # Source(Chain(it1, it2, ...), *els)(), Source(Split([Source(it1), Source(it2), ...]), *els)(),
            # Source(CountFrom(0), *els)()
            import warnings
            with warnings.catch_warnings():
                warnings.simplefilter("ignore")
                seq = lena.core.Source(build_head(case, st), *els)
            flow = seq()
        elif case.get("via") == "source":
            # Source(first, *els)() is Sequence(*els).run(first())
            seq = lena.core.Source(lambda: source(case["n"], st, case.get("pairs", False)), *els)
            flow = seq()
        elif case.get("via") == "source_iterable":
            # the first element is a re-iterable container-like object (`__iter__` makes the instrumented generator)
            class _Iterable(object):
                def __iter__(self_):
                    return source(case["n"], st, case.get("pairs", False))
            import warnings
            with warnings.catch_warnings():
                warnings.simplefilter("ignore")
                seq = lena.core.Source(_Iterable(), *els)
            flow = seq()
        elif case.get("via") == "source_iter":
            # the first element is a one-pass iterator OBJECT (a generator object): __call__ must hand it on untouched
            import warnings
            with warnings.catch_warnings():
                warnings.simplefilter("ignore")
                seq = lena.core.Source(source(case["n"], st, case.get("pairs", False)), *els)
            flow = seq()
        else:
            src = source(case["n"], st, case.get("pairs", False))
            g = case.get("group")
            if g and len(els) >= 2:
                # nested Sequences are flattened by LenaSequence.__init__: the same pipeline
                els = els[:g[0]] + [lena.core.Sequence(*els[g[0]:g[1]])] + els[g[1]:]
            seq = lena.core.Sequence(*els)
            flow = seq.run(src)
    except Runaway:
        # an eager implementation consumes an infinite input while the pipeline is being built
        return st.clock, [], "runaway", st.clock, st.clock, st.alive_log
    except Exception as e:
        return st.clock, [], "error:" + exc_name(e), st.clock, st.clock, st.alive_log
    built = st.clock
    if keep is not None:
        keep.append(seq)
    res = []
    end = "stopped"
    try:
        while k is None or len(res) < k:
            try:
                v = next(flow)
            except StopIteration:
                end = "exhausted"
                break
            res.append(proj(v) + [st.clock])
            del v
            if k is None and len(res) >= MAXRES:
                break               # the consumer of the long run gives up (end = "stopped")
    except Runaway:
        end = "runaway"
    except Exception as e:  # an exception of the pipeline is an observable outcome
        end = "error:" + exc_name(e)
    final = st.clock
    try:
        close = getattr(flow, "close", None)
        if close is not None:
            close()
    except Exception as e:
        end += "+close:" + exc_name(e)
    del flow
    return built, res, end, final, st.clock, st.alive_log


def _cleanup_tmp():
    import os
    while _TMPFILES:
        try:
            os.remove(_TMPFILES.pop())
        except OSError:
            pass


def run_impl(case):
    try:
        return _run_impl(case)
    finally:
        _cleanup_tmp()


def _run_impl(case):
    with contextlib.redirect_stdout(io.StringIO()):
        keep = []
        built, res, end, final, _, alive = one_run(case, case["K"], keep)
        second = None
        if case.get("reuse") is not None and keep and end == "exhausted":
            second = second_run(keep[0], case, case["reuse"])
        probe = None
        if case.get("probe") and end == "exhausted" and res:
            # extensional minimality probe: the same pipeline on the input cut just before the pull that delivered
            # the last result
            k = len(res)
            cut = dict(case, n=res[-1][2] - 1, ks=[], reuse=None, probe=False)
            _, r2, e2, _, _, _ = one_run(cut, None)
            probe = {"k": k, "n": cut["n"], "r": r2, "end": e2}
        stops = []
        for k in case.get("ks", []):
            b2, r2, e2, f2, c2, _ = one_run(case, k)
            stops.append([k, len(r2), f2, c2, e2])
    out = {"built": built, "r": res, "end": end, "clock": final, "stops": stops,
           "max_alive": max(alive) if alive else 0}
    if second is not None:
        out["second"] = second
    if probe is not None:
        out["probe"] = probe
    return out


# ----------------------------------------------------------------------------------------
# model side

def _strip(st):
    """the model's view of a stage descriptor"""
    t = st["t"]
    if t == "map":
        impl = st.get("impl", "callable")
        return {"t": "map", "f": st["f"] if impl in ("callable", "variable") else ["id"]}
    if t == "slice":
        a, b, s = st["start"], st["stop"], st["step"]
        form = st.get("form", 3)
        if form == 1:
            a, s = None, None
        elif form == 2:
            s = None
        return {"t": "slice", "start": a, "stop": b, "step": s}
    if t == "runif":
        return {"t": "runif", "p": st["p"], "inner": [_strip(s) for s in st["inner"]]}
    if t == "runifx":
        brs = ([{"k": "seq", "stages": [{"t": "map", "f": st["f"]}]}] if st.get("f") else []) + \
            [{"k": "src", "m": 3 if st["m"] is None else st["m"], "base": st["base"]}]
        inner = [{"t": "split", "bufsize": st.get("bufsize", 1), "copy": True, "branches": brs}]
        if st.get("post"):
            inner.append({"t": "map", "f": st["post"]})
        return {"t": "runif", "p": st["p"], "inner": inner}
    if t == "split":
        brs = []
        for b in st["branches"]:
            if b["k"] == "seq":
                brs.append({"k": "seq", "stages": [_strip(s) for s in b["stages"]]})
            elif b["k"] == "src":
                brs.append({"k": "src", "m": b["m"], "base": b["base"]})
            elif b["k"] == "isrc":
                brs.append({"k": "isrc", "m": b["m"], "base": b["base"], "tf": b.get("tf") or ["id"]})
            elif b["k"] == "fr":
                brs.append({"k": "fr", "pre": [_strip(s) for s in b["pre"]], "stop": b["stop"],
                            "post": [_strip(s) for s in b["post"]]})
            else:
                brs.append({"k": "fc", "pre": [_strip(s) for s in b["pre"]], "name": b["name"], "c0": b["c0"],
                            "post": [_strip(s) for s in b["post"]]})
        return {"t": "split", "bufsize": st["bufsize"], "copy": st["copy"], "branches": brs}
    return st


def has_runifx(stages, infinite_only=False):
    return any(st["t"] == "runifx" and (st["m"] is None or not infinite_only) for st in stages)


def has_isrc(stages, infinite_only=False):
    return any(st["t"] == "split" and any(b["k"] == "isrc" and (b["m"] is None or not infinite_only)
                                          for b in st["branches"]) for st in stages)


def model_requests(case):
    stages = [_strip(s) for s in case["stages"]]
    k = case["K"]
    base = {"stages": stages, "n": case["n"]}
    if case.get("via") in ("chain", "splitcall"):
        # the input is a chain of instrumented iterables: `Pipe.ofHead`
        # (the call of a first element that works when called costs one tick at the moment its flow is demanded: on the
        # clock that is an empty iterable before it, whose only event is the tick at which it is found exhausted)
        base["head"] = {"parts": [x for p in case["head"]["parts"] for x in [0] * opens(p) + [p["n"]]] +
                                 [0] * opens({"kind": case["head"].get("infkind")}),
                        "inf": bool(case["head"].get("inf"))}
    if has_runifx(case["stages"]):
        # the Lean model of RunIf evaluates the inner sequence of a selected value at once (its documented abstraction):
        # only the VALUES (list semantics) are compared for these cases, with every infinite flow cut short
        return [dict(base, n=3 if case["n"] is None else case["n"], op="den")]
    reqs = [dict(base, op="run", k=MAXRES if k is None else k, fuel=FUEL)]
    # the consumer stop points (at most three per case) and the second run of a re-used pipeline object
    for kk in case.get("ks", [])[:3]:
        reqs.append(dict(base, op="run", k=kk, fuel=FUEL))
    if case.get("reuse") is not None:
        reqs.append(dict(base, op="run", n=case["reuse"], k=MAXRES, fuel=FUEL))
    if case["n"] is not None and not has_isrc(case["stages"], infinite_only=True):
        reqs.append(dict(base, op="spec", fuel=FUEL))
        reqs.append(dict(base, op="den"))
    else:
        # pipeline_lazy_infinite / sources_lazy_infinite: the specification with every infinite flow (the input,
        # the last iterable of a Chain, a Source inside a Split) cut after SPEC_PREFIX values
        reqs.append(dict(base, op="spec", trunc=SPEC_PREFIX, fuel=FUEL))
    return reqs


def compare(case, res, replies):
    if not isinstance(res, dict) or "end" not in res:
        return None             # the watchdog fired: reported by the machinery, nothing to compare
    m = replies[0]
    if "err" in m:
        return f"model driver error: {m['err']}"
    if has_runifx(case["stages"]):
        if case["n"] is not None and not has_runifx(case["stages"], True) and not has_isrc(case["stages"], True) \
                and res["end"] == "exhausted" and [x[:2] for x in res["r"]] != m["r"]:
            return f"Lean list semantics {m['r']} differs from the implementation's values {[x[:2] for x in res['r']]}"
        return None
    nk = len(case.get("ks", [])[:3])
    stop_replies = replies[1:1 + nk]
    second_reply = replies[1 + nk] if case.get("reuse") is not None else None
    replies = [m] + replies[1 + nk + (1 if case.get("reuse") is not None else 0):]
    if res["end"] != "runaway":
        for (k, got, fk, ck, ek), mk in zip(res["stops"], stop_replies):
            if "err" in mk:
                return f"model driver error: {mk['err']}"
            if ek == "runaway":
                continue
            if got != len(mk["r"]) or fk != mk["clock"] or ek.split("+")[0] != mk["end"]:
                return (f"a consumer that takes {k} results: impl {got} results, {fk} pulls, {ek} vs model "
                        f"{len(mk['r'])} results, {mk['clock']} pulls, {mk['end']}")
    if second_reply is not None and "second" in res:
        s2 = res["second"]
        if s2["r"] != second_reply["r"] or s2["end"] != second_reply["end"] or s2["clock"] != second_reply["clock"] \
                or s2["built"] != 0:
            return (f"second run of the same pipeline object on {case['reuse']} values: impl {s2['r']} "
                    f"{s2['end']}@{s2['clock']} (built {s2['built']}) vs model {second_reply['r']} "
                    f"{second_reply['end']}@{second_reply['clock']}")
    if res["built"] != m["built"]:
        return f"clock after building: impl {res['built']} vs model {m['built']}"
    if not m.get("wf", True):
        return "a generated stage does not satisfy Stage.wfb (the hypothesis of the theorems)"
    if m.get("cap") != _caps(case["stages"])[0]:
        return f"documented buffer sizes: Lean seqCap {m.get('cap')} vs harness {_caps(case['stages'])[0]}"
    infinite = case["n"] is None or has_isrc(case["stages"], infinite_only=True)
    if infinite and len(replies) > 1 and "err" not in replies[1]:
        # the statement of pipeline_lazy_infinite, evaluated: what the consumer asked for is settled within the
        # prefix => the run over the infinite input is the specification on the prefix
        sp = replies[1]
        k = MAXRES if case["K"] is None else case["K"]
        nd = 0 if k == 0 else (sp["r"][k - 1][2] if k <= len(sp["r"]) else sp["cf"])
        if nd <= SPEC_PREFIX and sp.get("fuelok"):
            want_end = "stopped" if k <= len(sp["r"]) else "exhausted"
            if res["r"] != sp["r"][:k] or res["end"] != want_end or res["clock"] != nd:
                return (f"Lean specification on the first {SPEC_PREFIX} values {sp['r'][:k]} end {want_end}@{nd} differs "
                        f"from the run over the infinite input {res['r']} {res['end']}@{res['clock']}")
    if res["end"] == "runaway":
        # the input gave up: the model must have got at least as far, and must not have finished
        if m["r"][:len(res["r"])] != res["r"]:
            return f"impl trace {res['r']} (then runaway) vs model {m['r']}"
        if not (m["end"] == "fuel" or m["clock"] >= LIMIT or len(m["r"]) > len(res["r"])):
            return f"impl does not terminate within {LIMIT} pulls, model ends {m['end']} at clock {m['clock']}"
        return None
    if res["r"] != m["r"]:
        return f"trace (value, context, clock): impl {res['r']} vs model {m['r']}"
    if res["end"] != m["end"] or res["clock"] != m["clock"]:
        return f"end: impl {res['end']}@{res['clock']} vs model {m['end']}@{m['clock']}"
    if not infinite and len(replies) > 2 and res["end"] == "exhausted":
        sp, dn = replies[1], replies[2]
        if "err" in sp or "err" in dn:
            return f"model driver error: {sp} {dn}"
        if not sp.get("fuelok"):
            return "the fuel given to the model does not satisfy seqFuelOKb (the hypothesis of pipeline_lazy) on this case"
        if sp["r"] != res["r"] or sp["cf"] != res["clock"]:
            return f"Lean specification {sp} differs from the implementation trace {res['r']} end {res['clock']}"
        if dn["r"] != [x[:2] for x in res["r"]]:
            return f"Lean list semantics {dn['r']} differs from the implementation's values {[x[:2] for x in res['r']]}"
    return None


# ----------------------------------------------------------------------------------------
# reference computation (independent of the Lean model): stamped flows
#
# A stamped flow is (c0, vals, cf): the clock before the first pull, the values each with the clock at
# which it may be handed over at the latest, and the clock at which the end may be reported at the latest.
# Values are (d, ctx) with ctx a dict of counters.

INF = 10 ** 9      # the stamp of what the reference computation cannot know: it lies beyond the prefix of an infinite
                   # flow that the reference looks at (every stamp derived from it is >= INF)


def need(sf, i):
    c0, vals, cf = sf
    if i <= 0:
        return c0
    return vals[i - 1][1] if i <= len(vals) else cf


def ref_den(stages, values, state=None):
    """list semantics: what a draining consumer gets from the finite flow `values`; `state` holds the
    counters of Count elements that are run more than once (inside RunIf)"""
    state = {} if state is None else state
    sf = (0, [(v, j + 1) for j, v in enumerate(values)], len(values) + 1)
    for st in stages:
        sf = ref_stage(st, sf, state)
    return [v for v, _ in sf[1]]


def _setctx(v, name, c):
    d, ctx = v
    ctx = dict(ctx)
    ctx[name] = c
    return (d, ctx)


def ref_slice(st, sf):
    c0, vals, cf = sf
    a, b, s = st["start"], st["stop"], st["step"]
    n = len(vals)
    step = 1 if s is None else s
    if all(x is None or x >= 0 for x in (a, b)):
        out = vals[a:b:step]                      # a selected value is handed over when it is pulled
        end = cf if b is None else need(sf, max(a or 0, b))
        return (c0, out, end)
    # a negative index: Slice documents that it keeps |index| values
    if a is None or a >= 0:
        # negative stop only: value i is known not to be among the last m when value i+m has been pulled
        m = -b
        a0 = a or 0
        idx = list(range(n))[a0:b]
        out = [(vals[i][0], vals[i + m][1]) for i in idx]
        end = cf
    elif b is not None and b <= a:
        out, end = [], c0                         # nothing can be selected: no pull at all
    elif b is not None and b >= 0 and n > b - a:
        out, end = [], need(sf, b - a + 1)        # more than stop-start values: nothing is selected
    else:
        # a negative start: which values are selected is known only at the end of the flow
        out = [(v, cf) for v, _ in vals[a:b]]
        end = cf
    return (c0, out[::step], end)


class _RefFc(object):
    """a fill/compute branch (pre..., Count(name), post...) fed value by value"""

    def __init__(self, b, state):
        self.b = b
        self.state = state
        self.pre = [{"i": 0, "c": s.get("c0", 0)} for s in b["pre"]]
        self.count = b.get("c0", 0)
        self.ctx = {}
        self.acc = 0

    def fill(self, v):
        """returns True if the branch needs no more values (LenaStopFill)"""
        for s, stt in zip(self.b["pre"], self.pre):
            t = s["t"]
            if t == "map":
                if s.get("impl", "callable") in ("callable", "variable"):
                    v = (fn_on_int(s["f"])(v[0]), v[1])
            elif t == "filter":
                if not pred_on_int(s["p"])(v[0]):
                    return False
            elif t == "slice":
                a, b_, st_ = s["start"] or 0, s["stop"], s["step"] or 1
                i = stt["i"]
                if b_ is not None:
                    sel = range(a, b_, st_)
                    if len(sel) == 0 or i > sel[-1]:
                        return True                # no index >= i is selected: LenaStopFill (documented)
                stt["i"] = i + 1
                if not (i >= a and (i - a) % st_ == 0):
                    return False
            elif t == "count":
                stt["c"] += 1
                v = _setctx(v, s["name"], stt["c"])
        if self.b["k"] == "fr":
            if self.b["stop"] is not None and self.count >= self.b["stop"]:
                return True
            self.acc += v[0]
        self.count += 1
        self.ctx = dict(v[1])
        return False

    def request(self):
        acc, self.acc = self.acc, 0
        return ref_den(self.b["post"], [(acc, {})], self.state)

    def compute(self):
        self.ctx[self.b["name"]] = self.count
        return ref_den(self.b["post"], [(self.count, dict(self.ctx))], self.state)


def has_cache(obj):
    """`_contains_cache` on a descriptor: a Cache anywhere below (in nested Splits, sequences, RunIf)"""
    if isinstance(obj, dict):
        return obj.get("t") == "cache" or any(has_cache(v) for v in obj.values())
    if isinstance(obj, list):
        return any(has_cache(v) for v in obj)
    return False


def eff_bufsize(st):
    """documented: a Split whose sequence-type branch contains a Cache reads the whole flow at once"""
    if st["bufsize"] is not None and any(b["k"] == "seq" and has_cache(b) for b in st["branches"]):
        return None
    return st["bufsize"]


def ref_split(st, sf, state):
    c0, vals, cf = sf
    brs = st["branches"]
    if not brs:
        return sf
    bufsize = eff_bufsize(st)
    active = [(b, _RefFc(b, state) if b["k"] in ("fc", "fr") else None) for b in brs]
    srcvals = lambda b: [(b["base"] + i, {}) for i in range(b["m"])]
    out = []
    # pulls from the instrumented Sources among the branches so far: they advance the same clock as the input, so
    # everything that happens after them is later by that much
    shift = [0]

    def isrc(b, stamp):
        """a Source is iterated on demand: its value number i is handed over after i + 1 pulls from it, and its end is
        seen with one more pull; nothing of it is produced before it is wanted"""
        f = fn_on_int(b.get("tf") or ["id"])
        m = REF_PREFIX if b["m"] is None else b["m"]
        out.extend(((f(b["base"] + i), {}), stamp + shift[0] + i + 1) for i in range(m))
        shift[0] += m + 1
        return b["m"] is None      # an infinite Source: what comes after it never happens
    blocks = []
    if bufsize is None:
        if vals:
            blocks.append((vals, cf))
    else:
        for i in range(0, len(vals), bufsize):
            blk = vals[i:i + bufsize]
            blocks.append((blk, blk[-1][1] if len(blk) == bufsize else cf))
    for blk, stamp0 in blocks:
        nxt = []
        for b, fc in active:
            stamp = stamp0 + shift[0]
            if b["k"] == "src":
                # a Source ignores the flow: its complete flow comes with the first block, then it is dropped
                out.extend((v, stamp) for v in srcvals(b))
            elif b["k"] == "isrc":
                if isrc(b, stamp0):
                    return (c0, out, INF)
            elif fc is None:
                out.extend((v, stamp) for v in ref_den(b["stages"], [v for v, _ in blk], state))
                nxt.append((b, fc))
            elif b["k"] == "fr":
                # a fill/request branch is a per-block branch: what it yields for the block is handed downstream
                # before the next block is pulled
                stopped = False
                for v, _ in blk:
                    if fc.fill(v):
                        stopped = True
                        break
                out.extend((v, stamp) for v in fc.request())
                if not stopped:
                    nxt.append((b, fc))
            else:
                stopped = False
                for v, _ in blk:
                    if fc.fill(v):
                        stopped = True
                        break
                if stopped:
                    # its result is determined by this block: handed downstream before the next read
                    out.extend((v, stamp) for v in fc.compute())
                else:
                    nxt.append((b, fc))
        active = nxt
    for b, fc in active:
        end = cf + shift[0]
        if b["k"] == "src":
            out.extend((v, end) for v in srcvals(b))
        elif b["k"] == "isrc":
            if isrc(b, cf):
                return (c0, out, INF)
        elif b["k"] == "fr":
            if not blocks:
                out.extend((v, end) for v in fc.request())
        elif fc is not None:
            out.extend((v, end) for v in fc.compute())
        elif not blocks:
            out.extend((v, end) for v in ref_den(b["stages"], [], state))
    return (c0, out, cf + shift[0])


def ref_stage(st, sf, state=None):
    state = {} if state is None else state
    c0, vals, cf = sf
    t = st["t"]
    if t == "map":
        if st.get("impl", "callable") in ("callable", "variable"):
            f = fn_on_int(st["f"])
            return (c0, [((f(v[0]), v[1]), c) for v, c in vals], cf)
        return sf
    if t == "cache":
        return sf
    if t == "filter":
        p = pred_on_int(st["p"])
        return (c0, [(v, c) for v, c in vals if p(v[0])], cf)
    if t == "slice":
        a, b, s = st["start"], st["stop"], st["step"]
        form = st.get("form", 3)
        if form == 1:
            a, s = None, None
        elif form == 2:
            s = None
        return ref_slice({"start": a, "stop": b, "step": s}, sf)
    if t == "count":
        # one value of look-ahead: a value is handed over when its successor has been pulled, the last one
        # (with the count) when the end has been seen
        out = []
        total = state.get(id(st), st["c0"]) + len(vals)      # `self.count += count`
        state[id(st)] = total
        for i, (v, c) in enumerate(vals):
            if i + 1 < len(vals):
                out.append((v, vals[i + 1][1]))
            else:
                out.append((_setctx(v, st["name"], total), cf))
        return (c0, out, cf)
    if t == "runif":
        p = pred_on_int(st["p"])
        out = []
        for v, c in vals:
            if p(v[0]):
                out.extend((r, c) for r in ref_den(st["inner"], [v], state))
            else:
                out.append((v, c))
        return (c0, out, cf)
    if t == "runifx":
        # what a selected value is expanded into is demanded result by result: the result of the ordinary branch needs
        # nothing beyond the value itself, value i of the Source needs i + 1 pulls from it, the end of the group one
        # more; everything later comes after the pulls the earlier groups needed
        p = pred_on_int(st["p"])
        f = fn_on_int(st["f"]) if st.get("f") else None
        g = fn_on_int(st["post"]) if st.get("post") else (lambda d: d)
        out, shift = [], 0
        for v, c in vals:
            if c >= INF or shift >= INF:
                out.append((v, INF))
                continue
            if not p(v[0]):
                out.append((v, c + shift))
                continue
            if f is not None:
                out.append(((g(f(v[0])), v[1]), c + shift))
            m = st["m"]
            for i in range(REF_PREFIX if m is None else m):
                out.append(((g(st["base"] + i), {}), c + shift + i + 1))
            if m is None:
                shift = INF
                break                   # nothing after an infinite group is ever reached
            shift += m + 1
        return (c0, out, INF if shift >= INF or cf >= INF else cf + shift)
    if t == "split":
        return ref_split(st, sf, state)
    raise ValueError(t)


def head_flow(case):
    """the stamped flow of the input: value i of a single instrumented generator comes with pull i + 1 and its end is
    seen with one more; in a chain of iterables every exhausted one has cost one pull more.  An infinite flow is cut
    after REF_PREFIX values and its 'end' gets the stamp INF."""
    if case.get("via") in ("chain", "splitcall"):
        vals, clock, i = [], 0, 0
        for p in case["head"]["parts"]:
            clock += opens(p)            # a first element that works when called is called when its flow is demanded
            for _ in range(p["n"]):
                clock += 1
                vals.append(((i, {}), clock))
                i += 1
            clock += 1
        if case["head"].get("inf"):
            clock += opens({"kind": case["head"].get("infkind")})
            for _ in range(REF_PREFIX):
                clock += 1
                vals.append(((i, {}), clock))
                i += 1
            clock = INF
        return (0, vals, clock)
    n = case["n"]
    if n is None:
        return (0, [((i, {}), i + 1) for i in range(REF_PREFIX)], INF)
    return (0, [((i, {}), i + 1) for i in range(n)], n + 1)


def reference(case):
    sf = head_flow(case)
    state = {}
    # (a fresh copy: the counters of Count elements are keyed by descriptor object, and one descriptor may occur twice)
    for st in json.loads(json.dumps(case["stages"])):
        sf = ref_stage(st, sf, state)
    return sf, INF


def _caps(stages):
    """documented buffering of a pipeline: (sum of the per-element bounds, number of elements);
    None if some element documents that it materialises the flow"""
    cap, cnt = 0, 0
    for st in stages:
        cnt += 1
        t = st["t"]
        if t == "slice":
            form = st.get("form", 3)
            a = None if form == 1 else st["start"]
            b = st["stop"]
            cap += max([-x for x in (a, b) if x is not None and x < 0] or [0])
        elif t == "count":
            cap += 1
        elif t == "split":
            if not st["branches"]:
                continue                  # Split([]) passes the flow through
            if eff_bufsize(st) is None:
                return None, cnt
            # the block being read, the block bound to `orig_buf`, and the block bound to `buf` (the block last handed
            # to a branch: a different one only when every branch has stopped) - lena/core/split.py
            cap += 3 * eff_bufsize(st)
            cnt += sum(len(b.get("stages", [])) + len(b.get("pre", [])) for b in st["branches"])
    return cap, cnt


def _key(x):
    return jdump([x[0], x[1]])


def oracle(case, res):
    """The property's statement evaluated on the recorded run of the real code."""
    name = describe(case)
    if res["built"] != 0:
        return f"{name}: {res['built']} pull(s) from the input when the pipeline was built / run() was called"
    if res["end"].startswith("error") or "+close" in res["end"]:
        return f"{name}: the pipeline raised {res['end']}"
    (c0, rvals, rcf), horizon = reference(case)
    # every result must be handed over no later than the clock the minimal prefix (plus documented
    # look-ahead / lag / block) allows; results are matched by value and occurrence
    seen = {}
    refpos = {}
    for j, (v, c) in enumerate(rvals):
        refpos.setdefault(_key(v), []).append(j)
    for j, x in enumerate(res["r"]):
        k = _key(x)
        occ = seen.get(k, 0)
        seen[k] = occ + 1
        lst = refpos.get(k, [])
        if occ < len(lst):
            bound = rvals[lst[occ]][1]
            if bound < horizon and x[2] > bound:
                return (f"{name}: result #{j + 1} {x[:2]} was handed to the consumer after {x[2]} pulls; the prefix "
                        f"that determines it (with documented look-ahead/lag/block) has {bound}")
    if res["end"] == "exhausted" and rcf < horizon and res["clock"] > rcf:
        return f"{name}: the end of the results was reported after {res['clock']} pulls, {rcf} suffice"
    if res["end"] == "runaway":
        nxt = len(res["r"])
        if nxt < len(rvals) and rvals[nxt][1] < horizon:
            return (f"{name}: does not terminate: more than {LIMIT} values pulled from an infinite input, result "
                    f"#{nxt + 1} is determined by {rvals[nxt][1]}")
        if nxt >= len(rvals) and rcf < horizon:
            return f"{name}: does not terminate: more than {LIMIT} values pulled, the results end after {rcf}"
    # every consumer stop point: the clock after k results is that of the long run, closing pulls nothing
    for k, got, fk, ck, ek in res["stops"]:
        if res["end"] == "runaway" or ek == "runaway":
            continue
        if k <= len(res["r"]):
            want = res["r"][k - 1][2] if k >= 1 else res["built"]
        elif res["end"] == "exhausted":
            want = res["clock"]
        else:
            continue
        if fk > want:
            return f"{name}: a consumer that takes {k} results caused {fk} pulls, the long run had {want} at that point"
        if ck != fk:
            return f"{name}: closing the pipeline after {k} results pulled {ck - fk} more value(s)"
    # the same pipeline object run a second time: as lazy as the first time
    if "second" in res:
        s2 = res["second"]
        if s2["built"] != 0:
            return f"{name}: second run of the same pipeline object: {s2['built']} pull(s) when run() was called"
        if s2["end"].startswith("error"):
            return f"{name}: second run of the same pipeline object raised {s2['end']}"
        c2 = dict(case, n=case["reuse"])
        (_, rv2, rcf2), hz2 = reference(c2)
        if [x[:2] for x in s2["r"]] == [[v[0], v[1]] for v, _ in rv2]:
            for j, (x, (v, bound)) in enumerate(zip(s2["r"], rv2)):
                if x[2] > bound:
                    return (f"{name}: second run of the same pipeline object over {case['reuse']} values: result "
                            f"#{j + 1} after {x[2]} pulls, the prefix that determines it has {bound}")
            if s2["end"] == "exhausted" and s2["clock"] > rcf2:
                return f"{name}: second run: the end was reported after {s2['clock']} pulls, {rcf2} suffice"
        else:
            return (f"{name}: second run of the same pipeline object over {case['reuse']} values yields "
                    f"{[x[:2] for x in s2['r']]}, a fresh pipeline {[[v[0], v[1]] for v, _ in rv2]}: state was kept "
                    f"between two runs")
    # "shortest prefix": for pipelines of exact elements (no look-ahead, lag or block) the input cut just before the
    # pull that delivered result k must not already deliver result k (extensional: no reference computation involved)
    if "probe" in res:
        pr = res["probe"]
        if len(pr["r"]) >= pr["k"] and pr["r"][pr["k"] - 1][:2] == res["r"][pr["k"] - 1][:2]:
            return (f"{name}: result #{pr['k']} {res['r'][pr['k'] - 1][:2]} was handed over after "
                    f"{res['r'][pr['k'] - 1][2]} pulls although the first {pr['n']} input values already determine it "
                    f"(the same pipeline over only {pr['n']} values yields it too)")
    # bounded buffering
    cap, cnt = _caps(case["stages"])
    if cap is not None:
        bound = cap + min(cnt, 2) + 3      # frame locals: measured excess over the documented buffers is at most 4
        # a Source inside a Split buffers nothing; the value it produced last stays bound to a loop variable
        bound += sum(1 for st in case["stages"] if st["t"] == "split" for b in st["branches"] if b["k"] == "isrc")
        bound += sum(3 for st in case["stages"] if st["t"] == "runifx")     # (block of the inner Split, loop variables)
        if res["max_alive"] > bound:
            return (f"{name}: {res['max_alive']} input values were alive at a pull; the elements document buffers of "
                    f"{cap} values in total (allowing {bound} with frame locals)")
    return None


# ----------------------------------------------------------------------------------------
# case generation

def describe(case):
    def d(st):
        t = st["t"]
        if t == "map":
            return st.get("impl", "callable") + (str(st["f"]) if st.get("impl", "callable") in ("callable", "variable") else "")
        if t == "filter":
            return f"Filter{st['p']}"
        if t == "slice":
            return "Slice" + str(slice_args(st)).replace(" ", "")
        if t == "cache":
            return "Cache"
        if t == "count":
            return f"Count({st['name']},{st['c0']})"
        if t == "runif":
            return f"RunIf({st['p']},{','.join(d(s) for s in st['inner'])})"
        if t == "runifx":
            return "RunIf(%s,Split([%sSource(<%s>)])%s)" % (
                st["p"], "callable%s," % st["f"] if st.get("f") else "",
                "infinite generator" if st["m"] is None else "generator of %d values" % st["m"],
                ",callable%s" % st["post"] if st.get("post") else "")
        if t == "split":
            bs = []
            for b in st["branches"]:
                if b["k"] == "seq":
                    bs.append("(" + ",".join(d(s) for s in b["stages"]) + ")")
                elif b["k"] == "src":
                    bs.append(f"Source({b['m']} values)")
                elif b["k"] == "isrc":
                    bs.append("Source(<%s>%s)" % ("infinite generator" if b["m"] is None else "generator of %d values" % b["m"],
                                                  ", callable" + str(b["tf"]) if b.get("tf") else ""))
                elif b["k"] == "fr":
                    bs.append("(" + ",".join([d(s) for s in b["pre"]] + [f"BlockSum(stop={b['stop']})"] +
                                             [d(s) for s in b["post"]]) + ")")
                else:
                    bs.append("(" + ",".join([d(s) for s in b["pre"]] + [f"Count({b['name']},{b['c0']})"] +
                                             [d(s) for s in b["post"]]) + ")")
            return f"Split([{','.join(bs)}],bufsize={st['bufsize']},copy_buf={st['copy']})"
        return str(st)
    src = "infinite input" if case["n"] is None else f"input of {case['n']} values"
    if case.get("via") in ("chain", "splitcall"):
        _kind = {"box": "container", "fn": "function that works when called, returning an iterator",
                 "obj": "callable object that works when called, returning an iterator"}
        its = ["<%s of %d values>" % (_kind.get(p.get("kind"), "iterator"), p["n"])
               for p in case["head"]["parts"]] + \
              (["<infinite %s>" % _kind.get(case["head"].get("infkind"), "iterator")] if case["head"].get("inf") else []) + \
              ["<%s of %d values>" % (_kind.get(q.get("kind"), "iterator"), q["n"]) for q in case["head"].get("late", [])]
        first = ("Chain(%s)" % ", ".join(its) if case["via"] == "chain"
                 else "Split([%s])" % ", ".join("Source(%s)" % x for x in its))
        return f"Source({', '.join([first] + [d(s) for s in case['stages']])})()"
    if case.get("via") == "countfrom":
        return f"Source({', '.join(['CountFrom(0)'] + [d(s) for s in case['stages']])})()"
    if case.get("via") == "source":
        return f"Source({', '.join(['<input>'] + [d(s) for s in case['stages']])})() with an {src}"
    if case.get("via") == "source_iterable":
        return f"Source({', '.join(['<iterable object>'] + [d(s) for s in case['stages']])})() with an {src}"
    if case.get("via") == "source_iter":
        return f"Source({', '.join(['<iterator object>'] + [d(s) for s in case['stages']])})() with an {src}"
    return f"Sequence({', '.join(d(s) for s in case['stages'])}) over an {src}"


FNS = [["add", 1], ["add", -2], ["mul", 2], ["mul", -1], ["id"], ["add", 10]]
PREDS = [["mod", 2, 0], ["mod", 2, 1], ["mod", 3, 1], ["lt", 3], ["ge", 2], ["all"], ["none"], ["mod", 4, 3], ["lt", 6]]


def g_map(rng, pairs, plain=False):
    impl = "callable"
    if not plain:
        r = rng.random()
        if r < 0.5:
            impl = "callable"
        elif r < 0.65:
            impl = "variable"
        elif r < 0.73:
            impl = "print"
        elif r < 0.81:
            impl = "updatecontext"
        elif r < 0.89:
            impl = "makefilename"
        elif pairs:
            impl = "context"
    return {"t": "map", "f": rng.choice(FNS), "impl": impl}


def g_filter(rng):
    return {"t": "filter", "p": rng.choice(PREDS)}


def g_slice(rng, nonneg=False, hi=7):
    def idx():
        r = rng.random()
        if r < 0.15:
            return None
        if nonneg or r < 0.6:
            return rng.randint(0, hi)
        return rng.randint(-5, -1)
    form = rng.choice([1, 2, 3, 3])
    a, b = idx(), idx()
    s = rng.choice([None, 1, 1, 2, 3])
    alias = rng.random() < 0.06          # spelled ISlice(...)
    if form == 1:
        if b is None:
            b = rng.randint(0, hi)
        return {"t": "slice", "start": None, "stop": b, "step": None, "form": 1, "alias": alias}
    if form == 2:
        return {"t": "slice", "start": a, "stop": b, "step": None, "form": 2, "alias": alias}
    return {"t": "slice", "start": a, "stop": b, "step": s, "form": 3, "alias": alias}


def g_count(rng, names):
    return {"t": "count", "name": "c%d" % next(names) if rng.random() < 0.8 else "count", "c0": rng.choice([0, 0, 0, 5])}


def g_stateless(rng, pairs, depth, names=None, direct_count=True):
    """an element for the inner sequence of a RunIf / a sequence-type branch of a Split; with `names` a Count is
    allowed (directly only inside a RunIf: in a branch of a Split it would make the branch fill/compute)"""
    r = rng.random()
    if names is not None and direct_count and r < 0.2:
        return g_count(rng, names)
    if r < 0.4:
        return g_map(rng, pairs)
    if r < 0.65:
        return g_filter(rng)
    if r < 0.9 or depth <= 0:
        return g_slice(rng, hi=3)
    return g_runif(rng, pairs, depth - 1, names)


def _eager_ok(stages, rng):
    """The model evaluates `seq.run(...)` of an inner sequence (RunIf) or of a branch (Split) at once.  That is what
    the lazily evaluated real code computes unless an element with a side effect (a Count) is followed, in the same
    sequence, by an element that may stop pulling (a Slice): then the real Count sees fewer values.  Such sequences
    are not generated: a Slice after a Count-bearing element is replaced by a Filter."""
    seen = False
    out = []
    for st in stages:
        if seen and st["t"] == "slice":
            st = g_filter(rng)
        if '"count"' in json.dumps(st):
            seen = True
        out.append(st)
    return out


def g_runif(rng, pairs, depth, names=None):
    return {"t": "runif", "p": rng.choice(PREDS), "seqarg": rng.random() < 0.25,
            "inner": _eager_ok([g_stateless(rng, pairs, depth, names) for _ in range(rng.randint(0, 2))], rng)}


def g_split(rng, pairs, names, infinite=False, nested=True):
    nb = rng.choice([0, 1, 1, 2, 2, 3])
    brs = []
    for _ in range(nb):
        r0 = rng.random()
        if r0 < 0.5:
            stages = _eager_ok([g_stateless(rng, pairs, 1, names, direct_count=False)
                                for _ in range(rng.randint(1, 2))], rng)
            r1 = rng.random()
            if nested and r1 < 0.22:
                # a nested Split of stateless sequence branches with its own bufsize (None does NOT make the outer
                # Split read everything: only a Cache does)
                inner = {"t": "split", "bufsize": rng.choice([None, None, 1, 2, 1000]), "copy": True,
                         "branches": [{"k": "seq", "stages": [g_stateless(rng, pairs, 0)
                                                              for _ in range(rng.randint(1, 2))]}
                                      for _ in range(rng.randint(1, 2))]}
                if rng.random() < 0.25:
                    inner["branches"][0]["stages"].append({"t": "cache"})
                stages.insert(rng.randint(0, len(stages)), inner)
                stages = [st for st in stages if '"count"' not in json.dumps(st)]    # (one object serves every block)
            elif nested and r1 < 0.3:
                # a Cache in a sequence-type branch: the documented demotion to bufsize=None
                cache = {"t": "cache"}
                stages.insert(rng.randint(0, len(stages)),
                              cache if rng.random() < 0.6 else {"t": "runif", "p": ["all"], "seqarg": False,
                                                                "inner": [cache]})
            brs.append({"k": "seq", "stages": stages, "bare": rng.random() < 0.3, "explicit": rng.random() < 0.2})
        elif r0 < 0.54:
            brs.append({"k": "src", "m": rng.randint(0, 3), "base": 100 * (1 + next(names)), "pairs": pairs})
        elif r0 < 0.62:
            # a Source with an instrumented flow of its own, finite or infinite
            brs.append({"k": "isrc", "m": rng.choice([0, 1, 2, 3, 5, None, None]), "base": 100 * (1 + next(names)),
                        "pairs": pairs, "form": rng.choice(["call", "call", "iter"]),
                        "tf": rng.choice(FNS) if rng.random() < 0.3 else None})
        elif r0 < 0.74:
            pre = []
            for _ in range(rng.randint(0, 2)):
                r = rng.random()
                pre.append(g_map(rng, pairs, plain=True) if r < 0.35 else
                           (g_filter(rng) if r < 0.6 else g_slice(rng, nonneg=True, hi=5)))
            post = [g_map(rng, pairs, plain=True)] if rng.random() < 0.3 else []
            if nested and rng.random() < 0.15:
                post.append({"t": "cache"})      # a Cache outside a sequence-type branch does not demote bufsize
            brs.append({"k": "fr", "pre": pre, "stop": rng.choice([None, None, 1, 3, 6]), "post": post,
                        "explicit": rng.random() < 0.2, "pairs": pairs})
        else:
            pre = []
            for _ in range(rng.randint(0, 2)):
                r = rng.random()
                if r < 0.3:
                    pre.append(g_map(rng, pairs, plain=True))
                elif r < 0.5:
                    pre.append(g_filter(rng))
                elif r < 0.9:
                    pre.append(g_slice(rng, nonneg=True, hi=5))
                else:
                    # Count.fill_into, wrapped in FillInto (a bare Count would be taken as the fill/compute element)
                    pre.append(g_count(rng, names))
            post = [g_map(rng, pairs, plain=True)] if rng.random() < 0.3 else []
            if nested and rng.random() < 0.15:
                post.append({"t": "cache"})      # a Cache outside a sequence-type branch does not demote bufsize
            brs.append({"k": "fc", "pre": pre, "name": "n%d" % next(names), "c0": rng.choice([0, 0, 3]), "post": post,
                        "explicit": rng.random() < 0.2})
    # bufsize=None materialises the flow: over an infinite input it never returns (documented)
    bufsize = (rng.choice([1, 2, 3, 4, 5] * 4 + [8, None]) if infinite
               else rng.choice([1, 2, 3, 4, 5, 1, 2, 3, 4, 5, 8, 16, None, 1000]))
    return {"t": "split", "bufsize": bufsize, "copy": True if rng.random() < 0.8 else False, "branches": brs}


def g_stage(rng, pairs, names, infinite):
    r = rng.random()
    if r < 0.25:
        return g_map(rng, pairs)
    if r < 0.4:
        return g_filter(rng)
    if r < 0.65:
        return g_slice(rng)
    if r < 0.77:
        return g_count(rng, names)
    if r < 0.87:
        return g_runif(rng, pairs, 1, names)
    st = g_split(rng, pairs, names, infinite)
    if not st["copy"] and (pairs or '"count"' in json.dumps(st["branches"]) or
                           any(b["k"] == "fc" for b in st["branches"])):
        # without copies the branches share the context dictionaries of the values, and Count writes into the
        # context of the last value it saw: aliasing is C04's subject, not this property's
        st["copy"] = True
    return st


def mk_case(stages, n, pairs=False, K=None, ks=None, via="sequence", head=None):
    case = {"stages": stages, "n": n, "pairs": pairs, "K": K, "ks": ks or [], "via": via}
    if head is not None:
        case["head"] = head
        case["n"] = None if head.get("inf") else sum(p["n"] for p in head["parts"])
    return case


def g_head(rng, infinite):
    """the iterables chained in the head of a pipeline (Chain(...) or a Split of Sources)"""
    parts = [{"n": rng.choice([0, 1, 2, 3, 5, 8]), "kind": rng.choice(["gen", "gen", "box"])}
             for _ in range(rng.choice([0, 1, 2, 2, 3] if not infinite else [0, 0, 1, 2]))]
    return {"parts": parts, "inf": infinite, "after": rng.choice([0, 2]) if infinite else 0}


def random_case(rng, tier):
    pairs = rng.random() < 0.3
    infinite = rng.random() < 0.25
    names = itertools.count()
    stages = [g_stage(rng, pairs, names, infinite) for _ in range(rng.choice([0, 1, 1, 2, 2, 3, 3, 4]))]
    if '"count"' in json.dumps(stages):
        # without copies the results of different branches share the context dictionary of a value, and a Count
        # anywhere in the pipeline writes into such dictionaries: aliasing is C04's subject, not this property's
        for st in stages:
            if st["t"] == "split":
                st["copy"] = True
    r = rng.random()
    via = ("source" if r < 0.15 else "source_iter" if r < 0.23 else "source_iterable" if r < 0.28 else
           "chain" if r < 0.38 else "splitcall" if r < 0.42 else "countfrom" if r < 0.47 else "sequence")
    if via == "countfrom" and (pairs or not infinite):
        via = "chain"                     # CountFrom yields bare numbers, for ever
    head = g_head(rng, infinite) if via in ("chain", "splitcall") else None
    if via == "splitcall" and not head["parts"] and not infinite:
        via = "chain"                     # Split([]) is an empty Sequence, not a Source
    if infinite:
        return mk_case(stages, None, pairs, K=rng.randint(0, 9), ks=[rng.randint(0, 6)], via=via, head=head)
    n = rng.choice([0, 1, 2, 3, 4, 5, 6, 7, 8, 10, 12, 25 if tier == "quick" else 40])
    if any(st["t"] == "split" and (st["bufsize"] or 0) in (8, 16) for st in stages):
        n = rng.choice([5, 6]) * max(st["bufsize"] for st in stages if st["t"] == "split" and st["bufsize"] in (8, 16)) \
            + rng.randint(0, 3)           # several blocks: a retained extra block exceeds the slack of the bound
        if head is not None:
            head["parts"].append({"n": n, "kind": "gen"})
    if head is not None:
        n = sum(p["n"] for p in head["parts"])
    nk = n + len(head["parts"]) if head is not None else n + 1
    ks = sorted(set([0, rng.randint(0, nk), rng.randint(0, nk)])) if tier == "quick" else list(range(0, nk + 1))
    case = mk_case(stages, n, pairs, K=None, ks=ks, via=via, head=head)
    txt = json.dumps(stages)
    if via == "sequence":
        if len(stages) >= 2 and rng.random() < 0.2:
            i = rng.randint(0, len(stages) - 1)
            case["group"] = [i, rng.randint(i + 1, len(stages))]
        if '"count"' not in txt and '"fc"' not in txt and '"fr"' not in txt and '"cache"' not in txt \
                and '"isrc"' not in txt and rng.random() < 0.5:
            case["reuse"] = rng.randint(0, 8)     # stateless elements: a second run is a fresh run
    if _exact(stages) and n <= 12 and head is None:
        case["probe"] = True
    return case


def _exact(stages):
    """elements that hand a result over the moment the input value that causes it is pulled (no look-ahead, lag or
    block): callables and their kin, Filter, Slice with non-negative arguments, RunIf of such"""
    for st in stages:
        t = st["t"]
        if t in ("map", "filter"):
            continue
        if t == "slice" and all(x is None or x >= 0 for x in
                                ((None if st.get("form", 3) == 1 else st["start"]), st["stop"])):
            continue
        if t == "runif" and _exact(st["inner"]) and '"slice"' not in json.dumps(st["inner"]):
            continue
        return False
    return True


_FR = {"k": "fr", "pre": [], "stop": None, "post": []}

PALETTE = [
    {"t": "map", "f": ["add", 1], "impl": "callable"},
    {"t": "map", "f": ["mul", 2], "impl": "variable"},
    {"t": "filter", "p": ["mod", 2, 0]},
    {"t": "filter", "p": ["lt", 3]},
    {"t": "slice", "start": None, "stop": 2, "step": None, "form": 1},
    {"t": "slice", "start": 1, "stop": 5, "step": 2, "form": 3},
    {"t": "slice", "start": None, "stop": -2, "step": None, "form": 1},
    {"t": "slice", "start": 1, "stop": -1, "step": None, "form": 2},
    {"t": "slice", "start": -3, "stop": -1, "step": None, "form": 2},
    {"t": "slice", "start": -2, "stop": None, "step": None, "form": 2},
    {"t": "slice", "start": -2, "stop": 3, "step": None, "form": 2},
    {"t": "count", "name": "count", "c0": 0},
    {"t": "runif", "p": ["mod", 2, 1], "inner": [{"t": "map", "f": ["add", 10], "impl": "callable"}]},
    {"t": "runif", "p": ["mod", 3, 0], "inner": [{"t": "filter", "p": ["none"]}]},
    {"t": "runif", "p": ["mod", 2, 0], "inner": [{"t": "count", "name": "ci", "c0": 0},
                                                 {"t": "map", "f": ["add", 100], "impl": "callable"}]},
    {"t": "split", "bufsize": 2, "copy": True, "branches": [
        {"k": "seq", "stages": [{"t": "map", "f": ["mul", 2], "impl": "callable"}]},
        {"k": "seq", "stages": [{"t": "filter", "p": ["mod", 2, 0]}], "bare": True}]},
    {"t": "split", "bufsize": 2, "copy": True, "branches": [dict(_FR)]},
    {"t": "split", "bufsize": 3, "copy": True, "branches": [
        {"k": "fc", "pre": [{"t": "slice", "start": None, "stop": 2, "step": None, "form": 1}], "name": "count", "c0": 0, "post": []},
        {"k": "seq", "stages": [{"t": "map", "f": ["mul", 2], "impl": "callable"}]}]},
    {"t": "split", "bufsize": 2, "copy": True, "branches": [
        {"k": "isrc", "m": 2, "base": 500, "form": "call", "tf": None},
        {"k": "seq", "stages": [{"t": "map", "f": ["mul", 2], "impl": "callable"}]}]},
]


def fixed_cases(tier):
    cases = []
    # the documented examples and the shapes of past findings
    big = 30 if tier == "quick" else 60
    for a, b in [(-3, -1), (-2, -1), (-5, -2)]:
        cases.append(mk_case([{"t": "slice", "start": a, "stop": b, "step": None, "form": 2}], big, ks=[0, 1, 2]))
    cases.append(mk_case([{"t": "slice", "start": None, "stop": -2, "step": None, "form": 1}], big, ks=[0, 5]))
    cases.append(mk_case([{"t": "slice", "start": 1, "stop": -2, "step": None, "form": 2}], big, ks=[0, 5]))
    cases.append(mk_case([{"t": "slice", "start": -3, "stop": None, "step": None, "form": 2}], big, ks=[0, 2]))
    fc = {"k": "fc", "pre": [{"t": "slice", "start": None, "stop": 2, "step": None, "form": 1}], "name": "count", "c0": 0, "post": []}
    twice = {"k": "seq", "stages": [{"t": "map", "f": ["mul", 2], "impl": "callable"}]}
    for brs in ([fc], [fc, twice], [twice, fc]):
        sp = {"t": "split", "bufsize": 4, "copy": True, "branches": brs}
        cases.append(mk_case([sp, {"t": "slice", "start": None, "stop": 1, "step": None, "form": 1}], None, K=3, ks=[0, 1],
                             via="source"))
        cases.append(mk_case([sp], None, K=7, ks=[1, 5]))
        cases.append(mk_case([sp], 11, ks=[0, 1, 2, 6]))
    cases.append(mk_case([{"t": "slice", "start": None, "stop": 5, "step": None, "form": 1}], None, K=8, ks=[0, 3, 5, 6]))
    # a nested Split(bufsize=None) without a Cache does not demote the outer Split; a Cache does (documented)
    m2 = {"k": "seq", "stages": [{"t": "map", "f": ["mul", 2], "impl": "callable"}]}
    ident = {"k": "seq", "stages": [{"t": "map", "f": ["id"], "impl": "callable"}]}
    for inner_buf in (None, 1, 1000):
        for extra in ([], [{"t": "cache"}]):
            inner = {"t": "split", "bufsize": inner_buf, "copy": True, "branches": [m2, ident]}
            outer = {"t": "split", "bufsize": 2, "copy": True,
                     "branches": [dict(twice), {"k": "seq", "stages": [inner] + extra}]}
            cases.append(mk_case([outer], 7, ks=[0, 1, 4]))
            cases.append(mk_case([outer, {"t": "slice", "start": None, "stop": 3, "step": None, "form": 1}], None, K=5,
                                 ks=[1], via="source"))
    # fill/request branches are per-block branches: their request() results belong to the block
    for brs in ([dict(_FR)], [dict(_FR, stop=3), dict(twice)], [dict(twice), dict(_FR, pre=[{"t": "filter", "p": ["mod", 2, 0]}])]):
        sp = {"t": "split", "bufsize": 2, "copy": True, "branches": brs}
        cases.append(mk_case([sp], 7, ks=[0, 1, 2]))
        cases.append(mk_case([sp], None, K=5, ks=[1, 2]))
    # a Cache outside a sequence-type branch does not make the Split read everything
    fcc = {"k": "fc", "pre": [], "name": "count", "c0": 0, "post": [{"t": "cache"}]}
    cases.append(mk_case([{"t": "split", "bufsize": 2, "copy": True, "branches": [fcc, dict(twice)]}], 10, ks=[0, 1, 3]))
    cases.append(mk_case([{"t": "split", "bufsize": 2, "copy": True,
                           "branches": [dict(_FR, post=[{"t": "cache"}]), dict(twice)]}], None, K=4, ks=[1]))
    # long flows through a Split with a larger bufsize (an extra retained block must exceed the slack of the bound)
    for b in (8, 16):
        cases.append(mk_case([{"t": "split", "bufsize": b, "copy": True, "branches": [dict(twice)]}], 5 * b + 3, ks=[0, 1]))
        cases.append(mk_case([{"t": "split", "bufsize": b, "copy": True, "branches": [dict(fc)]}], 5 * b + 3, ks=[0, 1]))
    # Source with a one-pass iterator object as its first element
    for n in (4, None):
        cases.append(mk_case([{"t": "map", "f": ["add", 1], "impl": "callable"},
                              {"t": "slice", "start": None, "stop": 3, "step": None, "form": 1}], n, K=5, ks=[0, 1, 3],
                             via="source_iter"))
        cases.append(mk_case([], n, K=2, ks=[0, 1], via="source_iter"))
        cases.append(mk_case([{"t": "filter", "p": ["mod", 2, 0]}], n, K=2, ks=[0, 1], via="source_iterable"))
    return cases


def _sl(stop, start=None, step=None):
    if start is None and step is None:
        return {"t": "slice", "start": None, "stop": stop, "step": None, "form": 1}
    return {"t": "slice", "start": start, "stop": stop, "step": step, "form": 3 if step is not None else 2}


TAILS = [
    [],
    [_sl(3)],
    [{"t": "map", "f": ["add", 1], "impl": "callable"}, _sl(2)],
    [{"t": "filter", "p": ["mod", 2, 0]}, _sl(2)],
    [{"t": "count", "name": "count", "c0": 0}],
    [_sl(-1), _sl(2)],
    [_sl(4, 1, 2)],
]


def source_cases(tier):
    """where the flow comes from: Chain(...), a Split of Sources, CountFrom as the head of a Source; Sources with an
    instrumented flow among the branches of a Split.  Small scopes, enumerated."""
    cases = []
    shapes = [[], [0], [2], [0, 2], [2, 0], [1, 2], [2, 3, 1]] if tier == "quick" else \
        [[], [0], [1], [2], [0, 0], [0, 2], [2, 0], [1, 2], [3, 1], [2, 3, 1], [1, 0, 2], [0, 0, 1]]
    for shape in shapes:
        for inf in (False, True):
            for via in ("chain", "splitcall"):
                if via == "splitcall" and not shape and not inf:
                    continue              # Split([]) is an empty Sequence, not a Source
                for j, tail in enumerate(TAILS):
                    kinds = ["box" if (i + j) % 3 == 2 else "gen" for i in range(len(shape))]
                    head = {"parts": [{"n": n, "kind": k} for n, k in zip(shape, kinds)], "inf": inf,
                            "after": 2 if inf and j % 2 else 0}
                    if inf:
                        cases.append(mk_case(tail, None, K=6, ks=[0, 2], via=via, head=head))
                    else:
                        tot = sum(shape)
                        cases.append(mk_case(tail, None, ks=[0, 1, tot] if tier == "quick" else list(range(tot + 3)),
                                             via=via, head=head))
    for tail in TAILS[1:] + [[s1] for s1 in PALETTE]:
        cases.append(mk_case(tail, None, K=5, ks=[0, 2], via="countfrom"))
    twice = {"k": "seq", "stages": [{"t": "map", "f": ["mul", 2], "impl": "callable"}]}
    fc = {"k": "fc", "pre": [_sl(2)], "name": "count", "c0": 0, "post": []}

    def isrc(m, base=500, form="call", tf=None):
        return {"k": "isrc", "m": m, "base": base, "form": form, "tf": tf}
    ms = [0, 1, 3, None]
    for m in ms:
        for j, brs in enumerate(([isrc(m)], [isrc(m), twice], [twice, isrc(m)], [isrc(m, form="iter"), isrc(2, 700)],
                                 [isrc(2, 700), isrc(m, tf=["add", 1])], [fc, isrc(m), twice], [dict(_FR), isrc(m)])):
            for bufsize in (1, 2, None) if tier == "quick" else (1, 2, 3, None):
                sp = {"t": "split", "bufsize": bufsize, "copy": True, "branches": brs}
                for tail in ([], [_sl(2)], [_sl(5)]):
                    for n in (0, 3) if tier == "quick" else (0, 1, 2, 3, 5):
                        cases.append(mk_case([sp] + tail, n, K=None if m is not None else 7, ks=[0, 1, 4]))
                    if bufsize is not None:
                        cases.append(mk_case([sp] + tail, None, K=7, ks=[1, 3], via="source" if j % 2 else "sequence"))
    # the shapes of the adversary round: Slice(n) after a Split with an infinite Source; after Source(Chain(infinite, ..))
    sp = {"t": "split", "bufsize": 2, "copy": True,
          "branches": [isrc(None, 1000), {"k": "seq", "stages": [{"t": "map", "f": ["id"], "impl": "callable"}], "bare": True}]}
    cases.append(mk_case([sp, _sl(3)], 10, ks=[0, 1, 3, 4]))
    cases.append(mk_case([{"t": "map", "f": ["add", 1], "impl": "callable"}, _sl(3)], None, K=5, ks=[0, 1, 3], via="chain",
                         head={"parts": [], "inf": True, "after": 2}))
    return cases


def demand_cases(tier):
    """work that is only demanded inside the pipeline.  (1) A RunIf whose sequence expands a selected value into a group
    of results (an ordinary branch and an instrumented Source of 0..3 or infinitely many values in a Split, a
    callable after it): every consumer stop point, in particular in the middle of a group; a Slice behind an unbounded
    group.  (2) A Split of several Sources used through __call__ whose first elements work when they are called
    (functions / callable objects returning an iterator): a later Source is started only when the earlier ones are
    exhausted, never behind an infinite one."""
    cases = []
    inc = {"t": "map", "f": ["add", 1], "impl": "callable"}
    pres = [[], [{"t": "filter", "p": ["mod", 3, 1]}], [{"t": "count", "name": "c0", "c0": 0}], [inc]]
    tails = [[], [_sl(1)], [_sl(2)], [_sl(3)], [_sl(5)], [inc, _sl(4)], [{"t": "count", "name": "count", "c0": 0}],
             [_sl(-1), _sl(3)], [_sl(5, 1, 2)]]
    j = 0
    for m in (0, 1, 2, 3, None):
        for f in (None, ["mul", 2]):
            for post in (None, ["add", 1]):
                for p in (["all"], ["mod", 2, 0], ["none"]):
                    if p == ["none"] and (m != 2 or f or post):
                        continue
                    for pre in pres if tier != "quick" else pres[:1] + [pres[1 + j % 3]]:
                        for tail in tails:
                            if m is None and p != ["none"] and not any(s["t"] == "slice" for s in tail):
                                continue          # (an unbounded group and no Slice after it: nothing bounded to observe)
                            j += 1
                            x = {"t": "runifx", "p": p, "f": f, "m": m, "base": 500, "post": post, "seqarg": j % 3 == 0,
                                 "bufsize": [1, 2, None][j % 3]}
                            for n in ((0, 2, None) if tier == "quick" else (0, 1, 2, 3, None)):
                                if n is None:
                                    cases.append(mk_case(pre + [x] + tail, None, K=7, ks=[1, 2, 3],
                                                         via="source" if j % 2 else "sequence"))
                                elif m is None:
                                    cases.append(mk_case(pre + [x] + tail, n, K=7, ks=[1, 2, 3]))
                                else:
                                    tot = (n + 1) * (m + 2)
                                    cases.append(mk_case(pre + [x] + tail, n,
                                                         ks=[1, 2, m + 2] if tier == "quick" else list(range(tot + 1))))
    shapes = [[2], [1, 2], [2, 0], [0, 2, 1], [3, 1, 2]] if tier == "quick" else \
        [[0], [2], [1, 2], [2, 0], [0, 2], [0, 2, 1], [3, 1, 2], [1, 0, 2], [2, 2, 2, 2]]
    for shape in shapes:
        for inf in (False, True):
            for jj, tail in enumerate(TAILS):
                for var in range(3):
                    # which first elements work when called: all, every second, all but the first
                    kinds = [("gen" if (var == 1 and i % 2 == 0) or (var == 2 and i == 0) else ("fn", "obj")[(i + jj) % 2])
                             for i in range(len(shape))]
                    head = {"parts": [{"n": n, "kind": k} for n, k in zip(shape, kinds)], "inf": inf, "after": 0,
                            "infkind": ("fn", "obj", "gen")[(var + jj) % 3] if inf else None}
                    if inf and var == 0:
                        # an infinite Source FIRST, Sources that work when called after it
                        head2 = {"parts": [dict(q, kind="gen") for q in head["parts"][:1]], "inf": True, "after": 0,
                                 "infkind": "gen", "late": [{"n": 2, "kind": ("fn", "obj")[jj % 2]}, {"n": 1, "kind": "fn"}]}
                        cases.append(mk_case(tail, None, K=6, ks=[0, 1, 2], via="splitcall", head=head2))
                    if inf:
                        cases.append(mk_case(tail, None, K=6, ks=[0, 1, 2], via="splitcall", head=head))
                    else:
                        tot = sum(shape)
                        cases.append(mk_case(tail, None, ks=[0, 1, 2, tot] if tier == "quick" else list(range(tot + 3)),
                                             via="splitcall", head=head))
    return cases


def gen_cases(ctx):
    rng = ctx.rng
    tier = ctx.tier
    yield from fixed_cases(tier)
    yield from source_cases(tier)
    yield from demand_cases(tier)
    # every Slice with start, stop in {None, -3..3} and step in {None, 1, 2}, alone, over flows of 0..6 values
    idx = [None, -3, -2, -1, 0, 1, 2, 3]
    lens = [0, 1, 2, 3, 4, 6] if tier == "quick" else list(range(0, 9))
    for a in idx:
        for b in idx:
            for s in (None, 1, 2):
                if a is None and b is None and s is None:
                    continue
                for n in lens:
                    st = {"t": "slice", "start": a, "stop": b, "step": s, "form": 3}
                    yield mk_case([st], n, ks=[0, 1, n + 1] if tier == "quick" else list(range(n + 2)))
    # every ordered pair of the palette
    for s1 in PALETTE:
        for s2 in PALETTE:
            if s1["t"] == "count" and s2["t"] == "count":
                s2 = dict(s2, name="c2")
            for n in ((0, 1, 3, 7) if tier == "quick" else (0, 1, 2, 3, 5, 7, 9)):
                yield mk_case([s1, s2], n, ks=[0, 1, 2] if tier == "quick" else list(range(n + 2)))
            yield mk_case([s1, s2], None, K=4, ks=[0, 2])
    nrand = 6000 if tier == "quick" else 80000
    for _ in range(nrand):
        yield random_case(rng, tier)


def search_cases(ctx):
    return gen_cases(ctx)


def nontrivial(case, res):
    if "end" not in res:
        return False
    return len(case["stages"]) >= 1 and len(res.get("r", [])) >= 1


def classify(case, res):
    if "end" not in res:
        return ["timeout"]
    labels = ["len=%d" % len(case["stages"]), "input=" + ("infinite" if case["n"] is None else "finite"),
              "end=" + res.get("end", "?"), "via=" + case.get("via", "sequence")]
    if case.get("head"):
        labels.append("head:%d iterables%s" % (len(case["head"]["parts"]), "+infinite" if case["head"].get("inf") else ""))
    if case["n"] is not None and res.get("end") == "exhausted" and not has_isrc(case["stages"], infinite_only=True):
        # sanity of the oracle's reference computation: on this tree it predicts the recorded trace exactly
        (c0, rv, rcf), _ = reference(case)
        exact = [[v[0], v[1], c] for v, c in rv] == res["r"] and rcf == res["clock"]
        labels.append("reference=" + ("exact" if exact else "differs"))
    for st in case["stages"]:
        t = st["t"]
        if t == "map":
            labels.append("el:" + st.get("impl", "callable"))
        elif t == "slice":
            a, b, s = (None if st.get("form", 3) == 1 else st["start"]), st["stop"], st["step"]
            k = lambda v: "N" if v is None else ("-" if v < 0 else "+")
            labels.append("el:slice:" + k(a) + k(b))
        elif t == "split":
            labels.append("el:split")
            if '"cache"' in json.dumps(st):
                labels.append("split:cache" + (":demoted" if eff_bufsize(st) is None and st["bufsize"] is not None else ""))
            if any(x.get("t") == "split" for b in st["branches"] for x in b.get("stages", [])):
                labels.append("split:nested")
            for b in st["branches"]:
                labels.append("branch:" + b["k"] + (":explicit" if b.get("explicit") else "") +
                              (":infinite" if b["k"] == "isrc" and b["m"] is None else ""))
        else:
            labels.append("el:" + t)
    return sorted(set(labels))


def signature(case, failure):
    return describe(case)


def shrink(case):
    n = case["n"]
    stages = case["stages"]
    for i in range(len(stages)):
        yield dict(case, stages=stages[:i] + stages[i + 1:])
    if case.get("head"):
        hd = case["head"]
        for i, part in enumerate(hd["parts"]):
            h2 = dict(hd, parts=hd["parts"][:i] + hd["parts"][i + 1:])
            yield dict(case, head=h2, n=None if hd.get("inf") else sum(q["n"] for q in h2["parts"]))
            if part["n"] > 0:
                h2 = dict(hd, parts=hd["parts"][:i] + [dict(part, n=part["n"] - 1)] + hd["parts"][i + 1:])
                yield dict(case, head=h2, n=None if hd.get("inf") else sum(q["n"] for q in h2["parts"]))
    elif n is not None and n > 0:
        yield dict(case, n=n - 1, ks=[k for k in case["ks"] if k <= n])
        if n > 4:
            yield dict(case, n=n // 2, ks=[k for k in case["ks"] if k <= n // 2 + 1])
    if len(case["ks"]) > 1:
        for k in case["ks"]:
            yield dict(case, ks=[k])
    if case["ks"]:
        yield dict(case, ks=[])
    for i, st in enumerate(stages):
        if st["t"] == "split":
            for j in range(len(st["branches"])):
                if len(st["branches"]) > 1:
                    yield dict(case, stages=stages[:i] + [dict(st, branches=st["branches"][:j] + st["branches"][j + 1:])] + stages[i + 1:])
        if st["t"] == "runif" and st["inner"]:
            yield dict(case, stages=stages[:i] + [dict(st, inner=st["inner"][1:])] + stages[i + 1:])


# ---- MANIFEST texts ------------------------------------------------------------------------
RULE = ("quick and thorough: fixed cases (documented examples; negative Slice over long flows; Split with a "
        "fill/compute branch that stops, over finite and infinite inputs), every single Slice with start, stop in "
        "{None,-3..3}, step in {None,1,2} over short flows, every ordered pair of an 18-element palette of streaming "
        "elements over finite and infinite inputs, and seeded random pipelines (0..4 elements: callables, Variable, "
        "Print, Context, UpdateContext, MakeFilename, Filter, Slice, Count, RunIf (also with Count inside, also given a "
        "Selector and a Sequence), Split with sequence, fill/compute (tuple or explicit FillComputeSeq, FillInto(Count) "
        "before the fill/compute element) and Source branches, a nested Split (bufsize None/1/2/1000) or a Cache inside a sequence-type branch, bufsize 1..5, 1000, None; 6000 quick / 80000 thorough; 30% of them run as Source(first, *elements)() with a callable or a one-pass iterator object as first element), each with a long run and runs for consumer stop points "
        "(quick: 3 per case, thorough: every k = 0..n+1). Where the flow comes from (adversary round): enumerated small scopes "
        "of Source(Chain(it1, ..), *els)() and Source(Split([Source(it1), ..]), *els)() with 0..3 instrumented iterables "
        "(one-pass generators, containers with a length; optionally an infinite last one, optionally something after it), "
        "Source(CountFrom(0), *els)() with an instrumented start value, and Split with 1..2 Sources that have instrumented "
        "flows of their own (0, 1, 3 values or infinite; callable or iterator object; with or without a callable after it) "
        "at every position among sequence / fill-compute / fill-request branches, bufsize 1, 2, None, followed by nothing "
        "or a Slice, over empty, finite and infinite inputs; the same heads (19% of the cases) and Source branches (8% of "
        "the branches) in the random pipelines; 6% of the Slices spelled ISlice. All instrumented generators of a case "
        "advance one clock. Work demanded inside the pipeline (seed round K/L, demand_cases: 2363 quick / 7501 thorough): "
        "RunIf whose sequence expands a selected value into a group of results (Split of an optional callable and a "
        "Source with an instrumented flow of 0..3 or infinitely many values, optional callable after it; selector all / "
        "even / none; bufsize 1, 2, None; RunIf given callables or a Selector and a Sequence) after nothing / Filter / Count "
        "/ a callable and before 9 tails (nothing, Slice(1..5), callable+Slice, Count, negative Slice, stepped Slice), over "
        "0..3 and infinitely many input values, consumer stop points inside every group; Split of 1..4 Sources used "
        "through __call__ whose first elements are functions / callable objects that work when called (all, every second, "
        "all but the first; an infinite last one; Sources placed after an infinite one). "
        "Non-trivial: at least one element and one result.")
TRUSTED = [
    "Lean 4.33.0 kernel; axioms limited to propext, Classical.choice, Quot.sound (audited by #print axioms on every run)",
    "hand transcription of the run methods (Run._call_run, Filter.run, RunIf.run, Slice.run/itertools.islice, "
    "Slice._run_negative_islice, Count.run, Split.run and the bufsize rule of Split.__init__, Sequence.run, "
    "Source.__call__; Chain.__call__ = Split.__call__, CountFrom.__call__, and the loop `for val in seq(): yield val` "
    "of Split.run over a Source, in LenaModel/Model/C02Src.lean) into LenaModel/Model/C02.lean as generators with "
    "explicit state, validated by this "
    "correspondence check (event traces of the real code equal the model's, for the long run, for up to three "
    "consumer stop points per case and for a second run of the same pipeline object)",
    "the list semantics of inner sequences (Model/C02.lean: iRun/iRunEl, total) and of the harness's branch elements "
    "(fcOps, frOps, srcOps, fillChain), which no theorem characterises further: validated by the correspondence only",
    "the JSON decoders of drivers/C02.lean (partial defs: they only parse descriptors into model terms) and the "
    "encoders of harness/props/c02.py",
    "CPython's generator protocol (a finished generator keeps raising StopIteration without running code), "
    "itertools.islice (CPython 3.12 islice_next) and collections.deque as transcribed; CPython reference counting as "
    "the meaning of 'alive' in the weak-reference oracle",
]
ASSUMPTIONS = [
    "the input is a generator or generator-like iterator (sticky end); only pulls from the instrumented input and "
    "values handed to the consumer are observed: 'does no work' is checked as 'pulls nothing', calls of user "
    "callables and element state are not observed",
    "inside a block of Split and inside RunIf the inner sequence is modelled by its list semantics, evaluated at once: "
    "an edit that makes the real inner evaluation eager (list(seq.run(buf))) changes no pull from the input and is "
    "accepted; generated inner sequences never have a Slice after a Count-bearing element (there the lazily "
    "evaluated real Count would see fewer values than the eager model)",
    "a Cache is modelled without a cache file (the flow passes through); a nested Split inside a branch has stateless "
    "sequence-type branches only and is modelled by its list semantics",
    "values are observed through their integer datum and integer-valued top-level context entries; Print, Context, "
    "UpdateContext, MakeFilename, Cache are the identity on that projection",
    "object lifetime (weak references) is checked on the real code only; the model proves the sizes of the buffers "
    "(Stage.cap = the harness's table, compared on every case; cap_sound): |index| for a negative Slice, 1 for Count, "
    "3*bufsize for Split - the blocks bound to orig_buf and to buf (the same list while a sequence is active, so "
    "2*bufsize then) and the block being read; the statement's 'bufsize' is the unprocessed part (split_buffer_bound). "
    "The oracle allows cap + 3..5 for frame locals (measured excess <= 4 on 120 000 pipelines); deep copies of a "
    "block made for non-last branches (copy_buf) are not tracked",
    "copy_buf=False is generated only for pipelines without a Count (otherwise context dictionaries shared between "
    "branches make counters visible elsewhere: C04's subject)",
    "judgements: (1) Split.run reports its end only at the end of its input, also when every branch has stopped - over "
    "an infinite input a consumer asking for more results than exist never gets StopIteration (the statement bounds "
    "pulls when the k-th result is taken); (2) Slice(start, stop) with start >= stop >= 0 pulls start values "
    "(itertools.islice); both are transcribed and accepted, see Props/C02.lean",
    "fill/request branches use the harness's BlockSum element (fill adds, request yields and clears); the FillRequest "
    "adapter itself is C16's subject; RunIf as a fill-into element (FillInto._run_fill_into) is not generated",
    "re-use: a second run of one pipeline object is generated for pipelines of stateless elements only (no Count, no "
    "fill/compute or fill/request branch, no Cache, no Source with an instrumented flow)",
    "a Split with instrumented Sources among its sequences is modelled as splitG (Model/C02.lean) with a marker value "
    "in place of each such Source, followed by spliceG (Model/C02Src.lean), which iterates the Source where the marker "
    "arrives; such a Source has no elements after its first one except at most one plain callable; inside a nested "
    "Split no Source is generated",
    "the iterables given to Chain (and the Sources of a Split used as a Source) are instrumented generators or "
    "containers whose __iter__ makes one: every one of them ticks the clock of the case, also when it finds itself "
    "exhausted; plain lists are only placed after an infinite iterable (never reached); CountFrom is observed through "
    "the additions itertools.count performs on an instrumented start value (one per value handed out)",
    "judgements of the adversary round: candidates 1 (Split.run materialises a Source branch), 2 (Chain.__call__ "
    "materialises one-pass iterables) and 3 (Slice(start, -m) keeps the skipped values alive) all violate the "
    "statement inside its quantifier (a Slice(n) after an infinite Source must terminate; only |index| values are kept "
    "alive) - none was judged outside; RunningChunkBy, Reverse, End, StoreFilled (same files) are not among the "
    "elements the quantifier lists and are not exercised",
    "seed round K/L, judgements: C02-K (RunIf.run collects list(seq.run([val])) before yielding) violates the statement "
    "inside its quantifier wherever the group a selected value is expanded into takes pulls from an input flow of the "
    "pipeline (a Source in a Split in the RunIf sequence - RunIf, Split and their Sources are in the quantifier): "
    "'after its consumer has taken k results it has pulled from its input only the shortest prefix that determines "
    "those k results' (a finite group is pulled to its end before its first result is handed over) and 'so that a "
    "Slice(n) placed after an infinite Source terminates' (an unbounded group). Calls of user callables for results "
    "nobody took, with no pull from any input involved (the seed's first demo: a generator-function expander, which "
    "is not an element the quantifier lists, and a call counter), are NOT what the statement bounds (it bounds work at "
    "build/run() time and pulls from the input) - the oracle does not count calls. C02-L (Split.__call__ starts every "
    "Source at the first next()) violates the same two sentences: calling the first element of a Source is the first "
    "thing the pipeline takes from that input, and it is taken before the results so far need it, also behind an "
    "infinite Source. Observed through first elements that work when called (plain functions / callable objects that "
    "tick the clock once and return an instrumented generator). A later Source ending in a FillCompute element (the "
    "seed's second demo) is outside the element list of the quantifier and not generated",
    "RunIf with an expanding sequence (runifx cases): the Lean model of RunIf evaluates seq.run([val]) at once (its "
    "documented abstraction), so for these cases the correspondence compares the VALUES only (list semantics, op den); "
    "the stamps are checked by the oracle's reference computation alone - a Lean theorem about laziness inside a "
    "group is missing (open)",
    "a first element that works when called is represented in the Lean model by an empty iterable placed before its "
    "flow (one tick when it is reached, nothing before): chain_produces / sources_lazy / sources_lazy_infinite then "
    "cover it unchanged",
]
LEVEL_TEXT = ("Lean 4 theorems about pull-based generator models of the streaming elements, for all pipelines, all finite "
              "and infinite inputs and all consumer stop points (no bound): the consumer's trace and pull count equal a "
              "stamped-flow specification composed per stage (pipeline_lazy, pipeline_lazy_infinite), the pulled prefix "
              "determines the results (pipeline_prefix_determined) and for exact elements no shorter one does "
              "(exact_pipeline_minimal); buffer sizes of negative Slice, Count and Split hold in every reachable state; "
              "the same for flows that come from a chain of iterables and for Sources inside a Split, finite or infinite "
              "(sources_lazy, sources_lazy_infinite: one pull per value handed downstream, nothing in advance). "
              "Tied to /repo by an event-trace correspondence check and by an oracle on the real code (reference pull "
              "bounds, an extensional cut-input probe, stop points, re-use, weak-reference liveness).")
LEVEL_NOTE = ("Trusted: Lean kernel (+ propext, Classical.choice, Quot.sound), the hand transcription validated by the "
              "correspondence run, the list semantics of inner sequences and harness branch elements, CPython "
              "generator/islice/deque/refcount semantics, the JSON protocol. Inner laziness (inside a Split block or a "
              "RunIf) and calls of user callables are not observed; two behaviours are recorded as judgements.")
TECHNIQUE = "Lean 4 proof over hand-written generator model + event-trace correspondence check"
DESIGN_REF = "DESIGN.md section 3, C02"
