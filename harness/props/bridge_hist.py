"""Bridge (histogram bin search, fill and arithmetic) — executable cross-check of LenaModel/Bridge/Hist.lean.

The same Python functions of lena/structures/hist_functions.py and lena/structures/histogram.py are transcribed
several times (Lena.C06 over any ordered type, Lena.C09 one-dimensional over Int, Lena.C12 over Rat, Lena.C11's
histogram constructor / bin walk / cell edges).  `LenaModel/Bridge/Hist.lean` proves that the transcriptions agree
under explicit translation maps.  This module runs the REAL lena function on random inputs and asks the driver
`drivers/BridgeHist.lean` to evaluate ALL the transcriptions on the translated input; `compare` demands that every
one of them equals the real result (on the common domain stated in the bridge file; outside it the expected
`unmodelled` answer is demanded).

Numbers are Python ints on both sides (C12's rationals are the embedded integers, weights are ints), so results are
compared with ==.  `./check BRIDGE_HIST --tier quick` runs this module; PID is "C06" (the property whose check will
carry the bridge theorems), the evidence goes to evidence/bridge_hist.json (EVIDENCE_NAME).
"""
import copy

from harness.common import exc_name

PID = "C06"
EVIDENCE_NAME = "bridge_hist"
TITLE = "Bridge: the independent Lean transcriptions of histogram search / fill / arithmetic agree with each other and with lena"
LEAN_MODULES = ["LenaModel.Bridge.Hist"]
LEAN_SOURCES = ["LenaModel/Bridge/Hist.lean"]
DRIVER = "drivers/BridgeHist.lean"
THEOREMS = [
    # 1. naturality of C06's transcriptions under order embeddings (Int -> Rat, ranks)
    "Lena.Bridge.Hist.checkEdgesIncreasing_natural",
    "Lena.Bridge.Hist.bin1dLoop_natural",
    "Lena.Bridge.Hist.bin1d_natural",
    "Lena.Bridge.Hist.getBinOnValue_natural",
    "Lena.Bridge.Hist.initBins_natural",
    "Lena.Bridge.Hist.mkHist_natural",
    "Lena.Bridge.Hist.fillWalk_natural",
    "Lena.Bridge.Hist.fill_natural",
    "Lena.Bridge.Hist.intCast_ordEmb",
    # 2. C09 <-> C06
    "Lena.Bridge.Hist.err09to06_ofLenaErr",
    "Lena.Bridge.Hist.increasing_09_06",
    "Lena.Bridge.Hist.checkEdges_09_06",
    "Lena.Bridge.Hist.mkHist_09_06",
    "Lena.Bridge.Hist.mkHist_09_error",
    "Lena.Bridge.Hist.binIndex_eq_countLE",
    "Lena.Bridge.Hist.bin1d_09_06",
    "Lena.Bridge.Hist.bin1d_interp_09_06",
    "Lena.Bridge.Hist.getBinOnValue_09_06",
    "Lena.Bridge.Hist.fillWalk_lift",
    "Lena.Bridge.Hist.fill_09_06",
    "Lena.Bridge.Hist.histogramNew_09_06",
    "Lena.Bridge.Hist.histogramFill_09_06",
    "Lena.Bridge.Hist.histogramFillAll_09_06",
    "Lena.Bridge.Hist.histogramReset_09_06",
    "Lena.Bridge.Hist.c06_element_counts",
    "Lena.Bridge.Hist.c09_binIndex_underflow",
    "Lena.Bridge.Hist.c09_outOfRange_iff",
    "Lena.Bridge.Hist.c09_conservation_via_c06",
    # 3. C12 <-> C06
    "Lena.Bridge.Hist.increasingPairs_12_06",
    "Lena.Bridge.Hist.checkEdgesIncreasing_12_06",
    "Lena.Bridge.Hist.mkHist_12_06",
    "Lena.Bridge.Hist.mkHist_12_nested1",
    "Lena.Bridge.Hist.hist06to12_12to06",
    "Lena.Bridge.Hist.hist12to06_06to12",
    "Lena.Bridge.Hist.wf_06_12",
    "Lena.Bridge.Hist.valid_06_12",
    "Lena.Bridge.Hist.sumQ_values_eq_total",
    "Lena.Bridge.Hist.getNevents_06_12",
    "Lena.Bridge.Hist.c12_nevents_after_fills",
    "Lena.Bridge.Hist.total_zipWith",
    "Lena.Bridge.Hist.c06_add_defined_and_conserves",
    # 4. C09 <-> C12
    "Lena.Bridge.Hist.hist09to12_eq",
    "Lena.Bridge.Hist.mkHist_09_12",
    "Lena.Bridge.Hist.getNevents_09_12",
    "Lena.Bridge.Hist.c12_nevents_of_c09_flow",
    "Lena.Bridge.Hist.wf_09_12",
    "Lena.Bridge.Hist.c09_hist_set_nevents",
    # 5. C09's two transcriptions of the element
    "Lena.Bridge.Hist.histogramNd_new",
    "Lena.Bridge.Hist.histogramNd_fill",
    "Lena.Bridge.Hist.histogramNd_reset",
    # 6. C11 <-> C06
    "Lena.Bridge.Hist.mkHistogram_11_06",
    "Lena.Bridge.Hist.fillWalk_11_06",
    "Lena.Bridge.Hist.fillWalk_11_06_regular",
    "Lena.Bridge.Hist.sibFill_11_06",
    # 7. C11 <-> C12
    "Lena.Bridge.Hist.cellEdges_11_12",
    "Lena.Bridge.Hist.binIndices_11_12",
    "Lena.Bridge.Hist.iterBinsWithEdges_11_12",
]
TRUSTED = [
    "Lean 4.33.0 kernel; axioms limited to propext, Classical.choice, Quot.sound (audited by #print axioms on every run)",
    "the translation maps of LenaModel/Bridge/Hist.lean, re-implemented executably in drivers/BridgeHist.lean "
    "(edgesQ, edges12, coordQ, binsQ, liftBins, hist06to12) and validated by this cross-check",
    "JSON line protocol encoders (harness/props/bridge_hist.py, drivers/BridgeHist.lean); all numbers are integers",
]
ASSUMPTIONS = [
    "integer edges, coordinates, contents and weights (floats are the subject of the C06 and C12 checks); the bridge "
    "theorems themselves are stated for arbitrary ordered types / rationals",
    "the search is compared on strictly increasing non-empty arrays only (the common domain of C06's loop and C09's closed form)",
]
RULE = ("cases: (br_mk) histogram(edges, bins, initial_value) for flat and nested edges of 1-3 axes, valid and invalid "
        "(empty, one edge, repeated or decreasing edges, an empty axis), bins absent / of the right shape / of a wrong "
        "length / a number, evaluated by C06 over Int, C06 over Rat, C12, C09 (flat) and C11 (bins given); (br_bin) "
        "get_bin_on_value_1d on strictly increasing arrays of 1..14 ints at every edge, its neighbours, midpoints and "
        "far values: C06's loop with three guess functions, over Rat, and C09's closed form; (br_fill1) one-dimensional "
        "histogram structure and Histogram element (bins / make_bins / initial_value) filled with a flow of ints: C06 "
        "structure and element, C09 machine, C09 n-dimensional machine, get_nevents through C12; (br_fillnd) 1-3 "
        "dimensional histogram filled with weighted tuples (also wrong forms), after every fill: C06 over Int and Rat, "
        "C11's SplitIntoBins walk with an adding analysis, get_nevents and histogram.add through C12; (br_cells) "
        "iter_bins_with_edges through C12 and C11. Non-trivial: the real call returned and (for fills) at least one "
        "value landed in a cell.")
CASE_TIMEOUT = 10
LEVEL_TEXT = ("Lean 4 theorems relating the independent transcriptions (C06, C09, C11, C12) of the histogram code to each "
              "other for all inputs, plus an executable cross-check of all transcriptions against the real code")
LEVEL_NOTE = ("Trusted: Lean kernel (+ propext, Classical.choice, Quot.sound); the translation maps as re-implemented in "
              "the driver; integer-valued cases only in the executable part.")
TECHNIQUE = "Lean 4 agreement (bridge) theorems between hand-written models + sampled cross-check of all models against lena"
DESIGN_REF = "DESIGN.md section 9 (bridges); LenaModel/Bridge/Hist.lean header"


# ----------------------------------------------------------------------------------------
# generators

def _axis(rng, n):
    """n strictly increasing ints"""
    start = rng.randint(-20, 20)
    out = [start]
    for _ in range(n - 1):
        out.append(out[-1] + rng.choice([1, 1, 2, 3, 5, 10, 100]))
    return out


def _bad_axis(rng):
    k = rng.randrange(5)
    if k == 0:
        return []
    if k == 1:
        return [rng.randint(-5, 5)]
    a = _axis(rng, rng.randint(2, 6))
    i = rng.randrange(len(a) - 1)
    if k == 2:
        a[i + 1] = a[i]                       # repeated edge
    elif k == 3:
        a[i], a[i + 1] = a[i + 1], a[i]       # decreasing pair
    else:
        a.reverse()
        if len(a) == 1:
            a = []
    return a


def _pool(rng, axis, extra=3):
    """coordinates around the edges of an axis"""
    out = []
    for e in axis:
        out += [e, e - 1, e + 1]
    for a, b in zip(axis, axis[1:]):
        out.append((a + b) // 2)
    if axis:
        out += [axis[0] - 1000, axis[-1] + 1000]
        lo, hi = min(axis), max(axis)
        out += [rng.randint(lo - 3, hi + 3) for _ in range(extra)]
    else:
        out += [0, 1]
    return out


def _full(shape, v):
    if not shape:
        return v
    return [_full(shape[1:], v) for _ in range(shape[0])]


def _rand_bins(rng, shape):
    if not shape:
        return rng.randint(-3, 9)
    return [_rand_bins(rng, shape[1:]) for _ in range(shape[0])]


def _edges(rng, valid=True, maxdim=3, maxlen=6):
    """(wire form, python form, axes)"""
    if rng.random() < 0.45:
        a = _axis(rng, rng.randint(2, maxlen)) if valid else _bad_axis(rng)
        return {"f": a}, a, [a]
    d = rng.randint(1, maxdim)
    axes = [_axis(rng, rng.randint(2, maxlen)) for _ in range(d)]
    if not valid:
        k = rng.randrange(3)
        if k == 0:
            axes = []
        else:
            axes[rng.randrange(d)] = _bad_axis(rng)
    return {"n": axes}, axes, axes


def gen_mk(rng):
    valid = rng.random() < 0.7
    wire, _, axes = _edges(rng, valid)
    shape = [max(len(a) - 1, 0) for a in axes]
    r = rng.random()
    if r < 0.35:
        bins = None
    elif r < 0.7:
        bins = _rand_bins(rng, shape) if shape else []
    elif r < 0.8:
        bins = rng.randint(0, 5)                                   # a number: len() raises TypeError
    elif r < 0.9:
        s2 = list(shape) if shape else [1]
        s2[0] = max(0, s2[0] + rng.choice([-1, 1, 2]))             # wrong outer length
        bins = _rand_bins(rng, s2)
    else:
        bins = _rand_bins(rng, [rng.randint(0, 3)])                # flat bins whatever the dimension
    return {"b": 1, "op": "br_mk", "edges": wire, "bins": bins, "init": rng.randint(-2, 5)}


def gen_bin(rng, tier):
    n = rng.randint(1, 14 if tier == "thorough" else 9)
    arr = _axis(rng, n)
    return [{"b": 1, "op": "br_bin", "arr": arr, "val": v} for v in sorted(set(_pool(rng, arr)))]


def gen_fill1(rng, tier):
    valid = rng.random() < 0.9
    es = _axis(rng, rng.randint(2, 8)) if valid else _bad_axis(rng)
    nb = max(len(es) - 1, 0)
    r = rng.random()
    bins = mk = None
    if r < 0.45:
        pass
    elif r < 0.65:
        bins = _rand_bins(rng, [nb])
    elif r < 0.8:
        mk = _rand_bins(rng, [nb])
    elif r < 0.9:
        bins = _rand_bins(rng, [max(0, nb + rng.choice([-1, 1]))])  # wrong length
    elif r < 0.95:
        mk = _rand_bins(rng, [max(0, nb + rng.choice([-1, 1]))])
    else:
        bins, mk = _rand_bins(rng, [nb]), _rand_bins(rng, [nb])    # both: LenaTypeError of the element
    pool = _pool(rng, es)
    vals = [rng.choice(pool) for _ in range(rng.randint(0, 30 if tier == "thorough" else 12))]
    return {"b": 1, "op": "br_fill1", "edges": es, "bins": bins, "mk": mk, "init": rng.randint(-2, 5), "vals": vals}


def gen_fillnd(rng, tier):
    wire, _, axes = _edges(rng, True, maxdim=3, maxlen=5)
    flat = "f" in wire
    pools = [_pool(rng, a, 2) for a in axes]
    fills = []
    for _ in range(rng.randint(0, 25 if tier == "thorough" else 10)):
        r = rng.random()
        xs = [rng.choice(p) for p in pools]
        if flat:
            c = {"s": xs[0]} if r < 0.93 else {"t": xs + ([0] if r < 0.97 else [])}
        elif r < 0.9:
            c = {"t": xs}
        elif r < 0.95:
            c = {"t": xs + [0]} if r < 0.93 else {"t": xs[:-1]}     # wrong number of components
        else:
            c = {"s": xs[0]}                                        # a number for nested edges
        fills.append({"c": c, "w": rng.choice([1, 1, 1, 2, 3, 5, -1, -2, 0, 7])})
    return {"b": 1, "op": "br_fillnd", "edges": wire, "init": rng.choice([0, 0, 0, 1, -1, 3]), "fills": fills,
            "aw": rng.choice([1, 1, 2, -1, 0, 3])}


def gen_cells(rng):
    wire, _, axes = _edges(rng, True, maxdim=3, maxlen=4)
    shape = [len(a) - 1 for a in axes]
    r = rng.random()
    if r < 0.7:
        bins = _rand_bins(rng, shape)
    elif r < 0.85:
        bins = _rand_bins(rng, shape + [2])                          # deeper than the edges: sub-arrays are yielded
    else:
        s2 = list(shape)
        s2[rng.randrange(len(s2))] += rng.choice([-1, 1])
        bins = _rand_bins(rng, [max(0, x) for x in s2])              # a wrong length
    return {"b": 1, "op": "br_cells", "edges": wire, "bins": bins}


def gen_cases(ctx):
    rng, tier = ctx.rng, ctx.tier
    big = tier == "thorough"
    for _ in range(6000 if big else 500):
        yield gen_mk(rng)
    for _ in range(4000 if big else 250):
        yield from gen_bin(rng, tier)
    for _ in range(15000 if big else 700):
        yield gen_fill1(rng, tier)
    for _ in range(15000 if big else 700):
        yield gen_fillnd(rng, tier)
    for _ in range(4000 if big else 300):
        yield gen_cells(rng)


# ----------------------------------------------------------------------------------------
# the real code

def _pyedges(wire):
    return copy.deepcopy(wire["f"] if "f" in wire else wire["n"])


def _coord(c):
    return c["s"] if "s" in c else list(c["t"])


def _state(h):
    return {"bins": copy.deepcopy(h.bins), "oor": h.n_out_of_range}


def run_impl(case):
    if not isinstance(case, dict) or case.get("b") != 1:
        return {"skip": True}            # a corpus case of the C06 check proper (same PID)
    import lena.structures as ls
    from lena.structures import hist_functions as hf
    op = case["op"]
    if op == "br_mk":
        try:
            h = ls.histogram(_pyedges(case["edges"]), copy.deepcopy(case["bins"]), case["init"])
        except Exception as e:
            return {"e": exc_name(e)}
        return _state(h)
    if op == "br_bin":
        try:
            return {"r": hf.get_bin_on_value_1d(case["val"], list(case["arr"]))}
        except Exception as e:
            return {"e": exc_name(e)}
    if op == "br_fill1":
        es, bins, mk, init = case["edges"], case["bins"], case["mk"], case["init"]
        eff = mk if mk is not None else bins
        out = {}
        try:
            h = ls.histogram(list(es), copy.deepcopy(eff), init)
            for v in case["vals"]:
                h.fill(v)
            out["struct"] = _state(h)
            out["nev"] = h.get_nevents(include_out_of_range=True)
        except Exception as e:
            out["struct"] = {"e": exc_name(e)}
            out["nev"] = None
        try:
            el = ls.Histogram(list(es), bins=copy.deepcopy(bins),
                              make_bins=(lambda: copy.deepcopy(mk)) if mk is not None else None, initial_value=init)
            for v in case["vals"]:
                el.fill(v)
            res = list(el.compute())
            hist = res[0][0]
            out["elem"] = _state(hist)
            out["elem_nev"] = hist.get_nevents(include_out_of_range=True)
        except Exception as e:
            out["elem"] = {"e": exc_name(e)}
            out["elem_nev"] = None
        return out
    if op == "br_fillnd":
        try:
            h = ls.histogram(_pyedges(case["edges"]), None, case["init"])
        except Exception as e:
            return {"init_e": exc_name(e)}
        steps, failed = [], False
        for f in case["fills"]:
            try:
                h.fill(_coord(f["c"]), f["w"])
            except Exception as e:
                steps.append({"e": exc_name(e)})
                failed = True
                break
            steps.append(_state(h))
        out = {"steps": steps, "final": None if failed else _state(h), "nev": None, "add": None}
        if not failed:
            out["nev"] = h.get_nevents(include_out_of_range=True)
            try:
                s = h.add(h, case["aw"])
                out["add"] = _state(s)
            except Exception as e:
                out["add"] = {"e": exc_name(e)}
        return out
    if op == "br_cells":
        try:
            r = list(hf.iter_bins_with_edges(copy.deepcopy(case["bins"]), _pyedges(case["edges"])))
            return {"r": [[copy.deepcopy(c), [list(p) for p in ed]] for c, ed in r]}
        except Exception as e:
            return {"e": exc_name(e)}
    return {"skip": True}


# ----------------------------------------------------------------------------------------
# the models

def model_requests(case):
    if not isinstance(case, dict) or case.get("b") != 1:
        return []
    return [{k: v for k, v in case.items() if k != "b"}]


def _single_nested(wire):
    return "n" in wire and len(wire["n"]) == 1


def _eq(name, got, want):
    if got != want:
        return f"{name}: model {_short(got)} != lena {_short(want)}"
    return None


def _short(o):
    s = repr(o)
    return s if len(s) < 300 else s[:300] + "..."


def compare(case, res, replies):
    if res.get("skip"):
        return None
    rep = replies[0]
    if "err" in rep:
        return "driver: " + rep["err"]
    op = case["op"]
    msgs = []
    if op == "br_mk":
        msgs.append(_eq("C06.mkHist", rep["c06"], res))
        msgs.append(_eq("C06.mkHist over Rat", rep["c06q"], res))
        if _single_nested(case["edges"]) and rep["c12"] == {"e": "unmodelled"}:
            pass          # outside the common domain: C12 does not model one nested axis (mkHist_12_nested1)
        else:
            msgs.append(_eq("C12.mkHist", rep["c12"], res))
        if rep["c09"] is not None:
            msgs.append(_eq("C09.mkHist", rep["c09"], res))
        if rep["c11"] is not None:
            want = {"bins": res["bins"]} if "bins" in res else res
            msgs.append(_eq("C11.mkHistogram", rep["c11"], want))
    elif op == "br_bin":
        want = res["r"] if "r" in res else res
        for k, nm in (("interp", "C06.bin1d interpGuess"), ("mid", "C06.bin1d bisection"), ("lo", "C06.bin1d ind_min"),
                      ("midq", "C06.bin1d over Rat"), ("c09", "C09.binIndex")):
            msgs.append(_eq(nm, rep[k], want))
    elif op == "br_fill1":
        both = case["bins"] is not None and case["mk"] is not None
        if not both:
            msgs.append(_eq("C06 mkHist+fillAll", rep["c06"], res["struct"]))
            msgs.append(_eq("C06 HistEl", rep["c06el"], res["elem"]))
            msgs.append(_eq("get_nevents via C12 (C06 state)", rep["nev06"], res["nev"]))
        msgs.append(_eq("C09 Histogram", rep["c09"], res["elem"]))
        msgs.append(_eq("C09 HistogramNd", rep["c09nd"], res["elem"]))
        msgs.append(_eq("get_nevents via C12 (C09 state)", rep["nev09"], res["elem_nev"]))
    elif op == "br_fillnd":
        if "init_e" in res:
            return _eq("C06.mkHist", rep.get("c06"), {"e": res["init_e"]})
        want_final = res["final"] if res["final"] is not None else res["steps"][-1]
        msgs.append(_eq("C06 fills", rep["c06"], want_final))
        msgs.append(_eq("C06 fills over Rat", rep["c06q"], want_final))
        msgs.append(_eq("C06 steps", rep["steps"], res["steps"]))
        for i, (c11, st) in enumerate(zip(rep["c11"], res["steps"])):
            if c11 == {"e": "unmodelled"}:
                continue
            want = {"bins": st["bins"]} if "bins" in st else st
            m = _eq(f"C11 SIB.fill walk at fill {i}", c11, want)
            if m:
                msgs.append(m)
                break
        if len(rep["c11"]) != len(res["steps"]):
            msgs.append(f"C11 walk: {len(rep['c11'])} steps, lena {len(res['steps'])}")
        msgs.append(_eq("get_nevents via C12", rep["nev"], res["nev"]))
        if res["add"] is not None:
            if _single_nested(case["edges"]) and rep["add"] == {"e": "unmodelled"}:
                pass      # C12.add ends in C12.mkHist, which does not model one nested axis
            else:
                msgs.append(_eq("C12.add", rep["add"], res["add"]))
    elif op == "br_cells":
        want = res["r"] if "r" in res else res
        msgs.append(_eq("C12.iterBinsWithEdges", rep["c12"], want))
        c11 = rep["c11"]
        if c11 != {"e": "unmodelled"}:
            msgs.append(_eq("C11 binWithEdges over binIndices", c11, want))
    msgs = [m for m in msgs if m]
    return "; ".join(msgs[:3]) if msgs else None


# ----------------------------------------------------------------------------------------
# direct oracle (independent of the models): the two statements of C06 that the bridged functions carry

def _total(b):
    return sum(_total(x) for x in b) if isinstance(b, list) else b


def oracle(case, res):
    if res.get("skip"):
        return None
    op = case["op"]
    if op == "br_bin" and "r" in res:
        want = sum(1 for e in case["arr"] if e <= case["val"]) - 1
        if res["r"] != want:
            return f"get_bin_on_value_1d({case['val']}, {case['arr']}) = {res['r']}, edges not greater minus one = {want}"
    if op == "br_fillnd" and res.get("final") is not None:
        axes = [case["edges"]["f"]] if "f" in case["edges"] else case["edges"]["n"]
        ncells = 1
        for a in axes:
            ncells *= len(a) - 1
        want = ncells * case["init"] + sum(f["w"] for f in case["fills"])
        got = _total(res["final"]["bins"]) + res["final"]["oor"]
        if got != want:
            return f"bins + n_out_of_range = {got}, initial content + filled weight = {want}"
    return None


def nontrivial(case, res):
    if res.get("skip"):
        return False
    op = case["op"]
    if op == "br_fillnd":
        return res.get("final") is not None and any("bins" in s for s in res["steps"]) and \
            _total(res["final"]["bins"]) != 0
    if op == "br_fill1":
        return "bins" in res["elem"] and len(case["vals"]) > 0
    return "e" not in res


def classify(case, res):
    if res.get("skip"):
        return ["foreign-corpus-case"]
    op = case["op"]
    labels = [op]
    if op == "br_mk":
        labels.append("mk:" + (res["e"] if "e" in res else "ok"))
        labels.append("mk:" + ("flat" if "f" in case["edges"] else f"nested{len(case['edges']['n'])}"))
    elif op == "br_bin":
        r = res.get("r")
        labels.append("bin:under" if r == -1 else "bin:over" if r == len(case["arr"]) - 1 else "bin:inner")
    elif op == "br_fill1":
        labels.append("fill1:" + (res["elem"]["e"] if "e" in res["elem"] else "ok"))
    elif op == "br_fillnd":
        last = res["steps"][-1] if res.get("steps") else {}
        labels.append("fillnd:" + (last["e"] if "e" in last else "ok"))
        if "n" in case["edges"]:
            labels.append(f"fillnd:dim{len(case['edges']['n'])}")
    elif op == "br_cells":
        labels.append("cells:" + (res["e"] if "e" in res else "ok"))
    return labels


def signature(case, failure):
    return f"{case.get('op')}:{failure[:60]}"
