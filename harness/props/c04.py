"""C04 — context non-interference between Split branches and across accumulators.

Real code: lena.core.Split (run / _fill / _compute / _request), lena.flow.Zip._fill, the accumulators of
lena.math, lena.flow, lena.structures, and the in-place mutating elements Variable, UpdateContext,
MakeFilename, Count, Slice plus user mutators defined here.
Model: lean/LenaModel/Model/C04.lean (object identities as tokens on a shared heap), theorems
lean/LenaModel/Props/C04.lean.

Correspondence: the real run is observed as an *object graph*: every value of the input flow (as the caller
still holds it after the run) and every yielded value is rendered with the identity classes (`id()`) of its
root mutable objects (context dictionary, data list), numbered by first appearance, and with the final
contents of those objects; the model must predict exactly that rendering.  The assumption of the model that
objects nested inside a context belong to one context only is checked on the real `id()` graph.

Oracle (the property's own statement, independent of the model):
 * Split/Zip cases with copy_buf=True and an alias-free flow: the values yielded on behalf of every branch
   (contents at the moment of the yield and at the end of the run) equal those of a fresh, identical branch
   run alone — `Split([branch], bufsize).run(deep copy of the flow)`, resp. filled value by value — and the
   values of different branches share no mutable object;
 * accumulator histories: no mutable object reachable from a yielded context is reachable from the context
   of a value filled before, from a context yielded earlier or from another value of the same compute();
   after an aggressive in-place mutation of everything yielded, the filled values are unchanged and every
   later result equals that of a twin accumulator whose results are never touched.
   The FillRequest adapter has no model (its request() yields values computed during an earlier fill): its cases
   are judged by this oracle only.
The oracle compares values, exceptions and the id() graph of the mutable objects (dict, list, deque, bytearray, set and
their subclasses, the user objects of this module, through tuples / frozensets / items / attributes); it does not
compare private attributes of the elements, nor the classes of objects (values are rendered by content).
A Split or a Zip may itself be a branch (given directly, not inside a tuple or a sequence object): kind "nest".  The values
it yields are values of that branch; they are compared with those of an identical nested object alone.  The sequences of
a nested Split end with the Mark of the outer branch; a nested Zip yields merged values, recorded by wrapping the public
compute / request attribute of the Zip instance (as Zip.__init__ sets it).  A nested Split of one common type is modelled
(Model/C04Nest.lean, one level); a nested Zip, a nested Split of mixed sequences and deeper nesting have no model run.
The harness drives lena through its public interface only (Split(...).run / fill / compute / request, Zip(...).fill,
the public sequence classes); the one private name it reads, defensively, is the list in which a Zip keeps the
sequences it made of plain tuples (_zip_seqs; see ASSUMPTIONS).

Kinds of objects (adversary round): data and contexts are not only dict / list / tuple / scalars.  A case names, as
{"o": [kind, content]}, user objects with mutable attributes (instance dictionary or slots; hashable by identity),
dict subclasses (lena.context.Context, OrderedDict, a user class), list subclasses, deques, bytearrays, sets and
frozensets of user objects, tuples that hold mutable objects — as the data of a flow value, nested in data, as a
context and nested in contexts.  The model is given the contents without the classes (`strip`): for it an object is an
identity and a content.  The user mutators `touch` / `touchc` change every mutable object reachable from the data /
the context in place (a shallow or partial copy handed to another branch, or yielded by an accumulator, then shows).
lena.structures.NumpyHistogram is exercised with a pure-Python stand-in for numpy.histogram when numpy is not installed.
"""
import bisect
import collections
import copy
import itertools
import numbers
import sys
import types
import warnings
from decimal import Decimal
from fractions import Fraction

from harness.common import exc_name

PID = "C04"
TITLE = "Context non-interference between Split branches and across accumulators"
LEAN_MODULES = ["LenaModel.Props.C04", "LenaModel.Props.C04Nest"]
LEAN_SOURCES = ["LenaModel/Model/C04.lean", "LenaModel/Model/C04Spec.lean", "LenaModel/Model/C04Nest.lean", "LenaModel/Lemmas/C04.lean", "LenaModel/Lemmas/C04Alone.lean",
                "LenaModel/Lemmas/C04Local.lean", "LenaModel/Lemmas/C04Fill.lean", "LenaModel/Lemmas/C04Purpose.lean",
                "LenaModel/Lemmas/C04Hist.lean", "LenaModel/Props/C04.lean", "LenaModel/Props/C04Nest.lean"]
DRIVER = "drivers/C04.lean"
# the theorems that carry the property
THEOREMS = [
    # sentence 1 (a): what the branches are handed
    "Lena.C04.split_tokens_disjoint",
    "Lena.C04.fill_tokens_disjoint",
    "Lena.C04.zip_tokens_disjoint",
    # sentence 1 (b): every branch computes what it computes alone (run; fill + compute/request; Zip)
    "Lena.C04.branch_alone_equiv",
    "Lena.C04.split_fill_alone_equiv",
    "Lena.C04.zip_fill_alone_equiv",
    "Lena.C04.harness_branches_local",
    "Lena.C04.harness_branch_alone_equiv",
    "Lena.C04.harness_no_exception",
    # a Split nested directly as a branch: whatever copy_buf, its last sequence works on the objects it was handed
    # (so the Split around it must copy for it as for any other branch)
    "Lena.C04.splitFill_last_gets_original",
    # sentence 2: every yielded context is new (all histories)
    "Lena.C04.acc_yield_fresh",
    "Lena.C04.accOps_freshYield",
    "Lena.C04.fcseq_freshYield",
    "Lena.C04.zip_compute_fresh",
    "Lena.C04.split_compute_fresh",
    "Lena.C04.split_hist_fresh",
    # sentence 2 for NumpyHistogram (fill/request, reset=False / reset=True) and what its request() does to the heap
    "Lena.C04.numpyHist_yield_fresh",
    "Lena.C04.numpyHist_reset_yield_fresh",
    "Lena.C04.numpyHist_request_spec",
    # sentence 2, purpose clause: downstream in-place updates change no later result
    "Lena.C04.accOps_tidy_instance",
    "Lena.C04.downstream_updates_harmless",
    "Lena.C04.downstream_updates_harmless_gen",
]
# true by definition of the model / glue / encoding lemmas: audited, not counted as obligations of the property.
# The first five document the aliasing that is the *specified* result of StoreFilled / GroupBy / Split([]).
AUX_THEOREMS = [
    "Lena.C04.store_yields_filled",
    "Lena.C04.store_yields_what_was_filled",
    "Lena.C04.storeGroup_yields_what_was_filled",
    "Lena.C04.groupBy_yields_internal",
    "Lena.C04.empty_split_yields_flow",
    "Lena.C04.mkBranches_spec",
    "Lena.C04.splitInit_inv",
    "Lena.C04.outputs_append",
    "Lena.C04.outputs_outsEv",
    "Lena.C04.schedOKb_iff",
    "Lena.C04.fillOKb_iff",
    "Lena.C04.listEqb_iff",
    "Lena.C04.fillOne_false_evs",
    "Lena.C04.splitFill_first_flag",
    "Lena.C04.withReset_req",
    "Lena.C04.withReset_upd",
    # the user mutators touch / touchc are visible on every container they reach
    "Lena.C04.touchList_length",
    "Lena.C04.touch_visible_list",
    "Lena.C04.lookup_dictSet_self",
    "Lena.C04.touch_marks_dict",
]
TRUSTED = [
    "Lean 4.33.0 kernel; axioms limited to propext, Classical.choice, Quot.sound (audited by #print axioms on every run)",
    "hand transcription of Split.run/_fill/_compute/_request (also of a Split used as a branch through its common-type "
    "methods, with its own copy_buf: Model/C04Nest.lean), Zip._fill/_compute, the accumulators' fill/compute (including "
    "the loops of Mean.compute, Vectorize.compute, SplitIntoBins.compute that copy the context once per value) and the "
    "mutating elements into LenaModel/Model/C04.lean at the level of object identity, validated by this correspondence "
    "check against the id() graph of the real run",
    "copy.deepcopy as transcribed (new objects, same contents, one memo per call); a context is ONE cell of the model, so "
    "deep versus shallow copying of what is nested in a context is not expressible in the model: that nested objects "
    "are never shared rests on the harness alone (nested_sharing / mutable_ids on every real run)",
    "mutable_ids follows dict, list, deque, bytearray, set (and subclasses), tuple, frozenset and the attributes of the "
    "user objects of the harness (instance dictionary or slots); it does not look into other objects (the histogram / "
    "Graph objects that accumulators yield as data are opaque; dictionary keys are strings)",
    "the class of an object is abstracted: the model and the renderings know an object by identity and content (a "
    "dict subclass or a user object is the dictionary of its items / attributes, a list-like object a list, a set a "
    "tuple of its members); Python's == on the generated containers does not look at the class either",
    "numpy is not installed in /venv: lena.structures.NumpyHistogram is run with a stand-in module whose only function "
    "is a pure-Python numpy.histogram(data, bins=edges) (NumpyHistogram calls nothing else); with a real numpy the "
    "same cases run on it",
    "the driver's tests schedOKb / fillOKb decide SchedOK / FillOK for an equality test of skeletons that decides equality "
    "(schedOKb_iff, fillOKb_iff); the driver takes equality of the printed skeletons",
    "JSON line protocol encoders (harness/props/c04.py, drivers/C04.lean)",
]
ASSUMPTIONS = [
    "locality of mutation: Python code can only read and mutate objects reachable from references it holds "
    "(hypothesis `Local` of branch_alone_equiv / split_fill_alone_equiv / zip_fill_alone_equiv, `LocalF` of "
    "downstream_updates_harmless_gen; proved for every branch of the executable model — harness_branches_local, "
    "hOps_localF —, an assumption for arbitrary user elements)",
    "objects nested inside a context or data list belong to that object only (checked on every real run: no nested "
    "mutable object is reachable from two different root objects)",
    "finite flows; the consumer of Split.run does not mutate a yielded value before the run has finished",
    "exceptions: the only exception the model of Split/Zip handles is LenaStopFill. An invocation that returns another "
    "exception (Resp.err) ends the real run, while the model of Split.run / _fill / collect goes on; the generic theorems "
    "therefore describe runs in which no branch raises. harness_branch_alone_equiv is restricted to accumulators that "
    "cannot raise (canErr = false: not Mean/VarianceMeanCount without pass_on_empty, Vectorize of a list), and "
    "harness_no_exception proves that then no invocation returns an exception. The driver reports the first exception of "
    "the modelled run and the harness compares it with the real one (cases with a Mean that is never filled are generated).",
    "numeric accumulators (Sum, Mean, ...) are filled with integers (the model's dataInt maps other data to 0 where the "
    "code raises TypeError); such cases are not generated",
    "data of accumulators other than Sum/Count/Mean are opaque (their values are the subject of C09)",
    "Zip of accumulators: the branches yield exactly one value per compute() or raise (one round of Zip._yield; the "
    "generators of all branches but the first are never resumed after their first value). Zip on a context that already "
    "has a 'zip' entry raises TypeError in update_nested (a tuple is assigned to); not a matter of aliasing, not generated",
    "transcription restrictions of the mutating elements: Variable untyped, on contexts without a typed variable; "
    "UpdateContext with a two-component key and a scalar value; MakeFilename with a constant name; Count.run only as the "
    "last element of a sequence",
    "the static context (LenaSplit._set_context / _get_context, deep-copied per branch) is outside C04 (subject of C13); "
    "Split.__call__ (Source branches at the head of a flow) is not exercised",
    "one run per Split object (state kept between two runs of one Split object is covered by the generic theorems only: "
    "they hold from any branch state)",
    "a Split / Zip given DIRECTLY as a branch of the Split / Zip of a case (kind \"nest\": of one common type — then it has "
    "fill and compute / request —, or of mixed sequences — then it is a Run element, run on every buffer; with and "
    "without copy_buf, nested twice) is exercised on the real code and judged by the oracle (the nested object inside "
    "versus the same object alone on a private deep copy; no object shared between the values of different outer "
    "branches). Modelled (Model/C04Nest.lean: splitObjAct, nestOps, mkBranchesN; correspondence on the id() graph and the "
    "executed proj = aloneTrace / aloneFillLife, SchedOK / FillOK, Disj): a common-type Split as a branch, one level, "
    "both copy_buf values on both levels. Oracle only: a nested Zip (its compute merges values), a nested Split of mixed "
    "sequences, depth 2 (for these copy_buf=False on the outer level is not generated). For the model a nested object "
    "is one branch (`Ops`): the generic theorems speak about it under the hypothesis `Local`, which names ONE namespace "
    "of own objects, while nestOps allocates in one namespace per inner sequence — so `Local` for a nested Split is an "
    "assumption (true of the code for the reason it is true of any element: it touches only what it is passed and what "
    "it made), harness_branch_alone_equiv does not cover branch lists with nested objects, and "
    "splitFill_last_gets_original proves the fact that makes the outer copy necessary. Two comparisons are not made for "
    "a nested branch: the probe flags (the probe stands behind the nested Split's own copy) and, for an inner "
    "copy_buf=False, the contents at the moment of the yield (the real compute() is a lazy generator, an invocation of "
    "the model is one step; contents at the end of the run are compared). Within the model a Split as an accumulator "
    "stays covered as before: split_fc, zip, Mean(Split), Vectorize(Mean(Split)), SplitIntoBins(Split)",
    "the FillRequest adapter (lena.core.FillRequest around a fill/compute element; request() yields values computed "
    "during an earlier fill when buffer_output is set) has no model: it is covered by the oracle on the real code only "
    "(identity of yielded contexts, mutated run versus twin). downstream_updates_harmless is proved for the accumulators "
    "themselves (accOps), not for sequences with elements in front (the generic form needs `Tidy` for them).",
    "NumpyHistogram: bins given explicitly ([0, 1, 2, 3, 4]); request() with reset=True is modelled as the request() of "
    "the model followed by reset() (numpy_histogram.py:69-70), validated by the correspondence on the real object",
    "Zip compares the contexts its branches yield with ==: contexts that hold sets of objects hashed by identity, or "
    "already a 'zip' entry, are not generated for Zip",
    "adversary candidate 8 (Zip._fill hands the caller's value itself to the last branch, as Split._fill does) is "
    "outside the statement: every branch still computes what it computes alone and no branch sees another's mutation "
    "in an alias-free flow; that the caller's values stay untouched is promised for no last branch (Split works on the "
    "originals there by design). It is reported as a correspondence disagreement, no-failing-input-found (intended)",
    "Zip cases: the values of the single branches are observed on the sequence objects that Zip fills (Zip.compute() "
    "itself stops at the shortest branch and merges the contexts). Explicit sequence objects are the harness's own; for "
    "branches given as plain tuples the sequences are Zip's, kept in a private list without a public accessor: it is read "
    "defensively (getattr), and when it is missing or does not look as expected the harness makes the sequences itself "
    "with the public constructors (FillComputeSeq(*els), FillRequestSeq(*els, bufsize=1, reset=False, buffer_input=True)) "
    "and gives those to Zip; the case is then labelled zip:tuple-branches:rebuilt in the coverage (Zip's own conversion "
    "of tuples, which is not the subject of C04, is not exercised for it), never an alarm. The branch alone (oracle) is "
    "always made with the public constructors",
    "split_hist_fresh / acc_yield_fresh: the values filled exist when they are filled (hypotheses FilledOld / hin) — true "
    "of every Python program; downstream_updates_harmless: the updates are confined to objects of values yielded earlier, "
    "and no earlier result is filled again (refilling an updated result legitimately changes what follows)",
]
RULE = ("split cases: 0-4 branches of the four kinds (given as explicit sequences or as plain tuples that Split converts), "
        "0-3 mutating elements each (Variable, UpdateContext, MakeFilename, Count, Slice, user mutators of context, of list "
        "data and of dict data, a user Run element that yields at the end of every run), terminal Sum/Count/Mean (with and "
        "without pass_on_empty: the latter raises when never filled)/StoreFilled/user elements, flows of 0-7 values (bare, "
        "with nested contexts incl. tuples of dicts and lists of dicts, with list or dict data), bufsize in "
        "{1,2,3,len,len+1,1000,None}, driven by run, by fill+compute/request and through Zip(...).fill; Split built with and "
        "without the copy_buf keyword (default); copy_buf=False and aliased flows for the correspondence only; every branch "
        "starts with a probe that records whether it was handed the caller's objects. A Split (without copy_buf, "
        "copy_buf=True, copy_buf=False) or a Zip given DIRECTLY as a branch — first, middle, last position, two side by "
        "side, nested twice; all its sequences fill/compute or all fill/request (used through fill + compute/request by "
        "an outer Split driven by run, by fill and by an outer Zip) or mixed (a Run element); its first and its LAST "
        "inner sequence changing data and context in place — is enumerated in both tiers (nest_cases, 792 cases) and "
        "drawn at random (about a fifth of the split cases); common-type nested Splits also with copy_buf=False on the "
        "outer level and against the model, the others oracle only. Objects: data and contexts are "
        "dict / list / tuple / scalars and, named by class in the case, user objects with mutable attributes (instance "
        "dictionary, slots; hashable), dict subclasses (lena.context.Context, OrderedDict, user class), list subclass, deque, "
        "bytearray, set / frozenset of user objects, tuples and namedtuples holding mutable objects, dictionaries nested 8 deep, nested in each other (data_shapes: 18 "
        "shapes of data, ctx_shapes: 20 shapes of context; every shape x run/fill/zip with branches that change everything "
        "reachable in place, and every accumulator kind x every non-plain context shape, are enumerated in both tiers: "
        "kind_cases); user mutators touch / touchc (every reachable mutable object changed in place). "
        "accumulator cases: every accumulator "
        "kind (Sum, DSum, Count, Mean with five kinds of sum_seq incl. Split([Sum, Count, Count(, Count)]), "
        "VarianceMeanCount, Vectorize of one element, of a list and of a multi-valued Mean, Histogram, NumpyHistogram with "
        "and without reset (fill/request), SplitIntoBins of Sum "
        "and of Split(k Sums) with under/overflow data, Graph with and without an initial context, StoreFilled in both "
        "modes, GroupBy, user fill/request elements, Zip of 1-3 accumulators with and without fields, FillComputeSeq, the "
        "FillCompute and FillRequest adapters, Split used through its common-type methods) x histories of up to 8 "
        "fill/compute/request/mutate/refill/reset operations, with the same value object filled twice and several values "
        "sharing one context object (all histories up to 4 operations over a small alphabet are enumerated). Besides the "
        "object graph of the real run, the driver executes the specification-side definitions (handCells/Disj, proj, "
        "aloneTrace, aloneFillLife and the alone compute after it, SchedOK/FillOK, runHist, fillAll, the instances of "
        "FreshYield and Local) and the harness compares them with the real run (probes, the branch alone). Non-trivial: "
        "at least one yielded value with a context and at least one in-place mutation or copy.")
CASE_TIMEOUT = 10

warnings.filterwarnings("ignore")


# ----------------------------------------------------------------------------------------------
# plain values  <->  the JSON encoding of the driver: int | str | [list] | {"t":[..]} | {"d":{..}} | {"q":[n,d]}

class UserObj(object):
    """user objects in a flow (as in lena's tutorials: an event with mutable attributes).  Equal when their attributes are
    equal, hashable by identity (a mutable object that is hashable)."""
    __slots__ = ()

    def __eq__(self, other):
        return type(other) is type(self) and obj_attrs(self) == obj_attrs(other)

    def __ne__(self, other):
        return not self == other

    __hash__ = object.__hash__


class Rec(UserObj):
    """attributes in the instance dictionary"""

    def __init__(self, **kw):
        self.__dict__.update(kw)


class Slot(UserObj):
    """attributes in slots (no instance dictionary)"""
    __slots__ = ("x", "hits", "inner", "m", "a", "b", "c")


class MyDict(dict):
    pass


class MyList(list):
    pass


def obj_attrs(o):
    if hasattr(o, "__dict__"):
        return dict(vars(o))
    return {k: getattr(o, k) for k in type(o).__slots__ if hasattr(o, k)}


# the classes of mutable objects a case can name: {"o": [kind, content]} in the JSON of a case
DICT_KINDS = ("rec", "slot", "mydict", "odict", "lctx")
LIST_KINDS = ("mylist", "deque", "bytes")
SET_KINDS = ("set", "fset", "ntup")     # rendered like tuples: the harness changes their members, never the container
Pt = collections.namedtuple("Pt", "a b")
LISTLIKE = (list, collections.deque)
ROOT_TYPES = (dict, list, collections.deque, bytearray, set, UserObj)


def make_obj(kind, content):
    if kind == "rec":
        return Rec(**content)
    if kind == "slot":
        o = Slot()
        for k, v in content.items():
            setattr(o, k, v)
        return o
    if kind == "mydict":
        return MyDict(content)
    if kind == "odict":
        return collections.OrderedDict(content)
    if kind == "lctx":
        # the dict subclass that lena's own element lena.context.Context() puts into the flow
        import lena.context
        return lena.context.Context(content)
    if kind == "mylist":
        return MyList(content)
    if kind == "deque":
        return collections.deque(content)
    if kind == "bytes":
        return bytearray(content)
    if kind == "set":
        return set(content)
    if kind == "fset":
        return frozenset(content)
    if kind == "ntup":
        return Pt(*content)
    raise ValueError(kind)


def O(kind, content):
    return {"o": [kind, content]}


def enc(v):
    """plain rendering of a value: by content, not by class (a dict subclass or a user object is rendered as the
    dictionary of its items / attributes, every list-like object as a list): the model knows the identity and the
    content of an object, not its class, and Python's == on these containers does not look at the class either"""
    if isinstance(v, bool):
        return int(v)
    if isinstance(v, int):
        return v
    if isinstance(v, str):
        return v
    if isinstance(v, dict):
        return {"d": {str(k): enc(x) for k, x in v.items()}}
    if isinstance(v, LISTLIKE):
        return [enc(x) for x in v]
    if isinstance(v, bytearray):
        return [int(x) for x in v]
    if isinstance(v, tuple):
        return {"t": [enc(x) for x in v]}
    if isinstance(v, UserObj):
        return {"d": {k: enc(x) for k, x in obj_attrs(v).items()}}
    if isinstance(v, Decimal):
        return int(v) if v == int(v) else {"obj": str(v)}
    if v is None:
        return "None"
    if isinstance(v, float):
        fr = Fraction(v)
        return {"float": [fr.numerator, fr.denominator]}
    if isinstance(v, numbers.Integral):
        return int(v)
    if isinstance(v, (set, frozenset)):
        return {"t": sorted((enc(x) for x in v), key=repr)}
    return {"obj": type(v).__name__}


def model_floats(j):
    """the model's quotient {"q":[n,d]} stands for the float float(n)/float(d)"""
    if isinstance(j, list):
        return [model_floats(x) for x in j]
    if isinstance(j, dict):
        if "q" in j and len(j) == 1:
            n, d = j["q"]
            fr = Fraction(float(n) / float(d))
            return {"float": [fr.numerator, fr.denominator]}
        return {k: model_floats(v) for k, v in j.items()}
    return j


def dec(j):
    if isinstance(j, (int, str)):
        return j
    if isinstance(j, list):
        return [dec(x) for x in j]
    if "o" in j:
        kind, content = j["o"]
        return make_obj(kind, dec(content))
    if "d" in j:
        return {k: dec(x) for k, x in j["d"].items()}
    if "t" in j:
        return tuple(dec(x) for x in j["t"])
    raise ValueError(j)


def strip(j):
    """the JSON of a case without the classes of its objects: what the model driver is given"""
    if isinstance(j, list):
        return [strip(x) for x in j]
    if isinstance(j, dict):
        if "o" in j and len(j) == 1:
            if j["o"][0] in SET_KINDS:
                return {"t": strip(j["o"][1])}
            return strip(j["o"][1])
        return {k: strip(v) for k, v in j.items()}
    return j


def has_kind(j, kinds):
    """does the JSON of a case name an object of one of these kinds"""
    if isinstance(j, list):
        return any(has_kind(x, kinds) for x in j)
    if isinstance(j, dict):
        if "o" in j and len(j) == 1:
            return j["o"][0] in kinds or has_kind(j["o"][1], kinds)
        return any(has_kind(v, kinds) for v in j.values())
    return False


def kinds_in(j, acc=None):
    """the kinds of objects a case names"""
    acc = set() if acc is None else acc
    if isinstance(j, list):
        for x in j:
            kinds_in(x, acc)
    elif isinstance(j, dict):
        if "o" in j and len(j) == 1:
            acc.add(j["o"][0])
            kinds_in(j["o"][1], acc)
        else:
            for v in j.values():
                kinds_in(v, acc)
    return acc


def _jd(j):
    """the {key: json} table of an encoded dictionary-like object"""
    return j["o"][1]["d"] if "o" in j else j["d"]


def children(obj):
    """the objects directly inside a container / user object"""
    if isinstance(obj, dict):
        return list(obj.values())
    if isinstance(obj, UserObj):
        return list(obj_attrs(obj).values())
    if isinstance(obj, (list, collections.deque, tuple, set, frozenset)):
        return list(obj)
    return []


def has_mutable(obj):
    if isinstance(obj, ROOT_TYPES):
        return True
    if isinstance(obj, (tuple, frozenset)):
        return any(has_mutable(x) for x in obj)
    return False


def is_root(x):
    """a root object of a flow value: a mutable object, or a tuple that holds one (copy.deepcopy makes a new tuple then)"""
    return isinstance(x, ROOT_TYPES) or (isinstance(x, (tuple, frozenset)) and has_mutable(x))


def deep_touch(obj, v):
    """user mutation in place of everything reachable: first the children, then the object itself"""
    if isinstance(obj, bytearray):
        obj.append(v)
        return
    for x in children(obj):
        deep_touch(x, v)
    if isinstance(obj, dict):
        obj["m"] = v
    elif isinstance(obj, UserObj):
        setattr(obj, "m", v)
    elif isinstance(obj, LISTLIKE):
        obj.append(v)


# ----------------------------------------------------------------------------------------------
# user elements

class Tag(object):
    """user element: mutates the context in place (a nested list)."""

    def __init__(self, name):
        self._name = name

    def __call__(self, value):
        import lena.flow
        data, context = lena.flow.get_data_context(value)
        context.setdefault("tags", []).append(self._name)
        return (data, context)


class AppendData(object):
    """user element: mutates list-like data (list, list subclass, deque, bytearray) in place."""

    def __init__(self, v):
        self._v = v

    def __call__(self, value):
        import lena.flow
        data = lena.flow.get_data(value)
        if isinstance(data, LISTLIKE + (bytearray,)):
            data.append(self._v)
        return value


class SetData(object):
    """user element: mutates dictionary data (an item) or a user object (an attribute) in place."""

    def __init__(self, key, v):
        self._key, self._v = key, v

    def __call__(self, value):
        import lena.flow
        data = lena.flow.get_data(value)
        if isinstance(data, dict):
            data[self._key] = self._v
        elif isinstance(data, UserObj):
            setattr(data, self._key, self._v)
        return value


class TouchData(object):
    """user element: changes in place every mutable object reachable from the data (a calibration of an event)."""

    def __init__(self, v):
        self._v = v

    def __call__(self, value):
        import lena.flow
        deep_touch(lena.flow.get_data(value), self._v)
        return value


class TouchContext(object):
    """user element: changes in place every mutable object reachable from the context."""

    def __init__(self, v):
        self._v = v

    def __call__(self, value):
        import lena.flow
        data, context = lena.flow.get_data_context(value)
        deep_touch(context, self._v)
        return (data, context)


class EndMark(object):
    """user Run element: passes the values on and yields one more, new value at the end of every run."""

    def __init__(self):
        self._runs = 0

    def run(self, flow):
        for val in flow:
            yield val
        yield (-1, {"end": self._runs})
        self._runs += 1


class KeepLast(object):
    """user fill/compute element that yields the last filled value itself."""

    def __init__(self):
        self.group = []

    def fill(self, value):
        self.group.append(value)

    def compute(self):
        if self.group:
            yield self.group[-1]


class ReqSum(object):
    """user fill/request element: running sum with a copy of the last context."""

    def __init__(self):
        self._total = 0
        self._cur_context = {}

    def fill(self, value):
        import lena.flow
        data, context = lena.flow.get_data_context(value)
        self._total += data if isinstance(data, int) else 0
        self._cur_context = context

    def request(self):
        yield (self._total, copy.deepcopy(self._cur_context))

    def reset(self):
        pass


class ReqStore(object):
    """user fill/request element that yields the stored values themselves and forgets them."""

    def __init__(self):
        self.group = []

    def fill(self, value):
        self.group.append(value)

    def request(self):
        group, self.group = self.group, []
        for val in group:
            yield val

    def reset(self):
        pass


class SrcEl(object):
    def __init__(self, n):
        self._n = n

    def __call__(self):
        for j in range(self._n):
            yield (j, {"src": j})


class Probe(object):
    """first element of a branch: passes values unchanged and records, for every value the branch receives, whether
    its mutable root objects are the caller's originals (False), new objects (True), or whether it has none (None)"""

    def __init__(self, i, rec, orig_ids):
        self._i, self._rec, self._orig = i, rec, orig_ids

    def __call__(self, value):
        d, c = split_value(value)
        roots = [x for x in (d, c) if is_root(x)]
        if not roots:
            self._rec[self._i].append(None)
        else:
            self._rec[self._i].append(id(roots[0]) not in self._orig)
        return value


class Mark(object):
    """passes values unchanged (the same object); records which branch produced the next yielded value and
    a deep snapshot of it at that moment."""

    def __init__(self, i, log):
        self._i, self._log = i, log

    def __call__(self, value):
        self._log.append((self._i, copy.deepcopy(value)))
        return value


def _getter(d):
    return d + 1 if isinstance(d, int) and not isinstance(d, bool) else d


def build_step(s, in_fill):
    import lena.context
    import lena.core
    import lena.flow
    import lena.output
    import lena.variables
    k = s["s"]
    if k == "var":
        return lena.variables.Variable(s["name"], _getter)
    if k == "upd":
        return lena.context.UpdateContext("upd." + s["key"], s["v"])
    if k == "mkfn":
        return lena.output.MakeFilename(s["name"])
    if k == "tag":
        return Tag(s["name"])
    if k == "app":
        return AppendData(s["v"])
    if k == "setd":
        return SetData(s["key"], s["v"])
    if k == "touch":
        return TouchData(s["v"])
    if k == "touchc":
        return TouchContext(s["v"])
    if k == "count":
        c = lena.flow.Count(s["name"])
        return lena.core.FillInto(c) if in_fill else c
    if k == "stop":
        return lena.flow.Slice(s["n"])
    if k == "emit":
        return EndMark()
    raise ValueError(k)


def _np_histogram(a, bins=10, **kwargs):
    """pure-Python stand-in for numpy.histogram(data, bins=edges) with explicit edges"""
    edges = list(bins)
    counts = [0] * (len(edges) - 1)
    for x in a:
        if edges[0] <= x <= edges[-1]:
            counts[min(bisect.bisect_right(edges, x) - 1, len(counts) - 1)] += 1
    return counts, edges


def _ensure_numpy():
    """NumpyHistogram imports numpy in __init__ and only calls numpy.histogram(self._data, bins=...): when numpy is not
    installed a minimal stand-in module is registered, so that this framework accumulator can be exercised at all"""
    try:
        import numpy  # noqa: F401
    except ImportError:
        np = types.ModuleType("numpy")
        np.histogram = _np_histogram
        np.__lena_verif_stand_in__ = True
        sys.modules["numpy"] = np


def build_acc(a, heap=None):
    import lena.core
    import lena.flow
    import lena.math
    import lena.structures
    import lena.variables
    k = a["a"]
    if k == "sum":
        return lena.math.Sum()
    if k == "dsum":
        return lena.math.DSum()
    if k == "count":
        return lena.flow.Count(a["name"])
    if k == "mean":
        sq = a["seq"]
        if sq is None:
            seq = None
        elif sq == "sum":
            seq = lena.math.Sum()
        elif sq == "dsum":
            seq = lena.math.DSum()
        else:
            seq = lena.core.Split([lena.math.Sum(), lena.flow.Count(sq["count"])])
        return lena.math.Mean(seq, pass_on_empty=a["poe"])
    if k == "vmc":
        return lena.math.VarianceMeanCount(corrected=a["corrected"], pass_on_empty=a["poe"])
    if k == "vectorize":
        return lena.math.Vectorize(lena.math.Sum(), dim=a["dim"])
    if k == "vec_list":
        return lena.math.Vectorize([lena.math.Sum(), lena.math.Mean()])
    if k == "histogram":
        return lena.structures.Histogram([0, 1, 2, 3, 4])
    if k == "nphist":
        _ensure_numpy()
        return lena.structures.NumpyHistogram(bins=[0, 1, 2, 3, 4], reset=a["reset"])
    if k == "sib":
        return lena.structures.SplitIntoBins(lena.math.Sum(), lena.variables.Variable(a["var"], lambda x: x),
                                             list(range(a["lo"], a["hi"] + 1)))
    if k == "mean_counts":
        return lena.math.Mean(lena.core.Split([lena.math.Sum()] + [lena.flow.Count(n) for n in a["names"]]))
    if k == "vec_multi":
        inner = lena.math.Mean(lena.core.Split([lena.math.Sum()] + [lena.flow.Count("c%d" % j) for j in range(a["k"] - 1)]))
        return lena.math.Vectorize(inner, dim=2)
    if k == "sib_multi":
        # k Sums per bin (a Count in a bin would write its counter into the last value filled into that bin)
        inner = lena.core.Split([lena.math.Sum() for j in range(a["k"])])
        return lena.structures.SplitIntoBins(inner, lena.variables.Variable(a["var"], lambda x: x),
                                             list(range(a["lo"], a["hi"] + 1)))
    if k == "graph":
        if a.get("ctx") is not None:
            return lena.structures.Graph(context=heap[a["ctx"]])
        return lena.structures.Graph()
    if k == "store":
        return lena.flow.StoreFilled(yield_as_a_group=False)
    if k == "store_group":
        return lena.flow.StoreFilled(yield_as_a_group=True)
    if k == "groupby":
        return lena.flow.GroupBy(a["key"])
    if k == "keeplast":
        return KeepLast()
    if k == "reqsum":
        return ReqSum()
    if k == "reqstore":
        return ReqStore()
    # composites
    if k == "zip":
        if a.get("fields"):
            return lena.flow.Zip([build_acc(x) for x in a["subs"]], name="zipped", fields=a["fields"])
        return lena.flow.Zip([build_acc(x) for x in a["subs"]])
    if k == "split_fc":
        return lena.core.Split([build_acc(x) for x in a["subs"]])
    if k == "fcseq":
        return lena.core.FillComputeSeq(*([build_step(x, True) for x in a["steps"]] + [build_acc(a["term"])]))
    if k == "fillcompute":
        return lena.core.FillCompute(build_acc(a["of"]))
    if k == "fillrequest":
        # the FillRequest adapter around a fill/compute element: request() yields the results for complete blocks of
        # bufsize values (kept in an output buffer, or recomputed from an input buffer), optionally resetting
        return lena.core.FillRequest(build_acc(a["of"]), bufsize=a["bufsize"], reset=a["reset"],
                                     buffer_input=a["bi"], buffer_output=not a["bi"])
    raise ValueError(k)


# kinds that have no model: their cases are judged by the oracle on the real code only
ORACLE_ONLY = ("fillrequest",)
ALIASING_BY_SPEC = ("store", "keeplast", "reqstore", "store_group", "groupby")
GROUP_KINDS = ("store_group", "groupby")
HAS_RESET = ("sum", "dsum", "count", "vmc", "vectorize", "vec_list", "histogram", "store", "store_group", "groupby",
             "graph", "nphist")


class GroupSnap(object):
    """a yielded group (a list of flow values) with its members at the moment of the yield"""

    def __init__(self, obj):
        self.obj, self.members = obj, list(obj)


def acc_kind(a):
    """the kind whose data rendering / oracle class applies"""
    if a["a"] in ("fillcompute", "fillrequest"):
        return acc_kind(a["of"])
    if a["a"] == "fcseq":
        return acc_kind(a["term"])
    return a["a"]


def model_acc(a):
    """the accumulator as the model driver sees it (an adapter that only forwards is its element)"""
    if a["a"] == "fillcompute":
        return model_acc(a["of"])
    if a["a"] == "nphist":
        return {"a": "nphist"}
    return a


def model_hist(case):
    """the history as the model driver sees it: NumpyHistogram(reset=True).request() is the request() of the model
    followed by reset() (numpy_histogram.py:69-70: `if self._reset: self.reset()` after the context was made)"""
    hist = case["hist"]
    if case["acc"]["a"] == "nphist" and case["acc"]["reset"]:
        out = []
        for op in hist:
            out.append(op)
            if "r" in op or "c" in op:
                out.append({"reset": 1})
        return out
    return hist


def build_branch(i, sp, log, probe=None):
    """the branch as it is given to Split/Zip: an explicit sequence object, or (form "tuple") a plain tuple of
    elements that Split / Zip convert themselves"""
    import lena.core
    kind = sp["kind"]
    if kind == "nest":
        return build_nest(i, sp, log, probe)
    mark = Mark(i, log)
    front = [probe] if probe is not None else []
    as_tuple = sp.get("form") == "tuple"
    if kind == "source":
        return lena.core.Source(SrcEl(sp.get("n", 0)), mark)
    if kind == "seq":
        els = front + [build_step(s, False) for s in sp["steps"]] + [mark]
        return tuple(els) if as_tuple else lena.core.Sequence(*els)
    steps = front + [build_step(s, True) for s in sp["steps"]]
    els = steps + [build_acc(sp["term"]), mark]
    if as_tuple:
        return tuple(els)
    if kind == "fc":
        return lena.core.FillComputeSeq(*els)
    if kind == "fr":
        return lena.core.FillRequestSeq(*els, bufsize=1, reset=False, buffer_input=True)
    raise ValueError(kind)


def _logged(meth, i, log):
    """the generator method `meth` (compute / request of a Zip), recording every value it yields as a value yielded
    on behalf of branch i (what Mark does at the end of a sequence)"""
    def gen():
        for val in meth():
            log.append((i, copy.deepcopy(val)))
            yield val
    return gen


def nest_type(sp):
    """the type a Split / Zip nested directly as a branch has for the Split / Zip around it: "fc" (all its sequences
    are fill/compute: it has fill and compute), "fr" (all fill/request), else "seq" (a Split of mixed sequences has
    only run: the outer Split makes a Sequence of it)"""
    if sp["kind"] != "nest":
        return sp["kind"]
    ts = set(nest_type(x) for x in sp["inner"])
    if ts == {"fc"} or ts == {"fr"}:
        return ts.pop()
    return "seq"


def build_nest(i, sp, log, probe=None):
    """a Split or a Zip given DIRECTLY as branch number i of the Split / Zip of the case (not inside a tuple or a
    sequence object).  Every value it yields is a value of branch i: the sequences of a nested Split end with the
    Mark of branch i; a nested Zip yields new (merged) values, recorded where its public compute / request yields
    them.  The probe of branch i stands at the head of the first inner sequence (which receives every value the
    nested object is given); the other inner sequences have probes of their own, which nobody reads."""
    import lena.core
    import lena.flow
    is_zip = bool(sp.get("zip"))
    inner = []
    for j, isp in enumerate(sp["inner"]):
        p = None
        if probe is not None:
            p = probe if j == 0 else Probe(0, [[]], probe._orig)
        inner.append(build_branch(i, isp, [] if is_zip else log, p))
    if is_zip:
        z = lena.flow.Zip(inner)
        for name in ("compute", "request"):
            meth = getattr(z, name, None)
            if callable(meth):
                setattr(z, name, _logged(meth, i, log))
        return z
    kw = {}
    if sp.get("copy_buf") is not None:
        kw["copy_buf"] = sp["copy_buf"]
    if sp.get("bufsize", 1000) != 1000:
        kw["bufsize"] = sp["bufsize"]
    return lena.core.Split(inner, **kw)


def all_steps(sp):
    """the mutating elements of a branch, those of the sequences of a nested Split / Zip included"""
    if sp["kind"] == "nest":
        return [st for x in sp["inner"] for st in all_steps(x)]
    return list(sp["steps"])


def has_nest(case):
    return any(b["kind"] == "nest" for b in case["branches"])


# ----------------------------------------------------------------------------------------------
# the flow of a case and the observation of object graphs

def build_heap(case):
    return {int(k): dec(v) for k, v in case["heap"].items()}


def build_item(heap, it):
    d = it["d"]
    data = heap[d["cell"]] if isinstance(d, dict) and "cell" in d else dec(d)
    if it["c"] is None:
        return data
    return (data, heap[it["c"]])


def split_value(v):
    """(data, context | None) as lena sees it"""
    if isinstance(v, GroupSnap):
        return v.obj, None
    if isinstance(v, tuple) and len(v) == 2 and isinstance(v[1], dict):
        return v[0], v[1]
    return v, None


def mutable_ids(obj, acc=None, keep=None):
    """ids of all mutable objects reachable from obj: dictionaries, lists, deques, bytearrays, sets (and their
    subclasses) and the user objects of this module, through tuples, frozensets, items and attributes.  Instance
    attributes of lena structures (histogram, Graph) are NOT followed: data objects of accumulators are opaque."""
    if acc is None:
        acc = set()
    if isinstance(obj, (tuple, frozenset)):
        for v in obj:
            mutable_ids(v, acc, keep)
    elif isinstance(obj, ROOT_TYPES):
        if id(obj) in acc:
            return acc
        acc.add(id(obj))
        if keep is not None:
            keep.append(obj)
        for v in children(obj):
            mutable_ids(v, acc, keep)
    return acc


class Renderer(object):
    """numbers root objects by first appearance and renders values like the model driver does"""

    def __init__(self, data_opaque=None):
        self.num = {}
        self.keep = []
        self.data_opaque = data_opaque

    def tok(self, obj):
        if id(obj) not in self.num:
            self.num[id(obj)] = len(self.num)
            self.keep.append(obj)
        return self.num[id(obj)]

    def data(self, d):
        # (the data of what an accumulator yields is opaque: a tuple built by Vectorize / Zip is not an object of the flow)
        if is_root(d) and not (self.data_opaque is not None and isinstance(d, tuple)):
            return {"cell": self.tok(d), "v": enc(d)}
        if self.data_opaque is not None:
            return self.data_opaque(d)
        return enc(d)

    def item(self, v):
        if isinstance(v, GroupSnap):
            t = self.tok(v.obj)
            return {"group": t, "items": [self.item(m) for m in v.members]}
        d, c = split_value(v)
        dj = self.data(d)
        if c is None:
            return {"d": dj, "c": None}
        return {"d": dj, "c": {"t": self.tok(c), "v": enc(c)}}


def nested_sharing(values):
    """number of nested mutable objects that are reachable from two different root objects, or that are a root
    object themselves (the model assumes there are none)"""
    roots = {}
    for v in values:
        if isinstance(v, GroupSnap):
            continue
        d, c = split_value(v)
        for r in (d, c):
            if is_root(r):
                roots[id(r)] = r
    owner = {}
    bad = 0
    for rid, r in roots.items():
        inner = set()
        for x in children(r):
            mutable_ids(x, inner)
        for i in inner:
            if i in roots or (i in owner and owner[i] != rid):
                bad += 1
            owner[i] = rid
    return bad


# ----------------------------------------------------------------------------------------------
# split cases

def _first_stop(sp):
    ns = [s["n"] for s in sp["steps"] if s["s"] == "stop"]
    return min(ns) if ns else None


def fill_counts(case):
    """how many values of the flow every branch of a Split/Zip driven by fill receives (a LenaStopFill of one branch
    leaves _fill at once and the caller stops filling)"""
    n = len(case["flow"])
    stops = [(_first_stop(sp), j) for j, sp in enumerate(case["branches"]) if _first_stop(sp) is not None]
    stops = [(m, j) for (m, j) in stops if m < n]
    if not stops:
        return [n] * len(case["branches"])
    m, j = min(stops)
    return [m + 1 if i <= j else m for i in range(len(case["branches"]))]


def _make_split(case, branches):
    """copy_buf=True is the default the property names: such cases are built without the keyword (and some
    without bufsize, too, when it is the default 1000)"""
    import lena.core
    if case["copy_buf"] and case.get("nokw"):
        if case["bufsize"] == 1000:
            return lena.core.Split(branches)
        return lena.core.Split(branches, bufsize=case["bufsize"])
    return lena.core.Split(branches, bufsize=case["bufsize"], copy_buf=case["copy_buf"])


def _explicit_seq(br, kind):
    """a branch given as a plain tuple of elements, as the explicit sequence object of build_branch (public constructors)"""
    import lena.core
    if not isinstance(br, tuple):
        return br
    if kind == "fc":
        return lena.core.FillComputeSeq(*br)
    if kind == "fr":
        return lena.core.FillRequestSeq(*br, bufsize=1, reset=False, buffer_input=True)
    raise ValueError(kind)


def _zip_seqs(z, branches):
    """the sequence objects a Zip fills, one per branch (the values every single branch yields are what the property
    speaks about; Zip's own compute() stops at the shortest branch and merges the contexts).  A branch given as an
    explicit sequence object is used by Zip as it is: the harness holds it.  Only a plain tuple is converted by Zip
    into a sequence of its own, kept in a private list for which there is no public accessor: it is read
    defensively, and None is returned when it is not there or does not look as expected (never an alarm)."""
    if not any(isinstance(b, tuple) for b in branches):
        return list(branches)
    seqs = getattr(z, "_sequences", None)
    if not isinstance(seqs, list) or len(seqs) != len(branches):
        return None
    for b, s in zip(branches, seqs):
        if isinstance(b, tuple):
            if not (callable(getattr(s, "fill", None))
                    and (callable(getattr(s, "compute", None)) or callable(getattr(s, "request", None)))):
                return None
        elif s is not b:
            return None
    return list(seqs)


def _drive(case, branches, flow, log, note):
    """run the Split/Zip of the case on `flow`; returns (outs, stopped); remarks on how the run was observed go
    into the dictionary `note`"""
    import lena.core
    import lena.flow
    mode = case["mode"]
    if mode == "run":
        s = _make_split(case, branches)
        return list(s.run(iter(flow))), False
    stopped = False
    if mode == "fill":
        s = _make_split(case, branches)
        for v in flow:
            try:
                s.fill(v)
            except lena.core.LenaStopFill:
                stopped = True
                break
        gen = s.compute() if hasattr(s, "compute") else s.request()
        return list(gen), stopped
    if mode == "zip":
        z = lena.flow.Zip(branches)
        seqs = _zip_seqs(z, branches)
        if seqs is None:
            # the sequences Zip made of the plain tuples cannot be observed: the harness makes them itself (public
            # constructors, the arguments of build_branch for an explicit sequence) and gives them to a new Zip
            seqs = [_explicit_seq(b, sp["kind"]) for b, sp in zip(branches, case["branches"])]
            z = lena.flow.Zip(seqs)
            note["zip_seqs"] = "rebuilt"
        elif any(isinstance(b, tuple) for b in branches):
            note["zip_seqs"] = "of-zip"
        for v in flow:
            try:
                z.fill(v)
            except lena.core.LenaStopFill:
                stopped = True
                break
        outs = []
        for seq in seqs:
            outs.extend(seq.compute() if hasattr(z, "compute") else seq.request())
        return outs, stopped
    raise ValueError(mode)


def _alone(case, i, nvals):
    """branch i, freshly built, alone on a private deep copy of the (first nvals values of the) flow"""
    import lena.core
    heap = build_heap(case)
    flow = [build_item(heap, it) for it in case["flow"]][:nvals]
    flow = copy.deepcopy(flow)
    log = []
    sp = case["branches"][i]
    br = build_branch(i, sp, log)
    mode = case["mode"]
    if mode == "run":
        outs = list(_make_split(case, [br]).run(iter(flow)))
    else:
        # a plain tuple of elements: the sequence it stands for, made with the public constructors
        br = _explicit_seq(br, sp["kind"])
        for v in flow:
            try:
                br.fill(v)
            except lena.core.LenaStopFill:
                break
        outs = list(br.compute() if hasattr(br, "compute") else br.request())
    return [enc(s) for (_, s) in log], [enc(o) for o in outs]


def run_split(case):
    heap = build_heap(case)
    flow = [build_item(heap, it) for it in case["flow"]]
    log = []
    orig_ids = set()
    for v in flow:
        d, c = split_value(v)
        for x in (d, c):
            if is_root(x):
                orig_ids.add(id(x))
    fills = [[] for _ in case["branches"]]
    note = {}
    try:
        branches = [build_branch(i, sp, log, Probe(i, fills, orig_ids)) for i, sp in enumerate(case["branches"])]
        outs, stopped = _drive(case, branches, flow, log, note)
    except Exception as e:
        return {"e": exc_name(e), "msg": str(e)[:200]}
    if not case["branches"]:
        log = []
    elif len(log) != len(outs):
        return {"e": "harness", "msg": "marks %d outs %d" % (len(log), len(outs))}
    r = Renderer()
    res = {"flow": [r.item(v) for v in flow], "outs": [r.item(v) for v in outs], "stopped": stopped,
           "nested_shared": nested_sharing(flow + outs)}
    res.update(note)
    # ---- ingredients of the oracle
    nb = len(case["branches"])
    per_yield = [[] for _ in range(nb)]
    per_end = [[] for _ in range(nb)]
    ids = [set() for _ in range(nb)]
    for (i, snap), o in zip(log, outs):
        per_yield[i].append(enc(snap))
        per_end[i].append(enc(o))
        mutable_ids(o, ids[i])
    shared = []
    for i in range(nb):
        for j in range(i + 1, nb):
            if ids[i] & ids[j]:
                shared.append([i, j])
    res["per_yield"], res["per_end"], res["shared"], res["fills"] = per_yield, per_end, shared, fills
    if case["copy_buf"] and not case.get("aliased"):
        # in fill mode a LenaStopFill of one branch ends the filling for all: every branch alone is given as
        # many values as the probe at its head saw inside the Split/Zip
        counts = [len(flow)] * nb if case["mode"] == "run" else [len(f) for f in fills]
        alone = []
        for i in range(nb):
            try:
                alone.append(_alone(case, i, counts[i]))
            except Exception as e:
                alone.append({"e": exc_name(e)})
        res["alone"] = alone
    return res


# ----------------------------------------------------------------------------------------------
# accumulator histories

def _acc_data(kind):
    def elem(d):
        if isinstance(d, bool):
            return int(d)
        if isinstance(d, (int, float, str, Decimal)):
            return enc(d)
        n = type(d).__name__
        if n == "histogram":
            return "hist"
        if n == "Graph":
            return "graph"
        if n == "variance_mean_count":
            return "vmc"
        return {"obj": n}

    def f(d):
        if kind == "vmc":
            return "vmc"
        if kind in ("vectorize", "vec_list", "vec_multi"):
            return "vec"
        if kind in ("histogram", "sib", "sib_multi", "nphist"):
            return "hist"
        if kind == "zip" and isinstance(d, tuple):
            return {"t": [elem(x) for x in d]}
        return elem(d)
    return f


def _deep_mutate(ctx, k=0):
    """arbitrary in-place mutation of a yielded context: every dictionary gets a key, every list-like object an
    element, every user object an attribute — at every depth"""
    if isinstance(ctx, bytearray):
        ctx.append(k % 256)
        return
    for v in children(ctx):
        _deep_mutate(v, k)
    if isinstance(ctx, dict):
        ctx["__mut%d" % k] = {"x": [k]}
    elif isinstance(ctx, LISTLIKE):
        ctx.append("__mut%d" % k)
    elif isinstance(ctx, UserObj):
        setattr(ctx, "m", ["__mut", k])
    elif isinstance(ctx, set):
        ctx.add("__mut%d" % k)


def _plain(v):
    """comparable plain rendering of a yielded value (data of structures is opaque)"""
    if isinstance(v, GroupSnap):
        return ["group", [_plain(m) for m in v.members]]
    d, c = split_value(v)
    if isinstance(d, (int, float, str, Decimal)) or d is None:
        dd = repr(d)
    elif isinstance(d, tuple):
        dd = repr(tuple(x if isinstance(x, (int, float, str)) else type(x).__name__ for x in d))
    else:
        dd = type(d).__name__
    return [dd, None if c is None else enc(c)]


def _exec_history(case, aggressive):
    """execute the history on a fresh accumulator.  aggressive=None: exactly the operations of the case (for the
    correspondence); True: additionally every yielded context is mutated in place right after its compute();
    False: the twin — same operations except that nothing yielded is ever mutated."""
    import lena.core
    heap = build_heap(case)
    acc = build_acc(case["acc"], heap)
    kind = acc_kind(case["acc"])
    filled, outs, evs = [], [], []
    problems, spec_problems = [], []
    for op in case["hist"]:
        if "reset" in op:
            acc.reset()
            continue
        if "f" in op or "rf" in op or "ff" in op:
            if "f" in op:
                v = build_item(heap, op["f"])
            elif "ff" in op:
                if op["ff"] >= len(filled):
                    continue
                v = filled[op["ff"]]
            else:
                # refilling a result is part of the correspondence run only (in the oracle runs the result was
                # mutated on purpose, so refilling it would legitimately change the later results)
                if aggressive is not None or op["rf"] >= len(outs):
                    continue
                v = outs[op["rf"]]
            try:
                acc.fill(v)
            except Exception as e:
                evs.append({"fill_err": exc_name(e)})
                continue
            filled.append(v)
        elif "c" in op or "r" in op:
            meth = acc.request if "r" in op else (getattr(acc, "compute", None) or getattr(acc, "request"))
            snap_filled = None
            try:
                ys = list(meth())
                err = None
            except Exception as e:
                ys, err = [], exc_name(e)
            if kind in GROUP_KINDS:
                for y in ys:
                    if not all(any(m is f for f in filled) for m in y):
                        spec_problems.append("a yielded group contains a value that was not filled")
                ys = [GroupSnap(y) for y in ys]
            evs.append({"n": len(ys), "err": err})
            # identity part of the oracle: objects of the new contexts vs everything filled / yielded before
            if aggressive is None:
                seen = set()
                for v in filled:
                    d, c = split_value(v)
                    if c is not None:
                        mutable_ids(c, seen)
                for v in outs:
                    d, c = split_value(v)
                    if c is not None:
                        mutable_ids(c, seen)
                for y in ys:
                    d, c = split_value(y)
                    if c is None:
                        continue
                    mine = mutable_ids(c, set())
                    if mine & seen:
                        problems.append("compute #%d yields a context that shares a mutable object with a filled "
                                        "value or an earlier result: %s" % (len(evs), enc(c)))
                    seen |= mine
            if aggressive:
                snap_filled = copy.deepcopy(filled)
                snap_outs = copy.deepcopy(outs)
                plain_new = [_plain(y) for y in ys]
                for k, y in enumerate(ys):
                    d, c = split_value(y)
                    if c is not None:
                        _deep_mutate(c, len(outs) + k)
                if [_plain(v) for v in filled] != [_plain(v) for v in snap_filled]:
                    problems.append("mutating the result of compute #%d changed a filled value" % len(evs))
                if [_plain(v) for v in outs] != [_plain(v) for v in snap_outs]:
                    problems.append("mutating the result of compute #%d changed an earlier result" % len(evs))
                outs.extend(ys)
                evs[-1]["plain"] = plain_new
                continue
            evs[-1]["plain"] = [_plain(y) for y in ys]
            outs.extend(ys)
        elif "my" in op:
            if aggressive is None and op["my"] < len(outs):
                d, c = split_value(outs[op["my"]])
                if c is not None:
                    c[op["key"]] = 1
        elif "mf" in op:
            if op["mf"] < len(filled):
                d, c = split_value(filled[op["mf"]])
                if c is not None:
                    c[op["key"]] = 1
    return acc, filled, outs, evs, (spec_problems if kind in ALIASING_BY_SPEC else problems)


def run_acc(case):
    kind = acc_kind(case["acc"])
    try:
        acc, filled, outs, evs, problems = _exec_history(case, None)
    except Exception as e:
        return {"e": exc_name(e), "msg": str(e)[:200]}
    r = Renderer()
    rf = [r.item(v) for v in filled]
    r.data_opaque = _acc_data(kind)
    res = {"filled": rf, "outs": [r.item(v) for v in outs],
           "evs": [{"n": e.get("n"), "err": e.get("err")} for e in evs if "n" in e],
           "fill_errs": [e["fill_err"] for e in evs if "fill_err" in e],
           "nested_shared": nested_sharing(filled + outs), "problems": problems}
    if kind not in ALIASING_BY_SPEC:
        # "my" operations are replaced by the aggressive mutation in the second run and dropped in the twin
        try:
            _, _, _, evs_a, problems_a = _exec_history(case, True)
            _, _, _, evs_b, _ = _exec_history(case, False)
            res["problems"] = problems + problems_a
            res["mutated_run"] = [[e.get("err"), e.get("plain")] for e in evs_a if "n" in e]
            res["twin_run"] = [[e.get("err"), e.get("plain")] for e in evs_b if "n" in e]
        except Exception as e:
            res["oracle_error"] = exc_name(e) + ": " + str(e)[:200]
    return res


# ----------------------------------------------------------------------------------------------
# the interface of harness.common

def run_impl(case):
    import lena.core  # noqa: F401  (import lena from LENA_REPO / /repo)
    if case["op"] == "split":
        return run_split(case)
    return run_acc(case)


def model_requests(case):
    # the model is given the contents of the objects, not their classes (strip)
    if case["op"] == "split":
        if has_nest(case) and not nest_modelled(case):
            return []
        return [dict({k: case[k] for k in ("op", "mode", "bufsize", "copy_buf", "flow")},
                     branches=[_model_branch(b) for b in case["branches"]], heap=strip(case["heap"]), check=True)]
    if case["acc"]["a"] in ORACLE_ONLY:
        return []
    return [{"op": "acc", "acc": model_acc(case["acc"]), "heap": strip(case["heap"]), "hist": model_hist(case)}]


def nest_modelled(case):
    """the nested cases the model driver can express: Splits / Zips of one common type (fill/compute or fill/request)
    given directly as branches, their sequences being plain harness sequences (one level of nesting).  Not a nested
    Zip (its compute merges the values of its sequences), not a Split of mixed sequences (a Run element)"""
    for b in case["branches"]:
        if b["kind"] == "nest":
            if b.get("zip") or nest_type(b) not in ("fc", "fr") or any(x["kind"] == "nest" for x in b["inner"]):
                return False
    return True


def _model_branch(b):
    """a branch as the model driver is given it: a nested Split with its common type and its copy_buf (default True)"""
    if b["kind"] != "nest":
        return b
    return {"kind": "nest", "ctype": nest_type(b), "copy_buf": b.get("copy_buf") is not False, "inner": b["inner"]}


def _norm_data(kind, dj, case):
    return dj


def compare(case, res, replies):
    if "__timeout__" in res:
        # the watchdog of harness.common ended the real run (reported by the oracle channel): nothing to compare
        return None
    m = model_floats(replies[0])
    if "err" in m:
        return "model driver error: %s" % m["err"]
    if "e" in res:
        if case["op"] == "split" and m.get("raised") == res["e"]:
            return None     # the model predicts this exception (the real run ends with it)
        return "impl raised %s (%s); model %s" % (res["e"], res.get("msg"), str(m)[:300])
    if case["op"] == "split" and m.get("raised"):
        return "the model predicts the exception %s, the real run did not raise" % m["raised"]
    if res.get("nested_shared"):
        return ("the real run shares %d nested mutable object(s) between different root objects (the model assumes none)"
                % res["nested_shared"])
    if case["op"] == "split":
        for key in ("flow", "outs", "stopped"):
            if res[key] != m[key]:
                return "object graph differs in %r: impl %s vs model %s" % (key, _diff(res[key], m[key]), "")
        # the specification-side definitions executed by the driver against the real run
        chk = m.get("check")
        if chk:
            for i, cb in enumerate(chk["branches"]):
                # (the probe of a nested Split stands in its first inner sequence, behind the copy the nested Split
                # itself makes: it does not tell what the outer Split handed over)
                if case["branches"][i]["kind"] != "nest" and cb["fills"] != res["fills"][i]:
                    return ("branch %d: the model's fill/run events say copies %s, the probe in the real run saw %s"
                            % (i, cb["fills"], res["fills"][i]))
            if case["copy_buf"] and not case.get("aliased"):
                if not chk["disjoint"]:
                    return "Lean: the hand events of the model trace are not pairwise disjoint (handCells/Disj)"
                for i, cb in enumerate(chk["branches"]):
                    if not cb["proj_eq"]:
                        return ("Lean: proj %d (trace, and in fill mode the trace of the following compute/request) differs "
                                "from aloneTrace / aloneFillLife on the schedule of its hand events" % i)
                    if not cb.get("sched_ok", True):
                        return "Lean: the schedule of branch %d read off the hand events is not SchedOK / FillOK" % i
                    # (a nested Split with copy_buf=False: its sequences share the objects of a value, and the real
                    # compute() is a generator — the values of the first sequence are yielded before the compute() of
                    # the next one, e.g. a Count, writes into the shared context —, while an invocation of the model is
                    # one step: the contents at the moment of the yield are compared for private objects only)
                    lazy = case["branches"][i]["kind"] == "nest" and case["branches"][i].get("copy_buf") is False
                    if not lazy and cb["alone"] is not None and "alone" in res and not isinstance(res["alone"][i], dict):
                        if cb["alone"] != model_floats(res["alone"][i][0]) and model_floats(cb["alone"]) != res["alone"][i][0]:
                            return ("branch %d: aloneTrace (Lean) yields %s, the real branch alone yields %s"
                                    % (i, str(cb["alone"])[:300], str(res["alone"][i][0])[:300]))
        return None
    kind = acc_kind(case["acc"])
    if res["fill_errs"]:
        return "impl raised in fill: %s" % res["fill_errs"]
    if res["evs"] != m["evs"]:
        return "compute events differ: impl %s vs model %s" % (res["evs"], m["evs"])
    a, b = res["filled"], m["filled"]
    if a != b:
        return "filled values differ: %s" % _diff(a, b)
    a, b = res["outs"], m["outs"]
    if a != b:
        return "yielded values differ: %s" % _diff(a, b)
    top = case["acc"]["a"]
    if m.get("runhist_ok") is False:
        return "Lean: runHist differs from the step-by-step execution of the history"
    if kind not in ALIASING_BY_SPEC and top != "split_fc" and not m.get("fresh_ok"):
        return "Lean: an invocation of the model accumulator violates its FreshYield instance"
    if top not in ("zip", "split_fc") and not m.get("local_ok"):
        return "Lean: an invocation of the model accumulator violates its Local instance (refs_sub / frame)"
    if m.get("fillall") is not None and m["fillall"] != m["outs_cells"]:
        return "Lean: fillAll + compute differs from the step-by-step execution"
    return None


def _diff(a, b):
    if isinstance(a, list) and isinstance(b, list):
        if len(a) != len(b):
            return "lengths %d vs %d: impl %s ; model %s" % (len(a), len(b), str(a)[:400], str(b)[:400])
        for i, (x, y) in enumerate(zip(a, b)):
            if x != y:
                return "at %d: impl %s ; model %s" % (i, str(x)[:300], str(y)[:300])
    return "impl %s ; model %s" % (str(a)[:300], str(b)[:300])


def oracle(case, res):
    if "e" in res:
        if res["e"] == "harness":
            raise RuntimeError(res["msg"])
        return None if case.get("may_raise") else "the real code raised %s: %s (case %s)" % (res["e"], res.get("msg"), str(case)[:300])
    if case["op"] == "split":
        if not case["copy_buf"] or case.get("aliased"):
            return None
        for i, al in enumerate(res["alone"]):
            sp = case["branches"][i]
            if isinstance(al, dict):
                return "branch %d run alone raised %s" % (i, al["e"])
            if res["per_yield"][i] != al[0]:
                return ("branch %d %s inside Split(%s, bufsize=%s) driven by %s yields %s but alone on a private deep "
                        "copy of the flow it yields %s" % (i, _show_branch(sp), len(case["branches"]), case["bufsize"],
                                                          case["mode"], str(res["per_yield"][i])[:500], str(al[0])[:500]))
            if res["per_end"][i] != al[1]:
                return ("after the run the values yielded by branch %d %s are %s, alone they are %s"
                        % (i, _show_branch(sp), str(res["per_end"][i])[:500], str(al[1])[:500]))
        if res["shared"]:
            return "values yielded by branches %s share a mutable object" % res["shared"]
        return None
    # accumulators
    kind = acc_kind(case["acc"])
    if kind in ALIASING_BY_SPEC:
        if res["problems"]:
            return "%s: %s (history %s)" % (kind, res["problems"][0], str(case["hist"])[:400])
        return None
    if "oracle_error" in res:
        raise RuntimeError(res["oracle_error"])
    if res["problems"]:
        return "%s: %s (history %s)" % (kind, res["problems"][0], str(case["hist"])[:400])
    if res["mutated_run"] != res["twin_run"]:
        for n, (a, b) in enumerate(zip(res["mutated_run"], res["twin_run"])):
            if a != b:
                return ("%s: after in-place mutation of everything yielded before, compute #%d gives %s; an untouched twin "
                        "gives %s (history %s)" % (kind, n + 1, str(a)[:300], str(b)[:300], str(case["hist"])[:300]))
        return "%s: mutated run and twin run differ in length" % kind
    return None


def _show_branch(sp):
    if sp["kind"] == "nest":
        return "%s(%s)" % ("Zip" if sp.get("zip") else "Split[copy_buf=%s]" % sp.get("copy_buf"),
                           " | ".join(_show_branch(x) for x in sp["inner"]))
    return "%s[%s%s]" % (sp["kind"], ",".join(s["s"] + str(s.get("name", s.get("n", s.get("v", "")))) for s in sp["steps"]),
                        "" if sp.get("term") is None else ";" + sp["term"]["a"])


# ----------------------------------------------------------------------------------------------
# generation

NAMES = ["a", "b", "c"]


def gen_step(rng, kind, last):
    ks = ["var", "upd", "mkfn", "tag", "app", "setd", "touch", "touch", "touchc"]
    if kind in ("fc", "fr"):
        ks += ["count", "stop"]
    elif last:
        ks += ["count", "emit"]
    k = rng.choice(ks)
    if k == "emit":
        return {"s": "emit"}
    if k == "setd":
        return {"s": "setd", "key": rng.choice(NAMES), "v": rng.randint(0, 3)}
    if k in ("var", "mkfn", "tag", "count"):
        return {"s": k, "name": rng.choice(NAMES)}
    if k == "upd":
        return {"s": "upd", "key": rng.choice(NAMES), "v": rng.randint(0, 3)}
    if k in ("app", "touch", "touchc"):
        return {"s": k, "v": rng.randint(0, 3)}
    return {"s": "stop", "n": rng.randint(0, 4)}


def gen_branch(rng, kind=None, nsteps=None, lists=False):
    kind = kind or rng.choice(["source", "fc", "fc", "fr", "seq", "seq"])
    if kind == "source":
        return {"kind": "source", "steps": [], "term": None, "n": rng.randint(0, 2)}
    n = rng.randint(0, 3) if nsteps is None else nsteps
    steps = [gen_step(rng, kind, j == n - 1) for j in range(n)]
    term = None
    if kind == "fc":
        # Sum / Mean need numeric data
        term = rng.choice(([] if lists else [{"a": "sum"}, {"a": "sum"}, {"a": "mean", "seq": None, "poe": True},
                                             {"a": "mean", "seq": None, "poe": False}])
                          + [{"a": "count", "name": rng.choice(NAMES)}, {"a": "store"}, {"a": "keeplast"}])
    elif kind == "fr":
        term = rng.choice([{"a": "reqsum"}, {"a": "reqstore"}])
    sp = {"kind": kind, "steps": steps, "term": term}
    # given to Split as a plain tuple of elements (a tuple with a Count element would be taken for a
    # fill/compute sequence, so a plain sequence with Count stays explicit)
    if rng.random() < 0.25 and not (kind == "seq" and any(st["s"] == "count" for st in steps)):
        sp["form"] = "tuple"
    return sp


def gen_nest(rng, ctype=None, lists=False, depth=1):
    """a Split or a Zip given directly as a branch: of one common type (all its sequences fill/compute, or all
    fill/request: the object has fill and compute / request), or — ctype "seq" — a Split of mixed sequences, which has
    only run.  With and without the copy_buf keyword, with copy_buf=False, occasionally nested once more."""
    ctype = ctype or rng.choice(["fc", "fc", "fr", "seq"])
    n = rng.randint(1, 3)
    if ctype == "seq":
        kinds = [rng.choice(["fc", "fr", "seq", "seq", "source"]) for _ in range(n)]
        if set(kinds) <= {"fc", "source"} or set(kinds) <= {"fr", "source"}:
            kinds.insert(rng.randint(0, len(kinds)), "seq")
    else:
        kinds = [ctype] * n
    inner = []
    for k in kinds:
        if depth < 2 and k != "source" and rng.random() < 0.12:
            inner.append(gen_nest(rng, k, lists, depth + 1))
        else:
            inner.append(gen_branch(rng, k, lists=lists))
    # in-place mutation in the LAST inner sequence is what a missing copy for the nested object shows by
    if inner[-1]["kind"] in ("fc", "fr", "seq") and not inner[-1]["steps"] and rng.random() < 0.7:
        inner[-1]["steps"] = [gen_step(rng, inner[-1]["kind"], False)]
    sp = {"kind": "nest", "zip": ctype != "seq" and rng.random() < 0.3, "inner": inner, "steps": [], "term": None,
          "copy_buf": rng.choice([None, None, True, False])}
    if ctype == "seq" and rng.random() < 0.5:
        sp["bufsize"] = rng.choice([1, 2, None])
    return sp


def _may_raise(b):
    if b["kind"] == "nest":
        # (a Zip raises TypeError in update_nested on a context that already has a "zip" entry: see ASSUMPTIONS)
        return bool(b.get("zip")) or any(_may_raise(x) for x in b["inner"])
    return bool(b.get("term") and b["term"].get("poe") is False)


def _deep(i, depth=8):
    """a dictionary nested `depth` levels deep with a list at the bottom"""
    v = [i]
    for lvl in range(depth):
        v = {"l%d" % lvl: v}
    return v


def ctx_shapes(i):
    """the shapes of contexts (as the JSON of a case).  Plain ones: nested dictionaries, lists, tuples of dictionaries
    (what Zip produces), lists of dictionaries.  Others: the context or something inside it is an instance of a dict
    subclass (lena.context.Context, OrderedDict, a user class), of a list subclass, a deque, a bytearray, a user
    object with mutable attributes (instance dictionary / slots)."""
    plain = [
        {"n": {"i": i}}, {"k": i, "tags": ["t"]}, {}, {"output": {"filename": "f"}}, {"upd": 5, "variable": {"name": "z"}},
        {"a": i, "zip": ({"pp": 1}, {"qq": [2]})}, {"lst": [{"u": i}, (3, {"w": [i]})]}, {"x": i},
        {"variable": {"name": "x", "range": [0, i]}},
        {"deep": _deep(i)},
    ]
    other = [
        O("lctx", enc({"variable": {"name": "x", "range": [0, i]}})),
        O("lctx", {"d": {"k": i, "sub": O("lctx", enc({"u": [i]}))}}),
        O("odict", {"d": {"k": i, "sub": O("mydict", enc({"u": [i]}))}}),
        {"d": {"ev": O("rec", enc({"name": "x", "hits": [0, i]}))}},
        {"d": {"ev": O("slot", {"d": {"x": i, "inner": O("rec", enc({"hits": [i]}))}}), "k": i}},
        {"d": {"lst": O("mylist", [enc({"u": i})]), "dq": O("deque", [[i]])}},
        {"d": {"raw": O("bytes", [i]), "tags": O("mylist", ["t"])}},
        O("mydict", {"d": {"tab": {"t": [O("rec", enc({"w": [i]})), i]}}}),
        {"d": {"objs": O("set", [O("rec", enc({"w": [i]}))]), "k": i}},
        {"d": {"pt": O("ntup", [i, O("rec", enc({"w": [i]}))]), "k": i}},
    ]
    return [enc(c) for c in plain], other


def gen_ctx(rng, i):
    """a context, as JSON"""
    plain, other = ctx_shapes(i)
    r = rng.random()
    if r < 0.3:
        return plain[0]
    if r < 0.45:
        return plain[1]
    if r < 0.52:
        return plain[2]
    if r < 0.70:
        return rng.choice(plain[3:])
    return rng.choice(other)


def data_shapes(i):
    """the shapes of mutable data (as the JSON of a case): list, dictionary, and objects of other classes — a user
    object with mutable attributes (hashable!), dict / list subclasses, deque, bytearray, a tuple that holds mutable
    objects — with further mutable objects inside"""
    return [
        [i], enc({"x": i}),
        O("rec", enc({"x": i, "hits": [i, i + 1]})),
        O("slot", enc({"x": i, "hits": [i]})),
        O("rec", {"d": {"inner": O("rec", enc({"hits": [i]})), "tab": enc({"w": [i]})}}),
        O("mydict", enc({"x": i, "sub": {"y": [i]}})),
        O("odict", {"d": {"x": i, "ev": O("slot", enc({"hits": [i]}))}}),
        O("mylist", [i, [i]]),
        O("deque", [i, enc({"z": i})]),
        O("bytes", [i]),
        {"t": [i, [i]]},
        {"t": [O("rec", enc({"hits": [i]})), i]},
        [O("rec", enc({"hits": [i]})), enc({"k": [i]})],
        {"d": {"ev": O("slot", enc({"hits": [i]})), "dq": O("deque", [i])}},
        O("set", [O("rec", enc({"hits": [i]}))]),
        O("fset", [O("slot", enc({"hits": [i]}))]),
        O("ntup", [i, [i]]),
        O("rec", enc({"deep": _deep(i)})),
    ]


def gen_data(rng, i):
    shapes = data_shapes(i)
    r = rng.random()
    if r < 0.3:
        return shapes[0]
    if r < 0.45:
        return shapes[1]
    return rng.choice(shapes[2:])


def gen_flow(rng, n, aliased=False, int_only=False, p_obj=0.25):
    """p_obj: the probability that the data of a value is a mutable object (else an int)"""
    heap, flow = {}, []
    datacells = set()
    k = 0
    for i in range(n):
        it = {"d": i, "c": None}
        if not int_only and rng.random() < p_obj:
            if aliased and k and rng.random() < 0.4:
                cands = sorted(datacells)
                if cands:
                    it["d"] = {"cell": int(rng.choice(cands))}
            if not isinstance(it["d"], dict):
                heap[str(k)] = gen_data(rng, i)
                datacells.add(str(k))
                it["d"] = {"cell": k}
                k += 1
        if rng.random() < 0.8:
            cands = [t for t in heap if t not in datacells]
            if aliased and cands and rng.random() < 0.5:
                it["c"] = int(rng.choice(cands))
            else:
                heap[str(k)] = gen_ctx(rng, i)
                it["c"] = k
                k += 1
        flow.append(it)
    return heap, flow


def gen_split_case(rng, mode=None, aliased=None, copy_buf=None):
    mode = mode or rng.choice(["run", "run", "run", "fill", "zip"])
    n = rng.randint(0, 7)
    aliased = (rng.random() < 0.15) if aliased is None else aliased
    # numeric flows (Sum / Mean terminals) / mixed / flows of objects
    r = rng.random()
    heap, flow = gen_flow(rng, n, aliased, int_only=r < 0.4, p_obj=0.25 if r < 0.75 else 0.85)
    lists = any(isinstance(it["d"], dict) for it in flow)
    if mode == "run":
        nb = rng.randint(1, 4) if rng.random() < 0.98 else 0
        branches = [gen_branch(rng, lists=lists) for _ in range(nb)]
    else:
        kind = rng.choice(["fc", "fc", "fr"])
        nb = rng.randint(1, 3)
        branches = [gen_branch(rng, kind, lists=lists) for _ in range(nb)]
    copy_buf = (rng.random() < 0.85) if copy_buf is None else copy_buf
    if branches and rng.random() < 0.2:
        # a Split / Zip given directly as a branch (in any position; sometimes two of them)
        for _ in range(1 if rng.random() < 0.8 else 2):
            j = rng.randrange(len(branches))
            if mode != "run":
                branches[j] = gen_nest(rng, kind, lists)
            elif branches[j]["kind"] != "source":
                branches[j] = gen_nest(rng, nest_type(branches[j]) if rng.random() < 0.7 else None, lists)
        if has_nest({"branches": branches}) and not nest_modelled({"branches": branches, "mode": mode}):
            # judged by the oracle only, which speaks about copy_buf=True and alias-free flows
            copy_buf = True
    bufsize = rng.choice([1, 2, 3, max(n, 1), n + 1, 1000, None])
    return {"op": "split", "mode": mode, "branches": branches, "bufsize": bufsize, "copy_buf": copy_buf,
            "heap": heap, "flow": flow, "aliased": aliased, "nokw": rng.random() < 0.6,
            # a Mean that is never filled raises LenaZeroDivisionError and ends the whole run
            "may_raise": any(_may_raise(b) for b in branches)}


_SUM, _CNT = {"a": "sum"}, {"a": "count", "name": "n"}
_MEAN = {"a": "mean", "seq": None, "poe": False}
ACC_KINDS = [
    {"a": "sum"}, {"a": "dsum"}, {"a": "count", "name": "n"},
    {"a": "mean", "seq": None, "poe": False}, {"a": "mean", "seq": None, "poe": True},
    {"a": "mean", "seq": "sum", "poe": False}, {"a": "mean", "seq": "dsum", "poe": False},
    {"a": "mean", "seq": {"count": "n_ev"}, "poe": True},
    {"a": "vmc", "corrected": True, "poe": False}, {"a": "vmc", "corrected": False, "poe": True},
    {"a": "vectorize", "dim": 2}, {"a": "vec_list"}, {"a": "histogram"}, {"a": "sib", "var": "x", "lo": 0, "hi": 3},
    {"a": "graph"}, {"a": "nphist", "reset": False}, {"a": "nphist", "reset": True},
    {"a": "store"}, {"a": "store_group"}, {"a": "groupby", "key": "g"}, {"a": "keeplast"},
    {"a": "reqsum"}, {"a": "reqstore"},
    {"a": "mean_counts", "names": ["a", "b"]}, {"a": "mean_counts", "names": ["a", "b", "c"]},
    {"a": "vec_multi", "k": 2}, {"a": "vec_multi", "k": 3}, {"a": "sib_multi", "var": "x", "lo": 0, "hi": 3, "k": 2},
    {"a": "sib_multi", "var": "y", "lo": 1, "hi": 3, "k": 3},
    {"a": "zip", "subs": [_SUM, _CNT]}, {"a": "zip", "subs": [_SUM, _SUM]}, {"a": "zip", "subs": [_CNT, _MEAN, {"a": "histogram"}]},
    {"a": "zip", "subs": [_MEAN]}, {"a": "zip", "subs": [{"a": "reqsum"}, {"a": "reqsum"}]},
    {"a": "zip", "subs": [_SUM, _CNT], "fields": ["s", "c"]}, {"a": "graph", "ctx": 90},
    {"a": "fcseq", "steps": [{"s": "var", "name": "v"}], "term": _SUM},
    {"a": "fcseq", "steps": [{"s": "tag", "name": "a"}, {"s": "count", "name": "c"}], "term": _CNT},
    {"a": "fillcompute", "of": _MEAN}, {"a": "fillcompute", "of": {"a": "histogram"}},
]
ORACLE_ONLY_KINDS = [
    {"a": "split_fc", "subs": [_SUM, _CNT, _MEAN]},
    {"a": "fillrequest", "of": _SUM, "bufsize": 1, "reset": True, "bi": False},
    {"a": "fillrequest", "of": _SUM, "bufsize": 2, "reset": False, "bi": True},
    {"a": "fillrequest", "of": _CNT, "bufsize": 1, "reset": False, "bi": True},
    {"a": "fillrequest", "of": {"a": "mean", "seq": None, "poe": True}, "bufsize": 2, "reset": True, "bi": False},
]
REFILL_KINDS = ("sum", "dsum", "count", "store", "keeplast")


def _acc_item(kind, i, c):
    if kind in ("vectorize", "vec_list", "graph", "vec_multi"):
        return {"d": {"t": [i, i + 1]}, "c": c}
    return {"d": i, "c": c}


def _acc_ctx(rng, kind, i):
    """a context (JSON) for an accumulator history"""
    ctx = copy.deepcopy(gen_ctx(rng, i))
    if kind == "zip" and ("zip" in _jd(ctx) or has_kind(ctx, SET_KINDS)):
        # Zip on contexts that already have a "zip" entry raises TypeError in update_nested (tuple assignment);
        # not a matter of aliasing.  Zip compares the contexts of its branches with ==: two sets of user objects that
        # are hashed by identity are never equal (the model compares contents)
        ctx = enc({"a": i})
    if kind == "groupby" and rng.random() < 0.8:
        _jd(ctx)["g"] = rng.randint(1, 2)
    return ctx


def _is_request(acc):
    return (acc["a"] in ("reqsum", "reqstore", "fillrequest", "nphist")
            or (acc["a"] == "zip" and all(x["a"] == "reqsum" for x in acc["subs"])))


def _can_reset(acc):
    if acc["a"] == "fillrequest":
        return _can_reset(acc["of"])
    if acc["a"] == "zip":
        return all(x["a"] == "reqsum" for x in acc["subs"])
    return acc["a"] in HAS_RESET or (acc["a"] == "mean" and not isinstance(acc["seq"], dict))


def gen_acc_case(rng, acc=None, nops=None):
    acc = acc or rng.choice(ACC_KINDS + ORACLE_ONLY_KINDS)
    kind = acc_kind(acc)
    nops = nops or rng.randint(1, 8)
    heap, hist = {}, []
    k = 0
    nf = nc = 0
    for _ in range(nops):
        r = rng.random()
        if r < 0.45:
            c = None
            rr = rng.random()
            if rr < 0.1 and nf and acc["a"] != "graph":
                # the very same value object again
                hist.append({"ff": rng.randint(0, nf - 1)})
                nf += 1
                continue
            if rr < 0.2 and k:
                # another value that shares its context object with an earlier one
                c = rng.randint(0, k - 1)
            elif rr < 0.87:
                heap[str(k)] = _acc_ctx(rng, kind, nf)
                c = k
                k += 1
            hist.append({"f": _acc_item(kind, rng.randint(-1, 4) if kind in ("sib", "sib_multi") else rng.randint(0, 4), c)})
            nf += 1
        elif r < 0.78:
            hist.append({"r": 1} if _is_request(acc) else {"c": 1})
            nc += 1
        elif r < 0.86 and nc:
            hist.append({"my": rng.randint(0, nc), "key": rng.choice(NAMES)})
        elif r < 0.92 and nf:
            hist.append({"mf": rng.randint(0, nf - 1), "key": rng.choice(NAMES)})
        elif r < 0.96 and _can_reset(acc):
            hist.append({"reset": 1})
        elif nc and acc["a"] in REFILL_KINDS:
            hist.append({"rf": rng.randint(0, nc)})
        else:
            hist.append({"r": 1} if _is_request(acc) else {"c": 1})
            nc += 1
    if acc.get("ctx") is not None:
        heap[str(acc["ctx"])] = enc({"init": {"i": 1}})
    return {"op": "acc", "acc": acc, "heap": heap, "hist": hist, "may_raise": False}


def enum_acc_histories(maxlen, with_reset):
    """all histories up to maxlen operations over the alphabet fill(value with context) / fill(bare) / compute /
    mutate the last filled value (/ reset)"""
    alphabet = ["fc", "fb", "c", "mf"] + (["rs"] if with_reset else [])
    for n in range(1, maxlen + 1):
        for word in itertools.product(alphabet, repeat=n):
            if "c" not in word:
                continue
            yield word


def hist_of_word(kind, word, request=False):
    heap, hist = {}, []
    k = nf = 0
    for w in word:
        if w == "fc":
            ctx = {"n": {"i": nf}} if nf % 2 == 0 else {"x": nf}
            if kind == "groupby":
                ctx["g"] = 1 + (nf % 3) // 2
            ctx = enc(ctx)
            if nf % 3 == 2:
                # the third context of a history is a lena.context.Context holding a list subclass
                ctx = O("lctx", {"d": dict(_jd(ctx), tags=O("mylist", ["t"]))})
            heap[str(k)] = ctx
            hist.append({"f": _acc_item(kind, nf + 1, k)})
            k += 1
            nf += 1
        elif w == "fb":
            hist.append({"f": _acc_item(kind, nf + 1, None)})
            nf += 1
        elif w == "c":
            hist.append({"r": 1} if request else {"c": 1})
        elif w == "rs":
            hist.append({"reset": 1})
        elif w == "mf":
            if nf:
                hist.append({"mf": nf - 1, "key": "m"})
    return heap, hist


def kind_cases():
    """every shape of data and of context (data_shapes, ctx_shapes) systematically: in a Split driven by run, by fill
    and in a Zip, with branches that change everything reachable in place; every accumulator kind with every shape of
    context that is not a plain dictionary"""
    out = []
    plain, other = ctx_shapes(1)
    n_ctx = len(plain) + len(other)

    def T(v):
        return {"s": "touch", "v": v}

    def TC(v):
        return {"s": "touchc", "v": v}

    def fc(steps, term):
        return {"kind": "fc", "steps": steps, "term": term}

    def sq(steps):
        return {"kind": "seq", "steps": steps, "term": None}

    run_sets = [
        [fc([T(1)], {"a": "keeplast"}), sq([T(2), {"s": "tag", "name": "a"}]), fc([{"s": "setd", "key": "a", "v": 3}], {"a": "store"})],
        [sq([T(1)]), sq([{"s": "app", "v": 2}, TC(2)]), sq([])],
    ]
    fill_sets = [
        [fc([T(1)], {"a": "store"}), fc([{"s": "app", "v": 2}], {"a": "keeplast"}), fc([T(3)], {"a": "count", "name": "c"})],
        [fc([T(1), TC(1)], {"a": "keeplast"}), fc([], {"a": "store"})],
    ]
    for j in range(len(data_shapes(0))):
        for mode, sets in (("run", run_sets), ("fill", fill_sets), ("zip", fill_sets)):
            for bi, branches in enumerate(sets):
                heap, flow = {}, []
                for i in range(3):
                    p, o = ctx_shapes(i)
                    heap[str(2 * i)] = data_shapes(i)[j]
                    heap[str(2 * i + 1)] = (p + o)[(j + i) % n_ctx]
                    flow.append({"d": {"cell": 2 * i}, "c": 2 * i + 1 if i != 1 else None})
                out.append({"op": "split", "mode": mode, "branches": branches, "bufsize": (2, None)[bi], "copy_buf": True,
                            "heap": heap, "flow": flow, "aliased": False, "nokw": bool(bi)})
    ctx_sets = {
        "run": [fc([TC(1)], {"a": "sum"}), sq([TC(2), {"s": "tag", "name": "a"}]), fc([{"s": "upd", "key": "a", "v": 1}], {"a": "count", "name": "c"}),
                sq([{"s": "var", "name": "b"}])],
        "fill": [fc([TC(1)], {"a": "sum"}), fc([{"s": "mkfn", "name": "a"}, TC(2)], {"a": "store"}), fc([], {"a": "count", "name": "c"})],
    }
    ctx_sets["zip"] = ctx_sets["fill"]
    for j in range(n_ctx):
        for mode in ("run", "fill", "zip"):
            heap, flow = {}, []
            for i in range(3):
                p, o = ctx_shapes(i)
                heap[str(i)] = (p + o)[j]
                flow.append({"d": i, "c": i})
            out.append({"op": "split", "mode": mode, "branches": ctx_sets[mode], "bufsize": 2, "copy_buf": True,
                        "heap": heap, "flow": flow, "aliased": False, "nokw": True})
    for acc in ACC_KINDS + ORACLE_ONLY_KINDS:
        kind = acc_kind(acc)
        req = {"r": 1} if _is_request(acc) else {"c": 1}
        for j in range(len(other)):
            if kind == "zip" and has_kind(other[j], SET_KINDS):
                continue
            heap = {}
            for i in range(2):
                heap[str(i)] = copy.deepcopy(ctx_shapes(i)[1][j])
                if kind == "groupby":
                    _jd(heap[str(i)])["g"] = 1
            if acc.get("ctx") is not None:
                heap[str(acc["ctx"])] = copy.deepcopy(ctx_shapes(7)[1][j])
            hist = [{"f": _acc_item(kind, 1, 0)}, {"f": _acc_item(kind, 2, 1)}, req, req, {"f": _acc_item(kind, 3, 1)}, req]
            out.append({"op": "acc", "acc": acc, "heap": heap, "hist": hist, "may_raise": False})
    return out


def nest_cases():
    """a Split / Zip given DIRECTLY as a branch of the Split / Zip of the case, systematically: in first, middle and
    last position and two side by side; as a Split without the copy_buf keyword, with copy_buf=True and False, as a
    Zip; of the common types fill/compute and fill/request and of mixed sequences (a Run element then); its last
    and its first inner sequence changing data and context in place; the outer object driven by run (several
    bufsizes), by fill + compute / request and as a Zip; nested twice."""
    out = []

    def T(v):
        return {"s": "touch", "v": v}

    def TC(v):
        return {"s": "touchc", "v": v}

    def br(kind, steps, term=None):
        return {"kind": kind, "steps": steps, "term": term}

    V = {"s": "var", "name": "a"}
    TAG = {"s": "tag", "name": "t"}
    UPD = {"s": "upd", "key": "k", "v": 2}
    MK = {"s": "mkfn", "name": "f"}
    CNT = {"s": "count", "name": "c"}
    SUM, STORE, KEEP = {"a": "sum"}, {"a": "store"}, {"a": "keeplast"}
    inner_sets = {
        "fc": [
            ([br("fc", [], SUM), br("fc", [V], SUM)], True),
            ([br("fc", [TC(1)], STORE), br("fc", [TAG, UPD, T(3)], KEEP)], False),
            ([br("fc", [MK, CNT], {"a": "count", "name": "n"})], True),
            ([br("fc", [V, T(1)], STORE), br("fc", [], KEEP), br("fc", [TC(4)], STORE)], False),
        ],
        "fr": [
            ([br("fr", [], {"a": "reqsum"}), br("fr", [V, TC(1)], {"a": "reqsum"})], True),
            ([br("fr", [T(1)], {"a": "reqstore"}), br("fr", [TAG, T(2)], {"a": "reqstore"})], False),
        ],
    }
    siblings = {
        "fc": lambda numeric: [br("fc", [], SUM if numeric else STORE), br("fc", [TC(2), T(2)], STORE)],
        "fr": lambda numeric: [br("fr", [], {"a": "reqsum"} if numeric else {"a": "reqstore"}),
                               br("fr", [TC(2), T(2)], {"a": "reqstore"})],
    }
    variants = [{"zip": False, "copy_buf": None}, {"zip": False, "copy_buf": True}, {"zip": False, "copy_buf": False},
                {"zip": True, "copy_buf": None}]

    def flow_of(numeric):
        heap, flow = {}, []
        for i in range(3):
            if numeric:
                heap[str(i)] = enc({"n": {"i": i}, "lst": [i]})
                flow.append({"d": i + 1, "c": i})
            else:
                heap[str(2 * i)] = data_shapes(i)[(0, 2, 1)[i]]
                heap[str(2 * i + 1)] = enc({"n": {"i": i}})
                flow.append({"d": {"cell": 2 * i}, "c": 2 * i + 1 if i != 1 else None})
        return heap, flow

    def case(mode, branches, bufsize, heap, flow, nokw):
        return {"op": "split", "mode": mode, "branches": branches, "bufsize": bufsize, "copy_buf": True,
                "heap": heap, "flow": flow, "aliased": False, "nokw": nokw}

    k = 0
    for ctype in ("fc", "fr"):
        for inner, numeric in inner_sets[ctype]:
            heap, flow = flow_of(numeric)
            sib = siblings[ctype](numeric)
            for var in variants:
                nest = dict({"kind": "nest", "inner": inner, "steps": [], "term": None}, **var)
                other = dict(nest, inner=list(reversed(inner)))
                layouts = [[nest, sib[0]], [sib[1], nest, sib[0]], [sib[0], nest], [nest, other, sib[0]]]
                for branches in layouts:
                    for mode, bufsize in (("run", 1), ("run", 2), ("run", None), ("fill", 1000), ("zip", 1000)):
                        k += 1
                        out.append(case(mode, branches, bufsize, heap, flow, bool(k % 2)))
                    if not var["zip"]:
                        # copy_buf=False on the outer level (both values on both levels): for the correspondence
                        for mode, bufsize in (("run", 2), ("fill", 1000)):
                            out.append(dict(case(mode, branches, bufsize, heap, flow, False), copy_buf=False))
    # a Split of mixed sequences as a branch: a Run element, run on every buffer of the Split around it
    mixed_sets = [
        [br("seq", [TC(1)]), br("fc", [V], SUM)],
        [br("seq", [TAG, CNT]), {"kind": "source", "steps": [], "term": None, "n": 1}, br("fr", [T(1), UPD], {"a": "reqstore"})],
    ]
    for mi, inner in enumerate(mixed_sets):
        heap, flow = flow_of(mi == 0)
        for cb in (None, True, False):
            for ibuf in (1000, 1):
                nest = {"kind": "nest", "zip": False, "copy_buf": cb, "bufsize": ibuf, "inner": inner, "steps": [], "term": None}
                sib = [br("seq", [TC(2), T(2)]), br("fc", [], SUM if mi == 0 else STORE)]
                for branches in ([nest, sib[1]], [sib[0], nest, sib[1]], [sib[1], nest], [nest, sib[0]]):
                    for bufsize in (1, 2, None):
                        out.append(case("run", branches, bufsize, heap, flow, True))
    # nested twice
    heap, flow = flow_of(True)
    inner2 = {"kind": "nest", "zip": False, "copy_buf": None, "steps": [], "term": None,
              "inner": [br("fc", [], SUM), br("fc", [V], SUM)]}
    for var in variants:
        mid = dict({"kind": "nest", "steps": [], "term": None, "inner": [inner2, br("fc", [TC(1)], SUM)]}, **var)
        for branches in ([mid, br("fc", [], SUM)], [br("fc", [], SUM), mid, br("fc", [], STORE)]):
            for mode, bufsize in (("run", 2), ("fill", 1000), ("zip", 1000)):
                out.append(case(mode, branches, bufsize, heap, flow, True))
    return out


def gen_cases(ctx):
    """a generator: the thorough tier is enumerated lazily"""
    rng = ctx.rng
    thorough = ctx.tier == "thorough"
    # the seeded-style regression scenarios (a branch stopped in the middle of a buffer; Mean with a multi-valued sum_seq)
    for c in fixed_cases():
        yield c
    # every kind of object as data and inside contexts
    for c in kind_cases():
        yield c
    # a Split / Zip given directly as a branch
    for c in nest_cases():
        yield c
    # accumulators: all short histories
    maxlen = 5 if thorough else 4
    for acc in ACC_KINDS + ORACLE_ONLY_KINDS:
        rs = _can_reset(acc)
        for word in enum_acc_histories(maxlen - 1 if (rs or acc in ORACLE_ONLY_KINDS) else maxlen, rs):
            heap, hist = hist_of_word(acc_kind(acc), word, _is_request(acc))
            if acc.get("ctx") is not None:
                heap[str(acc["ctx"])] = enc({"init": {"i": 1}})
            yield {"op": "acc", "acc": acc, "heap": heap, "hist": hist, "may_raise": False}
    n_split = 55000 if thorough else 5000
    n_acc = 30000 if thorough else 3500
    for _ in range(n_split):
        yield gen_split_case(rng)
    for _ in range(n_acc):
        yield gen_acc_case(rng)


def fixed_cases():
    out = []
    heap = {str(i): enc({"n": {"i": i}}) for i in range(5)}
    flow = [{"d": i, "c": i} for i in range(5)]
    first = {"kind": "fc", "steps": [{"s": "tag", "name": "a"}, {"s": "var", "name": "b"}, {"s": "stop", "n": 2}],
             "term": {"a": "sum"}}
    second = {"kind": "fc", "steps": [{"s": "tag", "name": "b"}], "term": {"a": "store"}}
    third = {"kind": "fc", "steps": [], "term": {"a": "sum"}}
    for bufsize in (1000, None, 5, 4, 3, 1):
        out.append({"op": "split", "mode": "run", "branches": [first, second, third], "bufsize": bufsize,
                    "copy_buf": True, "heap": heap, "flow": flow, "aliased": False})
    src = {"kind": "source", "steps": [], "term": None, "n": 2}
    sq = {"kind": "seq", "steps": [{"s": "upd", "key": "a", "v": 1}, {"s": "count", "name": "c"}], "term": None}
    fr = {"kind": "fr", "steps": [{"s": "mkfn", "name": "a"}, {"s": "stop", "n": 1}], "term": {"a": "reqstore"}}
    for bufsize in (2, 3, None):
        out.append({"op": "split", "mode": "run", "branches": [fr, src, sq, second], "bufsize": bufsize,
                    "copy_buf": True, "heap": heap, "flow": flow, "aliased": False})
    acc = {"a": "mean", "seq": {"count": "n_ev"}, "poe": False}
    h = {"0": enc({"variable": {"name": "x", "range": [0, 10]}}), "1": enc({"variable": {"name": "x", "range": [0, 10]}})}
    out.append({"op": "acc", "acc": acc, "heap": h, "hist": [{"f": {"d": 1, "c": 0}}, {"f": {"d": 3, "c": 1}}, {"c": 1},
                                                           {"my": 0, "key": "a"}, {"c": 1}], "may_raise": False})
    return out


def nontrivial(case, res):
    if "e" in res:
        return False
    outs = res.get("outs", [])
    return any(o["c"] is not None for o in outs) and (case["op"] == "acc" or any(all_steps(b) for b in case["branches"]))


def classify(case, res):
    if case["op"] == "split":
        labels = ["split:" + case["mode"], "copy_buf=%s" % case["copy_buf"], "bufsize=%s" % case["bufsize"],
                  "branches=%d" % len(case["branches"])]
        if case.get("aliased"):
            labels.append("aliased-flow")
        nb = len(case["branches"])
        for pos, b in enumerate(case["branches"]):
            labels.append("kind:" + b["kind"])
            for s in all_steps(b):
                labels.append("step:" + s["s"])
            if b["kind"] == "nest":
                what = "zip" if b.get("zip") else "split(copy_buf=%s)" % b.get("copy_buf")
                labels.append("nest:%s:%s:%s" % (what, nest_type(b), "last" if pos == nb - 1 else "not-last"))
                if any(x["kind"] == "nest" for x in b["inner"]):
                    labels.append("nest:depth>=2")
                if b["inner"] and all_steps(b["inner"][-1]):
                    labels.append("nest:last-inner-mutates:" + ("last" if pos == nb - 1 else "not-last"))
        labels += sorted("object:" + k for k in kinds_in(case["heap"]))
        if "e" in res:
            labels.append("split:raised:" + res["e"])
        if res.get("zip_seqs"):
            # Zip given plain tuples: its own sequences observed ("of-zip", a private list read defensively) or, when
            # that list is not to be had, sequences made by the harness given to Zip ("rebuilt")
            labels.append("zip:tuple-branches:" + res["zip_seqs"])
        return labels
    labels = ["acc:" + jshort(case["acc"])] + sorted("object:" + k for k in kinds_in(case["heap"]))
    for e in res.get("evs", []):
        if e.get("err"):
            labels.append("acc-error:" + e["err"])
    return labels


def jshort(a):
    if a["a"] in ("zip", "split_fc"):
        return a["a"] + "[" + ",".join(jshort(x) for x in a["subs"]) + "]"
    if a["a"] == "fcseq":
        return "fcseq[" + ",".join(st["s"] for st in a["steps"]) + ";" + jshort(a["term"]) + "]"
    if a["a"] == "fillcompute":
        return "fillcompute[" + jshort(a["of"]) + "]"
    if a["a"] == "mean":
        return "mean(%s,%s)" % (a["seq"] if not isinstance(a["seq"], dict) else "sumcount", a["poe"])
    return a["a"]


def signature(case, failure):
    if case["op"] == "split":
        return "split:%s:%s" % (case["mode"], ";".join(_show_branch(b) for b in case["branches"]))
    return "acc:%s:%s" % (jshort(case["acc"]), "".join(sorted(k for op in case["hist"] for k in op if k in ("f", "c", "my", "mf", "rf", "reset"))))


def _shrink_branch(b):
    """smaller branches: one element less; for a nested Split / Zip one inner sequence less, or a smaller one"""
    if b["kind"] == "nest":
        for j in range(len(b["inner"])):
            if len(b["inner"]) > 1:
                cand = dict(b, inner=b["inner"][:j] + b["inner"][j + 1:])
                if nest_type(cand) == nest_type(b):
                    yield cand
            for x in _shrink_branch(b["inner"][j]):
                yield dict(b, inner=b["inner"][:j] + [x] + b["inner"][j + 1:])
        return
    for j in range(len(b["steps"])):
        yield dict(b, steps=b["steps"][:j] + b["steps"][j + 1:])


def shrink(case):
    if case["op"] == "split":
        if len(case["flow"]) > 0:
            yield dict(case, flow=case["flow"][:-1])
            yield dict(case, flow=case["flow"][1:])
        for i in range(len(case["branches"])):
            if len(case["branches"]) > 1:
                yield dict(case, branches=case["branches"][:i] + case["branches"][i + 1:])
            b = case["branches"][i]
            for nb in _shrink_branch(b):
                yield dict(case, branches=case["branches"][:i] + [nb] + case["branches"][i + 1:])
        if case["bufsize"] not in (None, 1000):
            yield dict(case, bufsize=None)
    else:
        h = case["hist"]
        for i in range(len(h)):
            cand = h[:i] + h[i + 1:]
            if any("c" in op or "r" in op for op in cand):
                yield dict(case, hist=cand)


# ---- MANIFEST texts ------------------------------------------------------------------------
LEVEL_TEXT = ("Lean 4 theorems about a shared-heap (object identity) model of Split.run/_fill/_compute, Zip._fill/_compute and "
              "the accumulators, for all branch lists, flows, bufsizes and histories: disjointness of the objects handed to "
              "the branches; equality of every branch's event trace (run), resp. of its filling events and of what it then "
              "yields (fill/request, Zip), with the branch run alone (under locality of mutation, proved for the model's "
              "elements; runs without exceptions other than LenaStopFill); freshness of every yielded context over all "
              "histories (accumulators incl. multi-valued compute loops and NumpyHistogram, sequences, Zip, Split through "
              "fill/compute); "
              "downstream in-place updates of yielded values change no later response (accumulators). The model is tied to "
              "/repo by a correspondence check on the id() graph of real runs, plus a direct oracle (branch alone vs inside "
              "Split; freshness and mutation-robustness of yielded contexts). A Split given directly as a branch of another Split/Zip is a branch object of the "
              "model (correspondence; Local for it is an assumption). Not modelled, oracle only: the FillRequest "
              "adapter, a nested Zip or mixed Split as a branch; sharing of objects nested inside a context (a context is one cell of the model).")
LEVEL_NOTE = ("Trusted: Lean kernel (+ propext, Classical.choice, Quot.sound), the hand transcription validated by the "
              "correspondence runs, locality of mutation for user code, absence of exceptions other than LenaStopFill in "
              "the generic Split theorems, the id()-graph observation (dict/list/tuple), the JSON protocol. 5 of the "
              "audited theorems only document specified aliasing (AUX_THEOREMS) and are not counted.")
TECHNIQUE = "Lean 4 proof over hand-written token/heap model + correspondence check on id() graphs"
DESIGN_REF = "DESIGN.md section 3, C04"
