"""C17 — flow iterators equal their Python reference (Slice is list slicing).

Real code: lena.flow.Slice / Reverse / Chain / CountFrom / RunningChunkBy.
Model: lean/LenaModel/Model/C17.lean, theorems lean/LenaModel/Props/C17.lean.
"""
import itertools

from harness.common import exc_name

PID = "C17"
TITLE = "Flow iterators equal their Python reference (Slice is list slicing)"
LEAN_MODULES = ["LenaModel.Props.C17"]
LEAN_SOURCES = ["LenaModel/Model/C17.lean", "LenaModel/Props/C17.lean"]
DRIVER = "drivers/C17.lean"
THEOREMS = [
    "Lena.C17.slice_run_eq_pyslice",
    "Lena.C17.slice_rejects_bad_step",
    "Lena.C17.slice_accepts_good_step",
    "Lena.C17.pySlice_getElem?",
    "Lena.C17.islice_eq_pySlice",
    "Lena.C17.runNegative_eq_pySlice",
    "Lena.C17.fill_into_eq",
    "Lena.C17.stopfill_only_when_done",
    "Lena.C17.reverse_spec",
    "Lena.C17.chain_spec",
    "Lena.C17.countfrom_spec",
    "Lena.C17.chunks_are_windows",
    "Lena.C17.windows_spec",
    "Lena.C17.windows_short",
]
TRUSTED = [
    "Lean 4.33.0 kernel; axioms limited to propext, Classical.choice, Quot.sound (audited by #print axioms on every run)",
    "hand transcription of lena/flow/iterators.py and RunningChunkBy.run into LenaModel/Model/C17.lean, validated by this "
    "correspondence check on the property's whole enumerated scope",
    "itertools.islice / collections.deque / itertools.chain / itertools.count semantics as transcribed (validated likewise)",
    "JSON line protocol encoders (harness/props/c17.py, drivers/C17.lean)",
]
ASSUMPTIONS = [
    "finite flows of integers stand for finite flows of arbitrary values (the code never inspects the values)",
    "pySlice (Lean) is Python list slicing: checked against xs[a:b:s] on every case",
]
RULE = ("quick and thorough: exhaustive enumeration of start,stop in {None,-7..7} x step in {None,1..4} x len 0..10 "
        "(plus one- and two-argument call forms, steps 0,-1,-3 for rejection), fill_into for all non-negative "
        "combinations, Reverse/Chain/CountFrom/RunningChunkBy(1..5, tuple/list/namedtuple-style containers); thorough adds "
        "seeded random cases with len<=60, |index|<=70, step<=12. Non-trivial: result non-empty or an exception.")
CASE_TIMEOUT = 10


def _slice_cases(starts, stops, steps, lens):
    for a in starts:
        for b in stops:
            for s in steps:
                for n in lens:
                    yield {"op": "slice", "start": a, "stop": b, "step": s, "n": n, "form": 3}


def gen_cases(ctx):
    rng = ctx.rng
    idx = [None] + list(range(-7, 8))
    cases = list(_slice_cases(idx, idx, [None, 1, 2, 3, 4], range(0, 11)))
    # call forms Slice(stop), Slice(start, stop)
    for b in idx:
        for n in range(0, 11):
            cases.append({"op": "slice", "start": None, "stop": b, "step": None, "n": n, "form": 1})
    for a in idx:
        for b in idx:
            for n in (0, 1, 5, 10):
                cases.append({"op": "slice", "start": a, "stop": b, "step": None, "n": n, "form": 2})
    # steps that must be rejected at construction
    for a in (None, -2, 0, 3):
        for b in (None, -3, 0, 5):
            for s in (0, -1, -3):
                cases.append({"op": "slice", "start": a, "stop": b, "step": s, "n": 6, "form": 3})
    nn = [None] + list(range(0, 8))
    for a in nn:
        for b in nn:
            for s in [None, 1, 2, 3, 4]:
                for n in range(0, 11):
                    cases.append({"op": "fill_into", "start": a, "stop": b, "step": s, "n": n})
    for n in range(0, 11):
        cases.append({"op": "reverse", "n": n})
    for lens in itertools.product(range(0, 4), repeat=3):
        cases.append({"op": "chain", "lens": list(lens)})
    cases.append({"op": "chain", "lens": []})
    for a in (-3, 0, 5):
        for s in (-2, 0, 1, 3):
            cases.append({"op": "countfrom", "start": a, "step": s, "n": 7})
    for cs in range(1, 6):
        for n in range(0, 11):
            for cont in ("tuple", "list", "star"):
                cases.append({"op": "chunks", "cs": cs, "n": n, "container": cont})
    # the same scope over flows whose values are falsy / None (the code must never inspect the values)
    extra = []
    for c in cases:
        if c["op"] in ("slice", "fill_into") and c.get("form", 3) == 3 and c["n"] in (0, 3, 6, 10):
            extra.append(dict(c, vk="falsy"))
            if c["n"] in (6,):
                extra.append(dict(c, vk="none"))
        elif c["op"] in ("reverse", "chunks"):
            extra.append(dict(c, vk="falsy"))
            extra.append(dict(c, vk="none"))
    cases.extend(extra)
    ctx.exhaustive = True
    if ctx.tier == "thorough":
        ctx.exhaustive = False  # the random part is sampled
        for _ in range(60000):
            r = rng.random()
            def ri():
                return None if rng.random() < 0.15 else rng.randint(-70, 70)
            if r < 0.7:
                cases.append({"op": "slice", "start": ri(), "stop": ri(),
                              "step": rng.choice([None, 1, 2, 3, 5, 7, 12]), "n": rng.randint(0, 60), "form": 3,
                              "vk": rng.choice(["int", "int", "falsy", "none"])})
            elif r < 0.9:
                a, b = ri(), ri()
                cases.append({"op": "fill_into", "start": None if a is None else abs(a),
                              "stop": None if b is None else abs(b),
                              "step": rng.choice([None, 1, 2, 3, 5, 7, 12]), "n": rng.randint(0, 90)})
            else:
                cases.append({"op": "chunks", "cs": rng.randint(1, 9), "n": rng.randint(0, 40),
                              "container": rng.choice(["tuple", "list", "star"])})
    return cases


_FALSY = [0, None, False, "", (), 0.0, 7, None]


def _vals(case, n=None):
    """The flow of a case: integers 0..n-1 by default; with vk='falsy' a palette of falsy values and None
    (elements that a sentinel-based or truthiness-based rewrite would mistake for the end of the flow);
    with vk='none' the odd positions hold None."""
    n = case["n"] if n is None else n
    vk = case.get("vk", "int")
    if vk == "int":
        return list(range(n))
    if vk == "none":
        return [None if i % 2 else i for i in range(n)]
    return [_FALSY[i % len(_FALSY)] for i in range(n)]


def _enc(v):
    return v if type(v) is int else f"{type(v).__name__}:{v!r}"


def _encs(vs):
    return [_enc(v) for v in vs]


def _args(case):
    a, b, s = case["start"], case["stop"], case["step"]
    form = case.get("form", 3)
    if form == 1:
        return (b,)
    if form == 2:
        return (a, b)
    return (a, b, s)


class _Store:
    def __init__(self):
        self.vals = []

    def fill(self, v):
        self.vals.append(v)


def run_impl(case):
    import lena.core
    import lena.flow
    op = case["op"]
    if op == "slice":
        xs = _vals(case)
        try:
            sl = lena.flow.Slice(*_args(case))
        except Exception as e:
            return {"e": exc_name(e), "phase": "init"}
        try:
            return {"r": _encs(sl.run(iter(xs)))}
        except Exception as e:
            return {"e": exc_name(e), "phase": "run"}
    if op == "fill_into":
        xs = _vals(case)
        try:
            sl = lena.flow.Slice(case["start"], case["stop"], case["step"])
        except Exception as e:
            return {"e": exc_name(e), "phase": "init"}
        st = _Store()
        stop_at = None
        for i, x in enumerate(xs):
            try:
                sl.fill_into(st, x)
            except lena.core.LenaStopFill:
                stop_at = i
                break
            except Exception as e:
                return {"e": exc_name(e), "phase": "fill"}
        return {"r": _encs(st.vals), "stop": stop_at}
    if op == "reverse":
        try:
            return {"r": _encs(lena.flow.Reverse().run(iter(_vals(case))))}
        except Exception as e:
            return {"e": exc_name(e), "phase": "run"}
    if op == "chain":
        xss, k = [], 0
        for l in case["lens"]:
            xss.append(list(range(k, k + l)))
            k += l
        try:
            return {"r": list(lena.flow.Chain(*[iter(x) for x in xss])())}
        except Exception as e:
            return {"e": exc_name(e), "phase": "run"}
    if op == "countfrom":
        try:
            return {"r": list(itertools.islice(lena.flow.CountFrom(case["start"], case["step"])(), case["n"]))}
        except Exception as e:
            return {"e": exc_name(e), "phase": "run"}
    if op == "chunks":
        cont = case["container"]
        try:
            if cont == "tuple":
                el = lena.flow.RunningChunkBy(case["cs"])
            elif cont == "list":
                el = lena.flow.RunningChunkBy(case["cs"], list, from_iterable=True)
            else:
                el = lena.flow.RunningChunkBy(case["cs"], lambda *a: list(a))
        except Exception as e:
            return {"e": exc_name(e), "phase": "init"}
        try:
            return {"r": [_encs(c) for c in el.run(iter(_vals(case)))]}
        except Exception as e:
            return {"e": exc_name(e), "phase": "run"}
    raise ValueError(op)


def _chain_xss(case):
    xss, k = [], 0
    for l in case["lens"]:
        xss.append(list(range(k, k + l)))
        k += l
    return xss


def model_requests(case):
    op = case["op"]
    if op == "slice":
        xs = list(range(case["n"]))
        a, b, s = case["start"], case["stop"], case["step"]
        reqs = [{"op": "slice", "start": a, "stop": b, "step": s, "xs": xs}]
        if s is None or s >= 1:
            reqs.append({"op": "pyslice", "start": a, "stop": b, "step": s, "xs": xs})
        return reqs
    if op == "fill_into":
        return [{"op": "fill_into", "start": case["start"] or 0, "stop": case["stop"], "step": case["step"] or 1,
                 "xs": list(range(case["n"]))}]
    if op == "reverse":
        return [{"op": "reverse", "xs": list(range(case["n"]))}]
    if op == "chain":
        return [{"op": "chain", "xss": _chain_xss(case)}]
    if op == "countfrom":
        return [{"op": "countfrom", "start": case["start"], "step": case["step"], "n": case["n"]}]
    if op == "chunks":
        xs = list(range(case["n"]))
        return [{"op": "chunks", "cs": case["cs"], "xs": xs}, {"op": "windows", "cs": case["cs"], "xs": xs}]
    raise ValueError(op)


def _map_model(case, m):
    """The model runs on the positions 0..n-1; translate its answer to the values of this case's flow."""
    if case.get("vk", "int") == "int" or "r" not in m or case["op"] not in ("slice", "fill_into", "reverse", "chunks"):
        return m
    vals = _vals(case)
    def tr(r):
        return [tr(x) for x in r] if isinstance(r, list) else _enc(vals[r])
    return dict(m, r=tr(m["r"]))


def compare(case, res, replies):
    op = case["op"]
    m = replies[0]
    if "err" in m:
        return f"model driver error: {m['err']}"
    m = _map_model(case, m)
    if "e" in res and op not in ("slice",):
        return f"impl raised {res} vs model {m}"
    if op == "slice":
        if "e" in res or "e" in m:
            if res.get("e") != m.get("e"):
                return f"impl {res} vs model {m}"
        elif res["r"] != m["r"]:
            return f"impl {res['r']} vs model {m['r']}"
        if len(replies) > 1:
            xs = list(range(case["n"]))
            ref = xs[case["start"]:case["stop"]:case["step"]]
            if replies[1].get("r") != ref:
                return f"Lean pySlice {replies[1]} differs from Python slicing {ref}"
        return None
    if op == "fill_into":
        if "e" in res:
            return f"impl raised {res}"
        if res["r"] != m["r"] or res["stop"] != m["stop"]:
            return f"impl {res} vs model {m}"
        return None
    if op == "chunks":
        if res["r"] != m["r"]:
            return f"impl {res['r']} vs model {m['r']}"
        if replies[1]["r"] != _windows(case):
            return f"Lean windows {replies[1]['r']} differs from the Python reference"
        return None
    if res["r"] != m["r"]:
        return f"impl {res['r']} vs model {m['r']}"
    return None


def _windows(case, vals=False):
    xs, cs = (_encs(_vals(case)) if vals else list(range(case["n"]))), case["cs"]
    return [xs[i:i + cs] for i in range(0, len(xs) - cs + 1)]


def oracle(case, res):
    """The property's own statement, evaluated on the real code's result."""
    op = case["op"]
    if op == "slice":
        s = case["step"]
        xs = list(range(case["n"]))
        if s is not None and s < 1:
            if res.get("e") != "LenaValueError" or res.get("phase") != "init":
                return f"Slice{_args(case)} with step {s} must raise LenaValueError at construction, got {res}"
            return None
        if "e" in res:
            return f"Slice{_args(case)} raised {res} on flow {_vals(case)}"
        ref = _encs(_vals(case)[case["start"]:case["stop"]:s])
        if res["r"] != ref:
            return f"Slice{_args(case)}.run({_vals(case)}) = {res['r']} but xs[start:stop:step] = {ref}"
        return None
    if op == "fill_into":
        if "e" in res:
            return f"fill_into raised {res}"
        a, b, s = case["start"], case["stop"], case["step"]
        ref = _encs(_vals(case)[a:b:s])
        st = res["stop"]
        # values filled before the stop signal must be the slice of the prefix fed so far, and
        # LenaStopFill only when no later index could be selected
        if st is None:
            if res["r"] != ref:
                return f"Slice({a},{b},{s}).fill_into filled {res['r']} but slice is {ref}"
        else:
            if res["r"] != ref:
                return f"Slice({a},{b},{s}).fill_into filled {res['r']} before LenaStopFill at {st}; slice is {ref}"
            # LenaStopFill at index st is legitimate only if no index >= st is selected
            if b is None:
                return f"LenaStopFill at index {st} although stop is None (every later index {a or 0}+k*{s or 1} is selected)"
            sel = range(a or 0, b, s or 1)
            if len(sel) and sel[-1] >= st:
                return f"LenaStopFill at index {st} although index {sel[-1]} would be selected"
        return None
    if "e" in res:
        return f"{op} raised {res} (case {case})"
    if op == "reverse":
        ref = _encs(reversed(_vals(case)))
        return None if res["r"] == ref else f"Reverse gives {res['r']}, reversed(list(xs)) = {ref}"
    if op == "chain":
        ref = list(itertools.chain(*_chain_xss(case)))
        return None if res["r"] == ref else f"Chain gives {res['r']}, itertools.chain = {ref}"
    if op == "countfrom":
        ref = list(itertools.islice(itertools.count(case["start"], case["step"]), case["n"]))
        return None if res["r"] == ref else f"CountFrom gives {res['r']}, itertools.count = {ref}"
    if op == "chunks":
        ref = _windows(case, vals=True)
        return None if res["r"] == ref else f"RunningChunkBy({case['cs']}) gives {res['r']}, windows = {ref}"
    raise ValueError(op)


def nontrivial(case, res):
    return "e" in res or bool(res.get("r"))


def classify(case, res):
    op = case["op"]
    if op == "slice":
        a, b = case["start"], case["stop"]
        def k(v):
            return "N" if v is None else ("-" if v < 0 else "+")
        return [f"slice:{k(a)}{k(b)}:step={'N' if case['step'] is None else min(case['step'], 5)}",
                "slice:" + ("error" if "e" in res else ("empty" if not res["r"] else "nonempty"))]
    if op == "fill_into":
        return ["fill_into:" + ("stopfill" if res.get("stop") is not None else "nostop")]
    return [op]


def signature(case, failure):
    c = dict(case)
    return f"{c.pop('op')}:" + ",".join(f"{k}={c[k]}" for k in sorted(c))


def shrink(case):
    if "n" in case and case["n"] > 0:
        yield dict(case, n=case["n"] - 1)
    for k in ("start", "stop"):
        v = case.get(k)
        if isinstance(v, int) and v != 0:
            yield dict(case, **{k: v - 1 if v > 0 else v + 1})
    if isinstance(case.get("step"), int) and case["step"] > 1:
        yield dict(case, step=case["step"] - 1)

# ---- MANIFEST texts ------------------------------------------------------------------------
LEVEL_TEXT = ("Lean 4 theorems about a transcribed model of Slice/Reverse/Chain/CountFrom/RunningChunkBy, for all "
              "indices, steps and finite flows (no bound); the model is tied to /repo by a correspondence check that "
              "enumerates the property's whole stated scope (start,stop in {None,-7..7}, step in {None,1..4}, len 0..10; "
              "fill_into for all non-negative combinations) on every run, plus a direct Python-slicing oracle on the real code.")
LEVEL_NOTE = ("Trusted: Lean kernel (+ propext, Classical.choice, Quot.sound), the hand transcription validated by the "
              "exhaustive-in-scope correspondence run, itertools/deque semantics as transcribed, the JSON protocol.")
TECHNIQUE = "Lean 4 proof over hand-written model + exhaustive-in-scope correspondence check"
DESIGN_REF = "DESIGN.md section 3, C17"
