"""C17 — flow iterators equal their Python reference (Slice is list slicing).

Real code: lena.flow.Slice / Reverse / Chain / CountFrom / RunningChunkBy.
Model: lean/LenaModel/Model/C17.lean and Model/C17Sess.lean (one instance used more than once), theorems
lean/LenaModel/Props/C17.lean (helper lemmas Lemmas/C17.lean, Lemmas/C17Sess.lean).

The property is stated per call.  Besides single runs of fresh instances the harness drives the elements the way the
framework may: the same instance run/called several times, several generators of one instance alive at once and
advanced in an interleaved order, a run abandoned half-way followed by another, two instances built from the same
arguments used in turn, Slice.run and Slice.fill_into of one object interleaved, fill_into continued after
LenaStopFill.  The oracle plays the same schedule on the Python reference (a fresh reference object per call) and
demands equality for every call.
"""
import itertools

from harness.common import exc_name

PID = "C17"
TITLE = "Flow iterators equal their Python reference (Slice is list slicing)"
LEAN_MODULES = ["LenaModel.Props.C17"]
LEAN_SOURCES = ["LenaModel/Model/C17.lean", "LenaModel/Model/C17Sess.lean", "LenaModel/Lemmas/C17.lean",
                "LenaModel/Props/C17.lean"]
DRIVER = "drivers/C17.lean"
THEOREMS = [
    "Lena.C17.slice_run_eq_pyslice",
    "Lena.C17.slice_rejects_bad_step",
    "Lena.C17.slice_accepts_good_step",
    "Lena.C17.pySlice_getElem?",
    "Lena.C17.islice_eq_pySlice",
    "Lena.C17.runNegative_eq_pySlice",
    "Lena.C17.fill_into_eq",
    "Lena.C17.stopfill_only_when_done",
    "Lena.C17.reverse_spec",
    "Lena.C17.chain_spec",
    "Lena.C17.countfrom_spec",
    "Lena.C17.chunks_are_windows",
    "Lena.C17.windows_spec",
    "Lena.C17.windows_short",
    # one instance used more than once (Model/C17Sess.lean)
    "Lena.C17.session_calls_independent",
    "Lena.C17.session_no_generator",
    "Lena.C17.countfrom_calls_independent",
    "Lena.C17.countfrom_call_fresh",
    "Lena.C17.countfrom_never_stops",
    "Lena.C17.slice_runs_independent",
    "Lena.C17.reverse_runs_independent",
    "Lena.C17.chunks_runs_independent",
    "Lena.C17.chain_calls_independent",
    "Lena.C17.slice_run_history_independent",
    "Lena.C17.slice_fill_ignores_runs",
    "Lena.C17.stopfill_persists",
    "Lena.C17.fill_trace_eq",
]
TRUSTED = [
    "Lean 4.33.0 kernel; axioms limited to propext, Classical.choice, Quot.sound (audited by #print axioms on every run)",
    "hand transcription of lena/flow/iterators.py and RunningChunkBy.run into LenaModel/Model/C17.lean and of what the "
    "instances keep between calls into LenaModel/Model/C17Sess.lean, validated by this correspondence check on the "
    "property's whole enumerated scope and on schedules of repeated / interleaved use of one instance",
    "itertools.islice / collections.deque / itertools.chain / itertools.count semantics as transcribed (validated likewise)",
    "JSON line protocol encoders (harness/props/c17.py, drivers/C17.lean)",
]
ASSUMPTIONS = [
    "finite flows of integers stand for finite flows of arbitrary values (the code never inspects the values)",
    "pySlice (Lean) is Python list slicing: checked against xs[a:b:s] on every case",
    "a flow handed to run is an iterator (the framework converts with flow_to_iter); flows of different runs are "
    "different iterator objects; Chain calls that share one-shot iterators are checked against itertools.chain by the "
    "oracle only (the model covers re-iterable iterables)",
]
RULE = ("quick and thorough: exhaustive enumeration of start,stop in {None,-7..7} x step in {None,1..4} x len 0..10 "
        "(plus one- and two-argument call forms, steps 0,-1,-3 for rejection), fill_into for all non-negative "
        "combinations, Reverse/Chain/CountFrom/RunningChunkBy(1..5, tuple/list/namedtuple-style containers); thorough adds "
        "seeded random cases with len<=60, |index|<=70, step<=12. Instance reuse (both tiers): for every (start,stop,step) of "
        "the scope one Slice instance run on 2-3 flows under six schedules (sequential, lock-step, interrupted, idle first "
        "generator, abandoned, three generators); the same for Reverse, RunningChunkBy(1..5, 3 container kinds), Chain over "
        "lists/tuples/ranges/shared one-shot iterators (lens 0..3 cubed); CountFrom: every schedule of <=7 operations with "
        "<=3 calls of one instance; twin instances with equal arguments used in turn; fill_into continued after "
        "LenaStopFill (whole non-negative scope), two Slice instances filled in turn, run and fill_into of one Slice "
        "interleaved; thorough adds 30000 random schedules. Non-trivial: result non-empty, any event, or an exception.")
CASE_TIMEOUT = 10


def _slice_cases(starts, stops, steps, lens):
    for a in starts:
        for b in stops:
            for s in steps:
                for n in lens:
                    yield {"op": "slice", "start": a, "stop": b, "step": s, "n": n, "form": 3}


def gen_cases(ctx):
    rng = ctx.rng
    idx = [None] + list(range(-7, 8))
    cases = list(_slice_cases(idx, idx, [None, 1, 2, 3, 4], range(0, 11)))
    # call forms Slice(stop), Slice(start, stop)
    for b in idx:
        for n in range(0, 11):
            cases.append({"op": "slice", "start": None, "stop": b, "step": None, "n": n, "form": 1})
    for a in idx:
        for b in idx:
            for n in (0, 1, 5, 10):
                cases.append({"op": "slice", "start": a, "stop": b, "step": None, "n": n, "form": 2})
    # steps that must be rejected at construction
    for a in (None, -2, 0, 3):
        for b in (None, -3, 0, 5):
            for s in (0, -1, -3):
                cases.append({"op": "slice", "start": a, "stop": b, "step": s, "n": 6, "form": 3})
    nn = [None] + list(range(0, 8))
    for a in nn:
        for b in nn:
            for s in [None, 1, 2, 3, 4]:
                for n in range(0, 11):
                    cases.append({"op": "fill_into", "start": a, "stop": b, "step": s, "n": n})
    for n in range(0, 11):
        cases.append({"op": "reverse", "n": n})
    for lens in itertools.product(range(0, 4), repeat=3):
        cases.append({"op": "chain", "lens": list(lens)})
    cases.append({"op": "chain", "lens": []})
    for a in (-3, 0, 5):
        for s in (-2, 0, 1, 3):
            cases.append({"op": "countfrom", "start": a, "step": s, "n": 7})
    for cs in range(1, 6):
        for n in range(0, 11):
            for cont in ("tuple", "list", "star"):
                cases.append({"op": "chunks", "cs": cs, "n": n, "container": cont})
    # the same scope over flows whose values are falsy / None (the code must never inspect the values)
    extra = []
    for c in cases:
        if c["op"] in ("slice", "fill_into") and c.get("form", 3) == 3 and c["n"] in (0, 3, 6, 10):
            extra.append(dict(c, vk="falsy"))
            if c["n"] in (6,):
                extra.append(dict(c, vk="none"))
        elif c["op"] in ("reverse", "chunks"):
            extra.append(dict(c, vk="falsy"))
            extra.append(dict(c, vk="none"))
    cases.extend(extra)
    cases.extend(_reuse_cases())
    ctx.exhaustive = True
    if ctx.tier == "thorough":
        ctx.exhaustive = False  # the random part is sampled
        for _ in range(60000):
            r = rng.random()
            def ri():
                return None if rng.random() < 0.15 else rng.randint(-70, 70)
            if r < 0.7:
                cases.append({"op": "slice", "start": ri(), "stop": ri(),
                              "step": rng.choice([None, 1, 2, 3, 5, 7, 12]), "n": rng.randint(0, 60), "form": 3,
                              "vk": rng.choice(["int", "int", "falsy", "none"])})
            elif r < 0.9:
                a, b = ri(), ri()
                cases.append({"op": "fill_into", "start": None if a is None else abs(a),
                              "stop": None if b is None else abs(b),
                              "step": rng.choice([None, 1, 2, 3, 5, 7, 12]), "n": rng.randint(0, 90)})
            else:
                cases.append({"op": "chunks", "cs": rng.randint(1, 9), "n": rng.randint(0, 40),
                              "container": rng.choice(["tuple", "list", "star"])})
        for _ in range(30000):
            cases.append(_random_reuse_case(rng))
    return cases


# ---- one instance used more than once ------------------------------------------------------------
# A session case: {"op": "sess", "el": ..., <constructor arguments>, "ops": [...]} where an item of "ops" is a list
# (= create a generator from THE instance: `el.run(iter(flow))`, `el()` for the sources CountFrom and Chain, whose
# flow argument is ignored) or a number g (= `next` of the generator number g, numbered in order of creation).

def _flow(j, n):
    """flow number j of a session: values that tell the flows apart"""
    return list(range(100 * j, 100 * j + n))


def _ref_len(case, flow):
    el = case["el"]
    if el == "slice":
        return len(flow[case["start"]:case["stop"]:case["step"]])
    if el == "reverse":
        return len(flow)
    if el == "chunks":
        return max(0, len(flow) - case["cs"] + 1)
    if el == "chain":
        return sum(case["lens"])
    return 4  # countfrom: how many values a "drain" takes


TEMPLATES = ("seq", "lock", "part", "idle", "abandon", "lock3")


def _schedule(case, tpl, lens):
    """A concrete schedule for generators over flows of the given lengths.  `drain` = as many `next` as the reference
    has values, plus one (to see StopIteration); whatever is left is collected at the end of the session anyway."""
    flows = [_flow(j, n) for j, n in enumerate(lens)]
    L = [_ref_len(case, f) for f in flows]
    def drain(g, done=0):
        return [g] * (L[g] - done + 1)
    f0, f1 = flows[0], flows[1]
    if tpl == "seq":            # the instance is run, exhausted, and run again
        return [f0] + drain(0) + [f1] + drain(1)
    if tpl == "lock":           # two generators of the instance alive at once, advanced in turn
        return [f0, f1] + [0, 1] * (max(L[0], L[1]) + 1)
    if tpl == "part":           # the first is interrupted by a complete second run
        k = (L[0] + 1) // 2
        return [f0] + [0] * k + [f1] + drain(1) + drain(0, k)
    if tpl == "idle":           # the first generator is created but not advanced until the second is exhausted
        return [f0, f1] + drain(1) + drain(0)
    if tpl == "abandon":        # the first run is abandoned half-way
        return [f0] + [0] * ((L[0] + 1) // 2) + [f1] + drain(1)
    if tpl == "lock3":
        f2 = flows[2]
        return [f0, f1, 0, f2] + [0, 1, 2] * (max(L) + 1)
    raise ValueError(tpl)


def _countfrom_schedules(maxlen, maxcalls):
    """every sequence of `call` ([]) / `next g` (g among the generators created so far) of length <= maxlen that
    starts with a call"""
    out = []
    def rec(seq, ncalls):
        if seq:
            out.append(list(seq))
        if len(seq) == maxlen:
            return
        if ncalls < maxcalls:
            rec(seq + [[]], ncalls + 1)
        for g in range(ncalls):
            rec(seq + [g], ncalls)
    rec([], 0)
    return [o for o in out if any(isinstance(x, int) for x in o)]


def _reuse_cases():
    cases = []
    idx = [None] + list(range(-7, 8))
    # Slice.run: every (start, stop, step) of the scope, the same instance on two (three) flows
    pairs = {"seq": [(10, 7), (4, 10)], "lock": [(10, 7), (6, 6)], "part": [(10, 4), (5, 9)], "idle": [(7, 10)],
             "abandon": [(10, 10)], "lock3": [(9, 5, 7)]}
    for a in idx:
        for b in idx:
            for st in [None, 1, 2, 3, 4]:
                base = {"op": "sess", "el": "slice", "start": a, "stop": b, "step": st}
                for tpl in TEMPLATES:
                    for lens in pairs[tpl]:
                        cases.append(dict(base, tpl=tpl, ops=_schedule(base, tpl, lens)))
    # Reverse, RunningChunkBy
    for tpl in TEMPLATES:
        for n1 in range(0, 6):
            for n2 in range(0, 6):
                lens = (n1, n2, 3)
                base = {"op": "sess", "el": "reverse"}
                cases.append(dict(base, tpl=tpl, ops=_schedule(base, tpl, lens)))
        for cs in range(1, 6):
            for cont in ("tuple", "list", "star"):
                for lens in ((7, 4, 5), (3, 8, 6), (6, 6, 1), (0, 5, 9)):
                    base = {"op": "sess", "el": "chunks", "cs": cs, "container": cont}
                    cases.append(dict(base, tpl=tpl, ops=_schedule(base, tpl, lens)))
    # Chain over re-iterable iterables (every call sees all values) and over one-shot iterators shared by the calls
    for lens in list(itertools.product(range(0, 4), repeat=3)) + [()]:
        for kind in ("list", "tuple", "range", "iter"):
            for tpl in TEMPLATES:
                base = {"op": "sess", "el": "chain", "lens": list(lens), "kind": kind}
                cases.append(dict(base, tpl=tpl, ops=[([] if isinstance(o, list) else o)
                                                      for o in _schedule(base, tpl, (0, 0, 0))]))
    # CountFrom: every schedule of up to 7 operations with up to 3 calls of the same instance
    scheds = _countfrom_schedules(7, 3)
    for a, st in ((0, 1), (-3, -2), (5, 3), (2, 0)):
        for ops in scheds:
            cases.append({"op": "sess", "el": "countfrom", "start": a, "step": st, "tpl": "all", "ops": ops})
    for a in (-3, 0, 5, 10):
        for st in (-2, -1, 0, 1, 2, 3):
            base = {"op": "sess", "el": "countfrom", "start": a, "step": st}
            for tpl in TEMPLATES:
                cases.append(dict(base, tpl=tpl, ops=[([] if isinstance(o, list) else o)
                                                      for o in _schedule(base, tpl, (0, 0, 0))]))
    # two instances built with the same arguments, used in turn (state must be per instance)
    for a in idx:
        for b in idx:
            for st in [None, 1, 3]:
                cases.append({"op": "twins", "el": "slice", "start": a, "stop": b, "step": st, "n": 9, "n2": 6})
    for n in range(0, 6):
        cases.append({"op": "twins", "el": "reverse", "n": n, "n2": 4})
    for cs in range(1, 6):
        for cont in ("tuple", "list", "star"):
            cases.append({"op": "twins", "el": "chunks", "cs": cs, "container": cont, "n": 7, "n2": 5})
    for a, st in ((0, 1), (-3, -2), (5, 3), (2, 0)):
        cases.append({"op": "twins", "el": "countfrom", "start": a, "step": st, "n": 6, "n2": 4})
    for lens in itertools.product(range(0, 3), repeat=3):
        cases.append({"op": "twins", "el": "chain", "lens": list(lens), "kind": "list"})
    # fill_into: a caller that goes on filling after LenaStopFill; two instances filled in turn;
    # fill_into and run of the same instance interleaved
    nn = [None] + list(range(0, 8))
    for a in nn:
        for b in nn:
            for st in [None, 1, 2, 3, 4]:
                for n in range(0, 11):
                    cases.append({"op": "fill_trace", "start": a, "stop": b, "step": st, "n": n})
                cases.append({"op": "fill2", "start": a, "stop": b, "step": st, "n": 10, "n2": 7})
                for pat in SLICE_INST_PATTERNS:
                    cases.append({"op": "slice_inst", "start": a, "stop": b, "step": st, "pat": pat,
                                  "ops": _slice_inst_ops(pat)})
    for a, b in ((-3, None), (None, -2), (-5, 4), (2, -1), (-4, -1)):
        for st in (None, 2):
            for pat in SLICE_INST_PATTERNS:
                cases.append({"op": "slice_inst", "start": a, "stop": b, "step": st, "pat": pat,
                              "ops": _slice_inst_ops(pat)})
    return cases


# patterns of a `slice_inst` case: 'r<n>' = list(sl.run(iter(flow of n values))), 'f<n>' = n calls of fill_into
SLICE_INST_PATTERNS = ("r9 r6 r9", "f3 r8 f4 r5 f5", "r7 f12", "f1 r4 f1 r10 f1 r0 f8")


def _slice_inst_ops(pat):
    """items: a list = run on that flow, a number v = fill_into(element, v); the values filled are 1000, 1001, ..."""
    ops, nfill, nrun = [], 0, 0
    for w in pat.split():
        k = int(w[1:])
        if w[0] == "r":
            ops.append(_flow(nrun, k))
            nrun += 1
        else:
            ops.extend(range(1000 + nfill, 1000 + nfill + k))
            nfill += k
    return ops


def _random_reuse_case(rng):
    def ri(lo=-12, hi=12):
        return None if rng.random() < 0.2 else rng.randint(lo, hi)
    r = rng.random()
    if r < 0.15:
        ops = []
        for _ in range(rng.randint(2, 30)):
            ops.append(_flow(0, rng.randint(0, 20)) if rng.random() < 0.3 else 1000 + len(ops))
        return {"op": "slice_inst", "start": ri(0, 12), "stop": ri(0, 12), "step": rng.choice([None, 1, 2, 3, 5]),
                "pat": "random", "ops": ops}
    el = rng.choice(["slice", "slice", "slice", "reverse", "chunks", "chain", "countfrom"])
    case = {"op": "sess", "el": el, "tpl": "random"}
    if el == "slice":
        case.update(start=ri(), stop=ri(), step=rng.choice([None, 1, 2, 3, 5]))
    elif el == "chunks":
        case.update(cs=rng.randint(1, 6), container=rng.choice(["tuple", "list", "star"]))
    elif el == "chain":
        case.update(lens=[rng.randint(0, 4) for _ in range(rng.randint(0, 4))],
                    kind=rng.choice(["list", "tuple", "range", "iter"]))
    elif el == "countfrom":
        case.update(start=rng.randint(-20, 20), step=rng.randint(-4, 4))
    ops, ng = [], 0
    for _ in range(rng.randint(2, 40)):
        if ng == 0 or (ng < 4 and rng.random() < 0.15):
            ops.append(_flow(ng, rng.randint(0, 14)) if el in ("slice", "reverse", "chunks") else [])
            ng += 1
        else:
            ops.append(rng.randrange(ng))
    case["ops"] = ops
    return case


_FALSY = [0, None, False, "", (), 0.0, 7, None]


def _vals(case, n=None):
    """The flow of a case: integers 0..n-1 by default; with vk='falsy' a palette of falsy values and None
    (elements that a sentinel-based or truthiness-based rewrite would mistake for the end of the flow);
    with vk='none' the odd positions hold None."""
    n = case["n"] if n is None else n
    vk = case.get("vk", "int")
    if vk == "int":
        return list(range(n))
    if vk == "none":
        return [None if i % 2 else i for i in range(n)]
    return [_FALSY[i % len(_FALSY)] for i in range(n)]


def _enc(v):
    return v if type(v) is int else f"{type(v).__name__}:{v!r}"


def _encs(vs):
    return [_enc(v) for v in vs]


def _args(case):
    a, b, s = case["start"], case["stop"], case["step"]
    form = case.get("form", 3)
    if form == 1:
        return (b,)
    if form == 2:
        return (a, b)
    return (a, b, s)


class _Store:
    def __init__(self):
        self.vals = []

    def fill(self, v):
        self.vals.append(v)


def run_impl(case):
    import lena.core
    import lena.flow
    op = case["op"]
    if op == "slice":
        xs = _vals(case)
        try:
            sl = lena.flow.Slice(*_args(case))
        except Exception as e:
            return {"e": exc_name(e), "phase": "init"}
        try:
            return {"r": _encs(sl.run(iter(xs)))}
        except Exception as e:
            return {"e": exc_name(e), "phase": "run"}
    if op == "fill_into":
        xs = _vals(case)
        try:
            sl = lena.flow.Slice(case["start"], case["stop"], case["step"])
        except Exception as e:
            return {"e": exc_name(e), "phase": "init"}
        st = _Store()
        stop_at = None
        for i, x in enumerate(xs):
            try:
                sl.fill_into(st, x)
            except lena.core.LenaStopFill:
                stop_at = i
                break
            except Exception as e:
                return {"e": exc_name(e), "phase": "fill"}
        return {"r": _encs(st.vals), "stop": stop_at}
    if op == "reverse":
        try:
            return {"r": _encs(lena.flow.Reverse().run(iter(_vals(case))))}
        except Exception as e:
            return {"e": exc_name(e), "phase": "run"}
    if op == "chain":
        xss, k = [], 0
        for l in case["lens"]:
            xss.append(list(range(k, k + l)))
            k += l
        try:
            return {"r": list(lena.flow.Chain(*[iter(x) for x in xss])())}
        except Exception as e:
            return {"e": exc_name(e), "phase": "run"}
    if op == "countfrom":
        try:
            return {"r": list(itertools.islice(lena.flow.CountFrom(case["start"], case["step"])(), case["n"]))}
        except Exception as e:
            return {"e": exc_name(e), "phase": "run"}
    if op == "chunks":
        cont = case["container"]
        try:
            if cont == "tuple":
                el = lena.flow.RunningChunkBy(case["cs"])
            elif cont == "list":
                el = lena.flow.RunningChunkBy(case["cs"], list, from_iterable=True)
            else:
                el = lena.flow.RunningChunkBy(case["cs"], lambda *a: list(a))
        except Exception as e:
            return {"e": exc_name(e), "phase": "init"}
        try:
            # collect first, look afterwards: a consumer keeps the chunks it was given (`list(rcb.run(flow))`)
            chunks = list(el.run(iter(_vals(case))))
            return {"r": [_encs(c) for c in chunks]}
        except Exception as e:
            return {"e": exc_name(e), "phase": "run"}
    if op == "sess":
        try:
            spawn = _real_spawner(case)
        except Exception as e:
            return {"e": exc_name(e), "phase": "init"}
        return _play(case, spawn)
    if op == "twins":
        # two instances built from the same arguments, one generator each, advanced in turn
        try:
            sp1, sp2 = _real_spawner(case), _real_spawner(case)
        except Exception as e:
            return {"e": exc_name(e), "phase": "init"}
        return _play_twins(case, sp1, sp2)
    if op == "fill_trace":
        try:
            sl = lena.flow.Slice(case["start"], case["stop"], case["step"])
        except Exception as e:
            return {"e": exc_name(e), "phase": "init"}
        st = _Store()
        return {"out": [_fill_once(sl, st, x) for x in _vals(case)], "r": _encs(st.vals)}
    if op == "fill2":
        try:
            sl1 = lena.flow.Slice(case["start"], case["stop"], case["step"])
            sl2 = lena.flow.Slice(case["start"], case["stop"], case["step"])
        except Exception as e:
            return {"e": exc_name(e), "phase": "init"}
        xs1, xs2 = _flow(0, case["n"]), _flow(1, case["n2"])
        st1, st2, stop1, stop2 = _Store(), _Store(), None, None
        for i in range(max(len(xs1), len(xs2))):
            # every caller stops feeding an element after its LenaStopFill
            if i < len(xs1) and stop1 is None and _fill_once(sl1, st1, xs1[i]) == "stop":
                stop1 = i
            if i < len(xs2) and stop2 is None and _fill_once(sl2, st2, xs2[i]) == "stop":
                stop2 = i
        return {"a": {"r": _encs(st1.vals), "stop": stop1}, "b": {"r": _encs(st2.vals), "stop": stop2}}
    if op == "slice_inst":
        try:
            sl = lena.flow.Slice(case["start"], case["stop"], case["step"])
        except Exception as e:
            return {"e": exc_name(e), "phase": "init"}
        ev, filled = [], []
        for o in case["ops"]:
            if isinstance(o, list):
                try:
                    ev.append({"r": _encs(sl.run(iter(o)))})
                except Exception as e:
                    ev.append({"e": exc_name(e)})
            else:
                # fill_into(element, value) fills the element it is given: a new one for every call
                st = _Store()
                ev.append(_fill_once(sl, st, o))
                filled.extend(st.vals)
        return {"ev": ev, "filled": _encs(filled)}
    raise ValueError(op)


def _fill_once(sl, store, v):
    """one `fill_into(store, v)`: 'filled' (store.fill(v) was called, once), 'skipped', 'stop' (LenaStopFill) or
    the exception / a description of anything else"""
    import lena.core
    before = len(store.vals)
    try:
        sl.fill_into(store, v)
    except lena.core.LenaStopFill:
        new = store.vals[before:]
        return "stop" if not new else f"stop after filling {new!r}"
    except Exception as e:
        return exc_name(e)
    new = store.vals[before:]
    if not new:
        return "skipped"
    if len(new) == 1 and new[0] is v:
        return "filled"
    return f"filled {new!r}"


def _chain_iterables(case):
    """fresh iterables for a Chain session (kind 'iter': one-shot iterators, shared by all calls)"""
    kind = case.get("kind", "list")
    xss = _chain_xss(case)
    if kind == "list":
        return xss
    if kind == "tuple":
        return [tuple(x) for x in xss]
    if kind == "range":
        return [range(x[0], x[-1] + 1) if x else range(0) for x in xss]
    return [iter(x) for x in xss]


def _real_spawner(case):
    """Build ONE instance of the real element; return the function that makes a new generator from it."""
    import lena.flow
    el = case["el"]
    if el == "slice":
        sl = lena.flow.Slice(case["start"], case["stop"], case["step"])
        return lambda flow: sl.run(iter(flow))
    if el == "reverse":
        rv = lena.flow.Reverse()
        return lambda flow: rv.run(iter(flow))
    if el == "chunks":
        cont = case["container"]
        if cont == "tuple":
            rc = lena.flow.RunningChunkBy(case["cs"])
        elif cont == "list":
            rc = lena.flow.RunningChunkBy(case["cs"], list, from_iterable=True)
        else:
            rc = lena.flow.RunningChunkBy(case["cs"], lambda *a: list(a))
        return lambda flow: rc.run(iter(flow))
    if el == "chain":
        ch = lena.flow.Chain(*_chain_iterables(case))
        return lambda flow: ch()
    if el == "countfrom":
        cf = lena.flow.CountFrom(case["start"], case["step"])
        return lambda flow: cf()
    raise ValueError(el)


def _ref_spawner(case):
    """The Python reference named by the property, per call: xs[start:stop:step], reversed(list(xs)), the sliding
    windows, itertools.chain(*iterables), itertools.count(start, step)."""
    el = case["el"]
    if el == "slice":
        return lambda flow: iter(list(flow)[case["start"]:case["stop"]:case["step"]])
    if el == "reverse":
        return lambda flow: reversed(list(flow))
    if el == "chunks":
        cs = case["cs"]
        conv = tuple if case["container"] == "tuple" else list
        return lambda flow: iter([conv(flow[i:i + cs]) for i in range(0, len(flow) - cs + 1)])
    if el == "chain":
        its = _chain_iterables(case)
        return lambda flow: itertools.chain(*its)
    if el == "countfrom":
        return lambda flow: itertools.count(case["start"], case["step"])
    raise ValueError(el)


_REST_CAP = 300


def _encv(v):
    return _encs(v) if isinstance(v, (list, tuple)) else _enc(v)


def _play(case, spawn):
    """Run the schedule of a session: events [g, value] / [g, None] (StopIteration), then what every generator still
    yields (`tail` values for the endless CountFrom)."""
    gens, raw = [], []
    tail = 3 if case["el"] == "countfrom" else _REST_CAP
    stop = object()
    def enc(evs):
        return [[g, None if v is stop else _encv(v)] for g, v in evs]
    try:
        for o in case["ops"]:
            if isinstance(o, list):
                gens.append(spawn(o))
            elif o < len(gens):
                try:
                    raw.append((o, next(gens[o])))
                except StopIteration:
                    raw.append((o, stop))
        rest = [list(itertools.islice(g, tail)) for g in gens]
    except Exception as e:
        return {"e": exc_name(e), "phase": "run", "ev": enc(raw)}
    # the values are looked at only now: the consumer keeps what it was given while the generators go on
    return {"ev": enc(raw), "rest": [[_encv(v) for v in r] for r in rest]}


def _play_twins(case, sp1, sp2):
    el = case["el"]
    f1, f2 = _flow(0, case.get("n", 0)), _flow(1, case.get("n2", 0))
    tail = 5 if el == "countfrom" else _REST_CAP
    try:
        g1, g2 = sp1(f1), sp2(f2)
        a, b = [], []
        for _ in range(tail):
            n = len(a) + len(b)
            for g, out in ((g1, a), (g2, b)):
                try:
                    out.append(_encv(next(g)))
                except StopIteration:
                    pass
            if len(a) + len(b) == n:
                break
    except Exception as e:
        return {"e": exc_name(e), "phase": "run"}
    return {"a": a, "b": b}


def _chain_xss(case):
    xss, k = [], 0
    for l in case["lens"]:
        xss.append(list(range(k, k + l)))
        k += l
    return xss


def model_requests(case):
    op = case["op"]
    if op == "slice":
        xs = list(range(case["n"]))
        a, b, s = case["start"], case["stop"], case["step"]
        reqs = [{"op": "slice", "start": a, "stop": b, "step": s, "xs": xs}]
        if s is None or s >= 1:
            reqs.append({"op": "pyslice", "start": a, "stop": b, "step": s, "xs": xs})
        return reqs
    if op == "fill_into":
        return [{"op": "fill_into", "start": case["start"] or 0, "stop": case["stop"], "step": case["step"] or 1,
                 "xs": list(range(case["n"]))}]
    if op == "reverse":
        return [{"op": "reverse", "xs": list(range(case["n"]))}]
    if op == "chain":
        return [{"op": "chain", "xss": _chain_xss(case)}]
    if op == "countfrom":
        return [{"op": "countfrom", "start": case["start"], "step": case["step"], "n": case["n"]}]
    if op == "chunks":
        xs = list(range(case["n"]))
        return [{"op": "chunks", "cs": case["cs"], "xs": xs}, {"op": "windows", "cs": case["cs"], "xs": xs}]
    if op == "sess":
        el = case["el"]
        req = {"op": "session", "el": el, "ops": case["ops"]}
        if el == "slice":
            req.update(start=case["start"], stop=case["stop"], step=case["step"])
        elif el == "chunks":
            req.update(cs=case["cs"])
        elif el == "chain":
            if case.get("kind") == "iter":
                return []       # calls sharing one-shot iterators: not modelled, checked by the oracle only
            req.update(xss=_chain_xss(case))
        elif el == "countfrom":
            req.update(start=case["start"], step=case["step"], tail=3)
        return [req]
    if op == "twins":
        el = case["el"]
        f1, f2 = _flow(0, case.get("n", 0)), _flow(1, case.get("n2", 0))
        if el == "slice":
            return [{"op": "slice", "start": case["start"], "stop": case["stop"], "step": case["step"], "xs": f}
                    for f in (f1, f2)]
        if el == "reverse":
            return [{"op": "reverse", "xs": f} for f in (f1, f2)]
        if el == "chunks":
            return [{"op": "chunks", "cs": case["cs"], "xs": f} for f in (f1, f2)]
        if el == "chain":
            return [{"op": "chain", "xss": _chain_xss(case)}] * 2
        if el == "countfrom":
            return [{"op": "countfrom", "start": case["start"], "step": case["step"], "n": 5}] * 2
        raise ValueError(el)
    if op == "fill_trace":
        return [{"op": "fill_trace", "start": case["start"] or 0, "stop": case["stop"], "step": case["step"] or 1,
                 "xs": list(range(case["n"]))}]
    if op == "fill2":
        return [{"op": "fill_into", "start": case["start"] or 0, "stop": case["stop"], "step": case["step"] or 1,
                 "xs": f} for f in (_flow(0, case["n"]), _flow(1, case["n2"]))]
    if op == "slice_inst":
        return [{"op": "slice_inst", "start": case["start"], "stop": case["stop"], "step": case["step"],
                 "ops": case["ops"]}]
    raise ValueError(op)


def _map_model(case, m):
    """The model runs on the positions 0..n-1; translate its answer to the values of this case's flow."""
    if case.get("vk", "int") == "int" or "r" not in m or case["op"] not in ("slice", "fill_into", "reverse", "chunks"):
        return m
    vals = _vals(case)
    def tr(r):
        return [tr(x) for x in r] if isinstance(r, list) else _enc(vals[r])
    return dict(m, r=tr(m["r"]))


def compare(case, res, replies):
    op = case["op"]
    m = replies[0]
    if "err" in m:
        return f"model driver error: {m['err']}"
    m = _map_model(case, m)
    if op in ("sess", "twins", "fill_trace", "fill2", "slice_inst"):
        return _compare_reuse(case, res, replies)
    if "e" in res and op not in ("slice",):
        return f"impl raised {res} vs model {m}"
    if op == "slice":
        if "e" in res or "e" in m:
            if res.get("e") != m.get("e"):
                return f"impl {res} vs model {m}"
        elif res["r"] != m["r"]:
            return f"impl {res['r']} vs model {m['r']}"
        if len(replies) > 1:
            xs = list(range(case["n"]))
            ref = xs[case["start"]:case["stop"]:case["step"]]
            if replies[1].get("r") != ref:
                return f"Lean pySlice {replies[1]} differs from Python slicing {ref}"
        return None
    if op == "fill_into":
        if "e" in res:
            return f"impl raised {res}"
        if res["r"] != m["r"] or res["stop"] != m["stop"]:
            return f"impl {res} vs model {m}"
        return None
    if op == "chunks":
        if res["r"] != m["r"]:
            return f"impl {res['r']} vs model {m['r']}"
        if replies[1]["r"] != _windows(case):
            return f"Lean windows {replies[1]['r']} differs from the Python reference"
        return None
    if res["r"] != m["r"]:
        return f"impl {res['r']} vs model {m['r']}"
    return None


def _compare_reuse(case, res, replies):
    op, m = case["op"], replies[0]
    for r in replies:
        if "err" in r:
            return f"model driver error: {r['err']}"
    if "e" in res or "e" in m:
        # the only exception the model knows at this level is LenaValueError at construction
        if res.get("e") == m.get("e") and res.get("phase") == "init":
            return None
        return f"impl {res} vs model {m}"
    if op == "sess":
        if res["ev"] != m["ev"] or res["rest"] != m["rest"]:
            return f"impl events {res['ev']} rest {res['rest']} vs model events {m['ev']} rest {m['rest']}"
        return None
    if op == "twins":
        got = [res["a"], res["b"]]
        want = [replies[0].get("r"), replies[1].get("r")]
        return None if got == want else f"impl {got} vs model (two fresh instances) {want}"
    if op == "fill_trace":
        if res["out"] != m["out"] or res["r"] != m["r"]:
            return f"impl {res} vs model {m}"
        return None
    if op == "fill2":
        for k, r in (("a", replies[0]), ("b", replies[1])):
            if res[k]["r"] != r["r"] or res[k]["stop"] != r["stop"]:
                return f"instance {k}: impl {res[k]} vs model {r}"
        return None
    if op == "slice_inst":
        mev = ["Other:AttributeError" if e == "AttributeError" else e for e in m["ev"]]
        return None if res["ev"] == mev else f"impl {res['ev']} vs model {mev}"
    raise ValueError(op)


def _windows(case, vals=False):
    xs, cs = (_encs(_vals(case)) if vals else list(range(case["n"]))), case["cs"]
    return [xs[i:i + cs] for i in range(0, len(xs) - cs + 1)]


def oracle(case, res):
    """The property's own statement, evaluated on the real code's result."""
    op = case["op"]
    if op == "slice":
        s = case["step"]
        xs = list(range(case["n"]))
        if s is not None and s < 1:
            if res.get("e") != "LenaValueError" or res.get("phase") != "init":
                return f"Slice{_args(case)} with step {s} must raise LenaValueError at construction, got {res}"
            return None
        if "e" in res:
            return f"Slice{_args(case)} raised {res} on flow {_vals(case)}"
        ref = _encs(_vals(case)[case["start"]:case["stop"]:s])
        if res["r"] != ref:
            return f"Slice{_args(case)}.run({_vals(case)}) = {res['r']} but xs[start:stop:step] = {ref}"
        return None
    if op == "fill_into":
        if "e" in res:
            return f"fill_into raised {res}"
        a, b, s = case["start"], case["stop"], case["step"]
        ref = _encs(_vals(case)[a:b:s])
        st = res["stop"]
        # values filled before the stop signal must be the slice of the prefix fed so far, and
        # LenaStopFill only when no later index could be selected
        if st is None:
            if res["r"] != ref:
                return f"Slice({a},{b},{s}).fill_into filled {res['r']} but slice is {ref}"
        else:
            if res["r"] != ref:
                return f"Slice({a},{b},{s}).fill_into filled {res['r']} before LenaStopFill at {st}; slice is {ref}"
            # LenaStopFill at index st is legitimate only if no index >= st is selected
            if b is None:
                return f"LenaStopFill at index {st} although stop is None (every later index {a or 0}+k*{s or 1} is selected)"
            sel = range(a or 0, b, s or 1)
            if len(sel) and sel[-1] >= st:
                return f"LenaStopFill at index {st} although index {sel[-1]} would be selected"
        return None
    if op in ("sess", "twins", "fill_trace", "fill2", "slice_inst"):
        return _oracle_reuse(case, res)
    if "e" in res:
        return f"{op} raised {res} (case {case})"
    if op == "reverse":
        ref = _encs(reversed(_vals(case)))
        return None if res["r"] == ref else f"Reverse gives {res['r']}, reversed(list(xs)) = {ref}"
    if op == "chain":
        ref = list(itertools.chain(*_chain_xss(case)))
        return None if res["r"] == ref else f"Chain gives {res['r']}, itertools.chain = {ref}"
    if op == "countfrom":
        ref = list(itertools.islice(itertools.count(case["start"], case["step"]), case["n"]))
        return None if res["r"] == ref else f"CountFrom gives {res['r']}, itertools.count = {ref}"
    if op == "chunks":
        ref = _windows(case, vals=True)
        return None if res["r"] == ref else f"RunningChunkBy({case['cs']}) gives {res['r']}, windows = {ref}"
    raise ValueError(op)


_REF_NAME = {"slice": "xs[start:stop:step]", "reverse": "reversed(list(xs))", "chunks": "the sliding windows of xs",
             "chain": "itertools.chain(*iterables)", "countfrom": "itertools.count(start, step)"}


def _el_text(case):
    el = case["el"]
    if el == "slice":
        return f"Slice({case['start']}, {case['stop']}, {case['step']})"
    if el == "reverse":
        return "Reverse()"
    if el == "chunks":
        return f"RunningChunkBy({case['cs']}, container kind {case['container']})"
    if el == "chain":
        return f"Chain(*{_chain_xss(case)} as {case.get('kind', 'list')}s)"
    return f"CountFrom({case['start']}, {case['step']})"


def _per_gen(ev, rest):
    """what each generator yielded over its life: the values of its events followed by what was collected at the
    end; and whether a value followed a StopIteration"""
    out = [[] for _ in rest]
    stopped, bad = set(), []
    for g, v in ev:
        if v is None:
            stopped.add(g)
        else:
            if g in stopped:
                bad.append(g)
            out[g].append(v)
    for g, r in enumerate(rest):
        if r and g in stopped:
            bad.append(g)
        out[g].extend(r)
    return out, bad


def _fill_stop_legit(a, b, s, p):
    """LenaStopFill while the value at position p is filled is legitimate only if no index >= p is selected"""
    if b is None:
        return f"LenaStopFill at index {p} although stop is None (every later index {a or 0}+k*{s or 1} is selected)"
    sel = range(a or 0, b, s or 1)
    if len(sel) and sel[-1] >= p:
        return f"LenaStopFill at index {p} although index {sel[-1]} would be selected"
    return None


def _oracle_reuse(case, res):
    """The property per call: whatever was done with the instance before, and whatever other generators of the same
    instance are alive, each run / call equals the Python reference of its own flow."""
    op = case["op"]
    if "e" in res:
        return f"{op} case raised {res}: {case}"
    if op == "sess":
        # the same schedule played on the reference objects (a fresh reference object per call)
        ref = _play(case, _ref_spawner(case))
        if res["ev"] == ref["ev"] and res["rest"] == ref["rest"]:
            return None
        got, bad = _per_gen(res["ev"], res["rest"])
        want, _ = _per_gen(ref["ev"], ref["rest"])
        name = _el_text(case)
        starts = [o for o in case["ops"] if isinstance(o, list)]
        for g, (x, y) in enumerate(zip(got, want)):
            if x != y:
                flow = "" if case["el"] in ("chain", "countfrom") else f" on the flow {starts[g]}"
                return (f"call number {g + 1} of one {name} instance{flow} yielded {x}, but {_REF_NAME[case['el']]} "
                        f"gives {y} (schedule: {case['ops']}; a list = new run/call of the instance, g = next of "
                        f"generator g)")
        return (f"{name}: generator(s) {sorted(set(bad))} yielded after StopIteration or stopped at a different point "
                f"than the reference: events {res['ev']} vs reference {ref['ev']} (schedule {case['ops']})")
    if op == "twins":
        ref = _play_twins(case, _ref_spawner(case), _ref_spawner(case))
        if res == ref:
            return None
        return (f"two {_el_text(case)} instances used in turn yielded {res['a']} and {res['b']}, the references "
                f"{_REF_NAME[case['el']]} give {ref['a']} and {ref['b']}")
    a, b, s = case["start"], case["stop"], case["step"]
    if op == "fill_trace":
        fed = _vals(case)
        ref = _encs(fed[a:b:s])
        if res["r"] != ref:
            return (f"Slice({a},{b},{s}).fill_into fed with {fed} (going on after LenaStopFill) filled {res['r']} "
                    f"but the slice is {ref}; outcomes {res['out']}")
        odd = [o for o in res["out"] if o not in ("filled", "skipped", "stop")]
        if odd:
            return f"Slice({a},{b},{s}).fill_into: {odd[0]} (outcomes {res['out']})"
        if "stop" in res["out"]:
            return _fill_stop_legit(a, b, s, res["out"].index("stop"))
        return None
    if op == "fill2":
        for k, fed in (("a", _flow(0, case["n"])), ("b", _flow(1, case["n2"]))):
            ref = fed[a:b:s]
            r = res[k]
            if r["r"] != ref:
                return (f"two Slice({a},{b},{s}) instances filled in turn: instance {k} fed with {fed} filled {r['r']} "
                        f"but the slice is {ref}")
            if r["stop"] is not None:
                msg = _fill_stop_legit(a, b, s, r["stop"])
                if msg:
                    return f"instance {k}: {msg}"
        return None
    if op == "slice_inst":
        neg = any(v is not None and v < 0 for v in (a, b))
        fed, outs = [], []
        for i, (o, e) in enumerate(zip(case["ops"], res["ev"])):
            if isinstance(o, list):
                ref = o[a:b:s]
                if e != {"r": ref}:
                    return (f"Slice({a},{b},{s}).run({o}), operation number {i + 1} on this instance, gave {e} but "
                            f"xs[start:stop:step] = {ref}; all operations: {case['ops']} (a list = run on that flow, "
                            f"a number = fill_into of that value)")
            else:
                fed.append(o)
                outs.append(e)
        if neg:
            return None     # fill_into with negative arguments is outside the property
        ref = fed[a:b:s]
        if res["filled"] != ref:
            return (f"Slice({a},{b},{s}).fill_into interleaved with run of the same instance: fed {fed}, filled "
                    f"{res['filled']}, the slice is {ref}; operations {case['ops']}")
        odd = [o for o in outs if o not in ("filled", "skipped", "stop")]
        if odd:
            return f"Slice({a},{b},{s}).fill_into: {odd[0]}; operations {case['ops']}"
        if "stop" in outs:
            return _fill_stop_legit(a, b, s, outs.index("stop"))
        return None
    raise ValueError(op)


def nontrivial(case, res):
    if case["op"] in ("sess", "slice_inst"):
        return "e" in res or bool(res.get("ev"))
    if case["op"] in ("twins", "fill2"):
        return "e" in res or bool(res.get("a")) or bool(res.get("b"))
    return "e" in res or bool(res.get("r"))


def classify(case, res):
    op = case["op"]
    if op == "slice":
        a, b = case["start"], case["stop"]
        def k(v):
            return "N" if v is None else ("-" if v < 0 else "+")
        return [f"slice:{k(a)}{k(b)}:step={'N' if case['step'] is None else min(case['step'], 5)}",
                "slice:" + ("error" if "e" in res else ("empty" if not res["r"] else "nonempty"))]
    if op == "fill_into":
        return ["fill_into:" + ("stopfill" if res.get("stop") is not None else "nostop")]
    if op == "sess":
        return [f"sess:{case['el']}:{case.get('tpl')}"]
    if op == "twins":
        return [f"twins:{case['el']}"]
    if op == "slice_inst":
        return ["slice_inst:" + case.get("pat", "?")]
    return [op]


def signature(case, failure):
    c = dict(case)
    if "ops" in c:
        # one report per element configuration and schedule family, not per schedule
        c.pop("ops")
    return f"{c.pop('op')}:" + ",".join(f"{k}={c[k]}" for k in sorted(c))


def shrink(case):
    if "ops" in case:
        ops = case["ops"]
        for i in reversed(range(len(ops))):
            # dropping a `next`; dropping a run/call only if no later operation refers to a generator
            if not isinstance(ops[i], list) or case["op"] == "slice_inst" or \
                    not any(isinstance(o, int) for o in ops[i + 1:]):
                yield dict(case, ops=ops[:i] + ops[i + 1:])
        for i, o in enumerate(ops):
            if isinstance(o, list) and o:
                yield dict(case, ops=ops[:i] + [o[:-1]] + ops[i + 1:])
    for k in ("n", "n2"):
        if k in case and case[k] > 0:
            yield dict(case, **{k: case[k] - 1})
    if isinstance(case.get("lens"), list):
        for i, l in enumerate(case["lens"]):
            if l > 0:
                yield dict(case, lens=case["lens"][:i] + [l - 1] + case["lens"][i + 1:])
    for k in ("start", "stop"):
        v = case.get(k)
        if isinstance(v, int) and v != 0:
            yield dict(case, **{k: v - 1 if v > 0 else v + 1})
    if isinstance(case.get("step"), int) and case["step"] > 1:
        yield dict(case, step=case["step"] - 1)

# ---- MANIFEST texts ------------------------------------------------------------------------
LEVEL_TEXT = ("Lean 4 theorems about a transcribed model of Slice/Reverse/Chain/CountFrom/RunningChunkBy, for all "
              "indices, steps and finite flows (no bound); the model is tied to /repo by a correspondence check that "
              "enumerates the property's whole stated scope (start,stop in {None,-7..7}, step in {None,1..4}, len 0..10; "
              "fill_into for all non-negative combinations) on every run, plus a direct Python-slicing oracle on the real code. "
              "Repeated and interleaved use of one instance is modelled as a state machine (sessions): theorems say that every "
              "call/run equals the reference whatever the history; the correspondence and the oracle drive the real elements "
              "through the same schedules.")
LEVEL_NOTE = ("Trusted: Lean kernel (+ propext, Classical.choice, Quot.sound), the hand transcription validated by the "
              "exhaustive-in-scope correspondence run, itertools/deque semantics as transcribed, the JSON protocol.")
TECHNIQUE = "Lean 4 proof over hand-written model + exhaustive-in-scope correspondence check"
DESIGN_REF = "DESIGN.md section 3, C17"
