"""C17 — flow iterators equal their Python reference (Slice is list slicing).

Real code: lena.flow.Slice / Reverse / Chain / CountFrom / RunningChunkBy.
Model: lean/LenaModel/Model/C17.lean and Model/C17Sess.lean (one instance used more than once), theorems
lean/LenaModel/Props/C17.lean (helper lemmas Lemmas/C17.lean, Lemmas/C17Sess.lean).

The property is stated per call.  Besides single runs of fresh instances the harness drives the elements the way the
framework may: the same instance run/called several times, several generators of one instance alive at once and
advanced in an interleaved order, a run abandoned half-way followed by another, two instances built from the same
arguments used in turn, Slice.run and Slice.fill_into of one object interleaved, fill_into continued after
LenaStopFill.  The oracle plays the same schedule on the Python reference (a fresh reference object per call) and
demands equality for every call.

Adversary round (notes/adversary_C17.md): flows whose values are containers themselves (the elements must not look into
the values), the caller's container shared by several runs and read again after a run (the references leave it as it
was), instances obtained with copy.deepcopy (families of Slice objects: Model/C17Adv.lean), flows of 1000 .. 131073
values (longer than any block size a rewrite may read its input in).
"""
import itertools

from harness.common import exc_name

PID = "C17"
TITLE = "Flow iterators equal their Python reference (Slice is list slicing)"
LEAN_MODULES = ["LenaModel.Props.C17", "LenaModel.Props.C17Ext", "LenaModel.Props.C17Adv", "LenaModel.Props.C17Num"]
LEAN_SOURCES = ["LenaModel/Model/C17.lean", "LenaModel/Model/C17Sess.lean", "LenaModel/Model/C17Ext.lean",
                "LenaModel/Model/C17Adv.lean", "LenaModel/Model/C17Num.lean", "LenaModel/Props/C17Num.lean",
                "LenaModel/Lemmas/C17.lean", "LenaModel/Lemmas/C17Sess.lean", "LenaModel/Props/C17.lean",
                "LenaModel/Props/C17Ext.lean", "LenaModel/Props/C17Adv.lean"]
DRIVER = "drivers/C17.lean"
THEOREMS = [
    # --- the theorems that carry the property -----------------------------------------------------------------
    # Slice.run is list slicing (all start/stop/step, all finite flows); construction rejects/accepts steps
    "Lena.C17.slice_run_eq_pyslice",
    "Lena.C17.slice_rejects_bad_step",
    "Lena.C17.slice_accepts_good_step",
    "Lena.C17.pySlice_getElem?",
    "Lena.C17.islice_eq_pySlice",
    "Lena.C17.runNegative_eq_pySlice",
    "Lena.C17.slice_run_eq_pyslice_ms",
    "Lena.C17.slice_rejects_huge_step",
    "Lena.C17.slice_args_run",
    "Lena.C17.mkSliceMS_rejects_bad_step",
    "Lena.C17.sliceOfArgs_rejects_bad_step",
    # fill_into fills the slice; LenaStopFill only when done, exactly where, and for good
    "Lena.C17.fill_into_eq",
    "Lena.C17.stopfill_only_when_done",
    "Lena.C17.slice_fill_into_eq",
    "Lena.C17.slice_stopfill_only_when_done",
    "Lena.C17.stopfill_exact",
    "Lena.C17.stopfill_never_without_stop",
    "Lena.C17.stopfill_persists",
    "Lena.C17.fill_trace_eq",
    # Reverse, CountFrom, RunningChunkBy, Chain
    "Lena.C17.reverse_spec",
    "Lena.C17.countfrom_spec",
    "Lena.C17.countfrom_never_stops",
    "Lena.C17.chunks_are_windows",
    "Lena.C17.chunks_are_windows_zero",
    "Lena.C17.chunks_are_windows_all",
    "Lena.C17.windows_spec",
    "Lena.C17.chain_shared_conservation",
    "Lena.C17.chain_shared_stop",
    # generators of one instance advanced in any interleaving are independent, provided creating a generator leaves
    # the instance as it was (the proviso is discharged by the transcription, validated by the correspondence)
    "Lena.C17.session_calls_independent",
    # adversary round.  Objects made with copy.deepcopy (how lena multiplies elements): an object is disturbed neither
    # by the others nor by being copied, a copy behaves as its original would have, every fresh copy of a Slice fills
    # the slice of the values IT is fed with and every run of any object of the family is the slice of its flow
    "Lena.C17.family_object_independent",
    "Lena.C17.family_copy_as_original",
    "Lena.C17.family_lineage",
    "Lena.C17.family_lineage_events",
    "Lena.C17.fresh_copies_independent",
    "Lena.C17.slice_copies_fill_eq",
    "Lena.C17.slice_family_run_eq",
    # the elements never look into the values (a value that is a tuple / list / string is passed on as it is): the
    # model's functions commute with any replacement of the values - Slice.run on every branch, fill_into, Reverse,
    # Chain (a single iterable too), RunningChunkBy
    "Lena.C17.slice_run_natural",
    "Lena.C17.fill_into_natural",
    "Lena.C17.reverse_natural",
    "Lena.C17.chain_natural",
    "Lena.C17.chunks_natural",
    # seed round I/J.  CountFrom over numbers that are not ints: itertools.count(start, step) is REPEATED ADDITION in the
    # arithmetic of its arguments (countFromG, any type with +): every value is the previous one plus step, and that
    # determines the sequence; in exact arithmetic (any commutative ring; the rationals) it is start + i*step; over the
    # integers it is the countFrom of the other theorems; a count over rationals with common denominator d is the
    # integer count divided by d
    "Lena.C17.countFromG_step",
    "Lena.C17.countFromG_unique",
    "Lena.C17.countFromG_exact",
    "Lena.C17.countFromQ_spec",
    "Lena.C17.countFromG_int",
    "Lena.C17.countFromQ_scale",
]
# Structural lemmas, bridges between executable and specification-side definitions, and statements that hold by the
# way the model is written (a model whose `run` returns the instance unchanged keeps no state): audited for axioms,
# NOT counted as proof obligations that carry the property.  That the real elements keep no state between runs is
# established by the correspondence check and the oracle (sessions), not by these.
AUX_THEOREMS = [
    "Lena.C17.countFromG_length",
    "Lena.C17.countFromG_head",
    "Lena.C17.countFromG_hom",
    "Lena.C17.rounding_add_differs",
    "Lena.C17.famEvents_append",
    "Lena.C17.eventsOf_append",
    "Lena.C17.objAfter_append",
    "Lena.C17.objEvents_append",
    "Lena.C17.lineage_existing",
    "Lena.C17.famAfter_fresh_copies",
    "Lena.C17.famEvents_copies",
    "Lena.C17.objEvents_slice",
    "Lena.C17.pySlice_map",
    "Lena.C17.everyNthAux_map",
    "Lena.C17.windows_map",
    "Lena.C17.fillTrace_map",
    "Lena.C17.filledOf_map",
    "Lena.C17.chain_single",
    "Lena.C17.chain_append",
    "Lena.C17.chain_spec",
    "Lena.C17.windows_short",
    "Lena.C17.session_no_generator",
    "Lena.C17.countfrom_calls_independent",
    "Lena.C17.countfrom_call_fresh",
    "Lena.C17.slice_runs_independent",
    "Lena.C17.reverse_runs_independent",
    "Lena.C17.chunks_runs_independent",
    "Lena.C17.chain_calls_independent",
    "Lena.C17.slice_run_history_independent",
    "Lena.C17.slice_fill_ignores_runs",
    "Lena.C17.goodStepB_iff",
    "Lena.C17.hasNegB_iff",
    "Lena.C17.fillOutcomes_eq",
    "Lena.C17.fillValues_eq",
    "Lena.C17.slice_rejects_huge",
    "Lena.C17.slice_huge_deque_overflows",
    "Lena.C17.sliceOfArgs_forms",
    "Lena.C17.sliceEq_sound",
    "Lena.C17.countFromEq_iff",
    "Lena.C17.chainEq_iff",
    "Lena.C17.chunks_container",
    "Lena.C17.mkSliceInst_nonneg",
    "Lena.C17.slice_rejects_float_step",
]
TRUSTED = [
    "Lean 4.33.0 kernel; axioms limited to propext, Classical.choice, Quot.sound (audited by #print axioms on every run)",
    "hand transcription of lena/flow/iterators.py and RunningChunkBy.run into LenaModel/Model/C17.lean and of what the "
    "instances keep between calls into LenaModel/Model/C17Sess.lean, validated by this correspondence check on the "
    "property's whole enumerated scope and on schedules of repeated / interleaved use of one instance",
    "itertools.islice / collections.deque / itertools.chain / itertools.count semantics as transcribed (validated likewise)",
    "JSON line protocol encoders (harness/props/c17.py, drivers/C17.lean)",
    "sys.maxsize == 2**63 - 1 on the machine that runs the check (asserted); the limits of itertools.islice and "
    "collections.deque(maxlen) as transcribed in Model/C17Ext.lean (mkSliceMS, dequeMaxlen), validated by the correspondence",
    "that the real elements keep no state between runs/calls (the proviso hE of session_calls_independent; in the model "
    "`run` returns the instance unchanged by transcription) rests on the correspondence check and the oracle over "
    "schedules of repeated and interleaved use, not on a theorem",
    "countFromInit / rcbInit (type checks at construction) receive isinstance(x, numbers.Number) / callable(x) from the "
    "harness: they record the branch structure only; float steps are one constructor (StepArg.float) of the model",
    "CountFrom on floats: the Lean model has no IEEE arithmetic. countFromG (Model/C17Num.lean) is itertools.count's "
    "repeated addition over any type with +; the theorems about floats are the laws of repeated addition "
    "(countFromG_step / countFromG_unique), the closed form start + i*step is proved for exact arithmetic only "
    "(countFromG_exact). The model (countFromQ, rationals) is asked exactly when CPython's arithmetic on the arguments "
    "is exact for the values taken (ints, bools, Fractions, Decimals within the context precision, floats whose partial "
    "sums are all representable - decided with the real itertools.count and Fractions, never with the element); all "
    "other numeric cases (0.1, 1e17 + 0.5, nan, inf, complex, Decimal + float raising) are checked on the real code "
    "against the real itertools.count of this CPython only (oracle), with == on the yielded values (nan equal to nan)",
    "the elements are driven directly (run / __call__ / fill_into), not through Sequence/Split; how the framework drives "
    "them is the business of C01/C05 and the bridge theorems",
    "copy.deepcopy of a Slice gives an object with an equal, separate state (Model/C17Adv.lean: a copy is the same "
    "SliceInst value): that the real class keeps nothing outside its instance attributes (no closure, class attribute or "
    "module table shared by the copies) rests on the correspondence check and the oracle over families of copies",
    "that an element leaves the container it is given as its flow unchanged is checked by the oracle (the container is "
    "read again after the run; one container is given to several runs), not proved: in the model a flow is a value",
    "flows longer than 1100 values (up to 131073 in the quick tier) are checked by the oracle only; the model, whose "
    "theorems hold for every length, is asked up to 1100 values (its transcribed loops are quadratic in the interpreter)",
]
ASSUMPTIONS = [
    "finite flows of integers stand for finite flows of arbitrary values: the model's functions commute with any "
    "replacement of the values (theorems *_natural), and the real elements are run on flows whose values are tuples, "
    "lists, strings, dicts, frozensets, empty and nested containers, compared with the translated answer of the model",
    "pySlice (Lean) is Python list slicing: checked against xs[a:b:s] on every case",
    "a flow is any finite iterable (lena.core.flow_to_iter): the model's list semantics must hold whether run gets an "
    "iterator, a list, a tuple, a range, a generator, a deque, a dict (keys), a set/frozenset (in its iteration order), "
    "a str, an object with only __iter__ or only __getitem__/__len__; flows of different runs are different objects; "
    "a generator is modelled by the values it will yield (laziness and the amount of flow consumed are C02's business)",
    "element.fill(value) called by fill_into does not raise (if it does, _index is not advanced: outside the statement)",
    "chunk_size is a natural number (a negative one gives a plain ValueError of islice/deque at the first next, a "
    "non-integer a TypeError: unmodelled); steps are None, int, or float - every float step (finite, inf, nan) must be "
    "rejected with LenaValueError (oracle; model: StepArg.float); str/complex steps raise TypeError, True counts as 1: outside",
    "start + step <= sys.maxsize when stop is None: beyond that CPython's itertools.islice overflows its signed counter "
    "(islice(it, 1, None, sys.maxsize) on 4 values yields [1, 2]; observed on 3.12.1) and Slice inherits it; the model's "
    "islice does not reproduce the overflow; these cases are excluded from correspondence and oracle",
    "values agree with the model but cost may not: next(islice(count(0), start, stop)) with stop <= start costs O(start) "
    "in the real code (Slice(10**8, 3).fill_into takes seconds before LenaStopFill); real termination time is not modelled",
    "start and stop beyond +-sys.maxsize are outside the oracle (limits of islice/deque: LenaValueError at construction "
    "resp. OverflowError during run); they are modelled (mkSliceMS, sliceRunMS) and checked by the correspondence; the "
    "theorems about them carry the hypothesis InRange",
    "Reverse on an endless flow (it must consume the whole flow) is outside; __eq__/__repr__ and the LenaTypeError of "
    "RunningChunkBy.__init__ are outside the statement: correspondence only",
    "CountFrom(start, step) equals itertools.count(start, step) for EVERY pair of numbers the reference accepts (ints, "
    "bools, int subclasses, floats incl. inf/nan/-0.0, Fractions, Decimals, complex, mixed pairs): the values are compared "
    "with Python's == (exact across the numeric types; nan taken equal to nan), not the types (1 == 1.0 == True) and not "
    "float bit patterns (0.0 == -0.0); where the arithmetic raises at some value (Decimal + float) the element must raise "
    "the same exception class at the same value or one value later (CPython's count adds before it yields), where the reference cannot be constructed neither can the element",
    "Slice indices / steps that are bools or int subclasses are integers (Python slicing accepts them: xs[True:] is "
    "xs[1:], a step False is 0 and rejected) and inside the statement; objects that are only index-like (__index__ "
    "without ordering / arithmetic) and float indices (xs[2.0:] is a TypeError in Python too) are outside: /repo raises "
    "TypeError for them at construction or in run; not tested",
    "copies: the statement is taken to hold for every Slice object, also one obtained with copy.deepcopy from an object "
    "that has not been filled yet (how lena multiplies elements: init_bins(deepcopy=True), SplitIntoBins, vectorize) - "
    "oracle; what a deepcopy of an already FILLED Slice does (/repo: it continues from the position of the original; a "
    "__deepcopy__ that starts afresh would be as legitimate) is outside the statement: correspondence only; copy.copy "
    "(shallow: the copies share the _indices iterator in /repo) and pickling (the _islice lambda) are not promised, not tested",
    "the flow object given to run is left as it was whenever it can be iterated again (the Python references do not "
    "change xs): taken as part of 'equals reversed(list(xs)) / xs[start:stop:step] / the windows' - evaluated on the same "
    "xs after the run the reference must give what was yielded; one-shot iterators are consumed, by necessity",
]
RULE = ("quick and thorough: exhaustive enumeration of start,stop in {None,-7..7} x step in {None,1..4} x len 0..10 "
        "(plus one- and two-argument call forms, steps 0,-1,-3 for rejection), fill_into for all non-negative "
        "combinations, Reverse/Chain/CountFrom/RunningChunkBy(1..5, tuple/list/namedtuple-style containers); thorough adds "
        "seeded random cases with len<=60, |index|<=70, step<=12. Instance reuse (both tiers): for every (start,stop,step) of "
        "the scope one Slice instance run on 2-3 flows under six schedules (sequential, lock-step, interrupted, idle first "
        "generator, abandoned, three generators); the same for Reverse, RunningChunkBy(1..5, 3 container kinds), Chain over "
        "lists/tuples/ranges/shared one-shot iterators (lens 0..3 cubed); CountFrom: every schedule of <=7 operations with "
        "<=3 calls of one instance; twin instances with equal arguments used in turn; fill_into continued after "
        "LenaStopFill (whole non-negative scope), two Slice instances filled in turn, run and fill_into of one Slice "
        "interleaved; thorough adds 30000 random schedules. Flows are given as iterators and, for a part of every family, as "
        "lists/tuples/ranges/generators. Extension: call forms Slice(stop)/Slice(start,stop)/Slice(start,stop,step) with "
        "both constructors (Slice, ISlice), 0 and 4 arguments, arguments at and beyond +-sys.maxsize in every position, "
        "float steps, __eq__/__repr__ of Slice/CountFrom/Reverse/Chain on all pairs of a palette, type checks of "
        "CountFrom.__init__ (7x7 argument kinds, against itertools.count) and RunningChunkBy.__init__, RunningChunkBy "
        "with tuple/list/star/namedtuple/frozenset containers for chunk sizes 0..6 and lengths 0..10, CountFrom beyond 64 "
        "bits; thorough adds 4000 random argument tuples drawn from the big values. Review round: the fill_into families "
        "are built with all three call forms and the model applies the None defaults; CountFrom is also called as "
        "CountFrom(), CountFrom(a), by keyword and with step only (reference: itertools.count called the same way); "
        "RunningChunkBy by keyword and with truthy/falsy non-bool from_iterable; flow kinds deque/dict/set/frozenset/str/"
        "__iter__-only/__getitem__-only for a part of every family; steps inf, -inf, nan, 1e300; long inputs in both tiers "
        "(lengths 16,17,33,64,65,129,257 x 14 index values around them x steps None,2,17; Reverse up to 1000 values; Chain "
        "iterables up to 257; chunk sizes 15..64; sessions with flows up to 129), thorough adds 8000 log-uniform cases "
        "(lengths to 5000, indices to 2000, steps and chunk sizes to 300). Non-trivial: result non-empty, any event, or "
        "an exception. Adversary round (both tiers, deterministic): values that are containers (kinds pair (i, {'i': i}), list, str, "
        "mixed = tuples/lists/strings/dicts/frozensets/empty/nested): Slice.run whole start/stop/step scope on flows of 6/10/7 "
        "such values (iterator, list, tuple; generator and deque for steps None/2), fill_into whole non-negative scope, "
        "Reverse lengths 0..12 x 7 flow kinds, RunningChunkBy(1..5) x 3 containers, sessions and twins; Chain with 0..4 "
        "iterables of 0..3 values x list/tuple/iterator/generator/range x 5 value kinds, one object given 1..4 times, 300 "
        "iterables, sessions with 1 and 2 iterables. One container read by several runs of an instance (`same`): Slice "
        "whole scope x steps None/2/3 x schedules, Reverse lengths 0..7 x 9 container kinds x 6 schedules, RunningChunkBy; "
        "70 generators of one instance alive at once; every single-run case with a re-iterable flow also checks that the "
        "container holds afterwards what it held. Copies: twins whose second instance is copy.deepcopy of the first "
        "(fresh / after a generator of the first yielded 0 or 3 values) for Slice whole scope, Reverse, RunningChunkBy, "
        "CountFrom (all call shapes), Chain; families of Slice objects (copy.deepcopy, fill_into, run in turn; 3 templates) "
        "for the whole non-negative scope and all call forms. Long flows: 21 lengths 1000..131073 (2**k, 2**k+-1, k=10..17, "
        "1500, 3001, 5003, 10001, 20011, 50021, 100003) x every element (Slice 20 index/step triples around 0, n/2, n and "
        "the powers of two, steps 1000/1024/1025; fill_into/fill_trace 8; chunk sizes 1, 3, 1023, 1025, n-1, n, n+1; Chain "
        "long iterable first/last/split/after 40 short ones; sessions on flows of n, n/2+1, 7 values and on one shared "
        "list), model asked up to 1100 values. Thorough adds 12000 random cases of these families and 25 random lengths "
        "up to 300000. Seed round I/J (both tiers, deterministic): numbers that are not ints. CountFrom: 25 starts x 18 steps "
        "(ints, bools, int subclass, floats 0.1/0.5/-2.75/1e17/2**53/1e308/-0.0/inf/-inf/nan, Fractions, Decimals incl. "
        "NaN and 1E+30, complex, 10**17, 2**64; steps also 0.7, 1e-09, 1e300, 1.0) x 60 values, also CountFrom(a) and "
        "CountFrom(step=s); 16 chosen pairs (rounding sums, a step swallowed by a huge start, dyadic floats, Fractions, "
        "Decimals, bools, mixed) by keyword, for 1025 and 4097 values, under the six schedules and a long one, as twins and "
        "as deepcopies; reference: the real itertools.count; the rational model is asked when the arithmetic is exact. "
        "Flows whose values are numbers (kind num: floats incl. nan/inf/-0.0/1e17+16i, Fractions, Decimals, bools, complex) "
        "for Slice.run whole scope (9 values), fill_into whole non-negative scope, Reverse, RunningChunkBy, Chain (all "
        "the container-value families). Slice with bool / int-subclass start, stop, step (8 x 8 x 7 palette). Thorough "
        "adds 6000 random numeric CountFrom cases (lengths to 3000, sessions).")
CASE_TIMEOUT = 10


def _slice_cases(starts, stops, steps, lens):
    for a in starts:
        for b in stops:
            for s in steps:
                for n in lens:
                    yield {"op": "slice", "start": a, "stop": b, "step": s, "n": n, "form": 3}


def gen_cases(ctx):
    """a generator (the shared machinery samples it lazily)"""
    small = list(itertools.chain(_base_cases(), _reuse_cases(), _ext_cases(), _long_cases(), _adv_cases(), _num_cases()))
    # the few expensive cases are spread over the list (the model requests are answered in consecutive blocks, in parallel)
    huge = list(_huge_cases(_HUGE))
    k = max(1, len(small) // (len(huge) + 1))
    for i, c in enumerate(small):
        yield c
        if i % k == k - 1 and huge:
            yield huge.pop()
    yield from huge
    ctx.exhaustive = True
    if ctx.tier == "thorough":
        ctx.exhaustive = False  # the random part is sampled
        yield from _random_cases(ctx.rng)
        yield from _random_long_cases(ctx.rng)
        yield from _random_adv_cases(ctx.rng)
        yield from _random_num_cases(ctx.rng)
        yield from _huge_cases(sorted({1000 + _logu(ctx.rng, 300000) for _ in range(25)}), ctx.rng)


# ---- adversary round: values that are containers, the caller's objects shared / unchanged, copies of instances,
#      flows longer than any block size --------------------------------------------------------------------------
def _same(case, tpl, n):
    """a schedule in which every run of the instance is given the SAME flow object (n values)"""
    ops = _schedule(case, tpl, (n, n, n))
    return [_flow(0, n) if isinstance(o, list) else o for o in ops]


FAM_TEMPLATES = ("fresh", "mid", "runs")


def _fam_ops(tpl, n=9):
    """operations on a family of Slice objects (see run_impl, op 'fam')"""
    if tpl == "fresh":      # three copies of the fresh object; all four fed in turn, each with its own values
        return [["c", 0]] * 3 + [[k, 100 * k + r] for r in range(n) for k in range(4)]
    if tpl == "mid":        # copies taken while the objects are being filled; a copy of a copy
        ops = [[0, r] for r in range(3)] + [["c", 0]]
        ops += [[k, 100 * k + r] for r in range(3, 6) for k in (1, 0)] + [["c", 1], ["c", 0]]
        return ops + [[k, 100 * k + r] for r in range(6, n + 3) for k in (2, 0, 3, 1)]
    if tpl == "runs":       # run and fill_into of the original and of a fresh copy interleaved
        ops = [["c", 0], [1, _flow(0, 8)], [0, 0], [1, 100], [0, _flow(1, 5)], [1, 101], ["c", 0]]
        return ops + [[k, 100 * k + r] for r in range(2, n) for k in (0, 1)] + [[2, _flow(2, 9)], [0, _flow(3, 9)]] + \
            [[2, 200 + r] for r in range(n)]
    raise ValueError(tpl)


def _adv_cases():
    """deterministic: the whole listed space is enumerated"""
    idx = [None] + list(range(-7, 8))
    nn = [None] + list(range(0, 8))
    steps = [None, 1, 2, 3, 4]
    # (A) flows whose values are containers themselves: the whole scope of start/stop/step
    for a in idx:
        for b in idx:
            for st in steps:
                yield {"op": "slice", "start": a, "stop": b, "step": st, "n": 6, "form": 3, "vk": "mixed"}
                yield {"op": "slice", "start": a, "stop": b, "step": st, "n": 10, "form": 3, "vk": "pair", "flow": "list"}
                yield {"op": "slice", "start": a, "stop": b, "step": st, "n": 7, "form": 3, "vk": "mixed", "flow": "tuple"}
                yield dict({"op": "slice", "start": a, "stop": b, "step": st, "n": 9, "form": 3, "vk": "num"},
                           **({"flow": ("list", "tuple")[st % 2]} if st else {}))
                if st in (None, 2):
                    yield {"op": "slice", "start": a, "stop": b, "step": st, "n": 5, "form": 3, "vk": "list", "flow": "gen"}
                    yield {"op": "slice", "start": a, "stop": b, "step": st, "n": 8, "form": 3, "vk": "str", "flow": "deque"}
    for a in nn:
        for b in nn:
            for st in steps:
                for n, vk in ((6, "mixed"), (10, "pair"), (9, "num")):
                    yield {"op": "fill_into", "start": a, "stop": b, "step": st, "n": n, "vk": vk}
    for n in range(0, 13):
        for vk in LIFT_KINDS:
            for fk in (None, "list", "tuple", "gen", "deque", "iteronly", "getitem"):
                yield dict({"op": "reverse", "n": n, "vk": vk}, **({"flow": fk} if fk else {}))
            for cs in range(1, 6):
                for cont in ("tuple", "list", "star"):
                    yield {"op": "chunks", "cs": cs, "n": n, "container": cont, "vk": vk}
                    if n in (6, 7):
                        yield {"op": "chunks", "cs": cs, "n": n, "container": cont, "vk": vk, "flow": "list"}
    # Chain: 0..4 iterables of 0..3 values each, as lists / tuples / iterators / generators / ranges, the values plain
    # and containers (one list of pairs, one tuple of tuples, ... : Chain must not look into the values)
    for k in range(0, 5):
        for lens in itertools.product(range(0, 4), repeat=k):
            for kind in ("list", "tuple", "iter", "gen"):
                for vk in ("int",) + LIFT_KINDS:
                    yield {"op": "chain_v", "lens": list(lens), "kind": kind, "vk": vk}
            yield {"op": "chain_v", "lens": list(lens), "kind": "range", "vk": "int"}
    for k in range(1, 5):
        for n in range(0, 4):
            for kind in ("list", "tuple", "range", "iter", "gen"):
                for vk in ("int", "mixed"):
                    if kind != "range" or vk == "int":
                        # the same object k times (a one-shot iterator is exhausted by its first turn)
                        yield {"op": "chain_v", "lens": [n] * k, "kind": kind, "vk": vk, "alias": True}
    # many iterables; many generators of one instance alive at once
    for kind in ("list", "iter"):
        yield {"op": "chain_v", "lens": [i % 3 for i in range(300)], "kind": kind, "vk": "pair"}
    many = [[]] * 70 + [g for _ in range(3) for g in range(70)]
    yield {"op": "sess", "el": "countfrom", "start": 2, "step": 5, "tpl": "many", "ops": many}
    yield {"op": "sess", "el": "chain", "lens": [2, 1], "kind": "list", "tpl": "many", "ops": many}
    yield {"op": "sess", "el": "chain", "lens": [40, 41], "kind": "iter", "tpl": "many", "ops": many}
    for el, extra in (("reverse", {}), ("slice", {"start": -3, "stop": None, "step": None}),
                      ("chunks", {"cs": 2, "container": "tuple"})):
        base = dict({"op": "sess", "el": el, "tpl": "many"}, **extra)
        yield dict(base, ops=[_flow(g % 9, 4 + g % 3) for g in range(70)] + [g for _ in range(3) for g in range(70)])
        yield dict(base, same=True, fk="list", tpl="many:same",
                   ops=[_flow(0, 5) for g in range(70)] + [g for _ in range(3) for g in range(70)])
    for k in (1, 2):
        for lens in itertools.product(range(0, 4), repeat=k):
            for kind in ("list", "tuple", "range", "iter", "gen"):
                for vk in ("int", "pair", "mixed"):
                    if kind == "range" and vk != "int":
                        continue
                    for tpl in TEMPLATES:
                        base = {"op": "sess", "el": "chain", "lens": list(lens), "kind": kind, "vk": vk}
                        yield dict(base, tpl=tpl, ops=[([] if isinstance(o, list) else o)
                                                       for o in _schedule(base, tpl, (0, 0, 0))])
            for vk in ("int", "mixed"):
                yield {"op": "twins", "el": "chain", "lens": list(lens), "kind": "list", "vk": vk}
                yield {"op": "twins", "el": "chain", "lens": list(lens), "kind": "tuple", "vk": vk, "copy": "deep"}
    for tpl in TEMPLATES:
        for vk in ("pair", "mixed"):
            for a, b, st in ((None, None, None), (-3, None, None), (None, -2, 2), (1, 5, None), (-5, 4, None), (2, -1, 3)):
                base = {"op": "sess", "el": "slice", "start": a, "stop": b, "step": st, "vk": vk}
                yield dict(base, tpl=tpl, ops=_schedule(base, tpl, (7, 5, 6)))
                yield dict(base, tpl=tpl, fk="list", ops=_schedule(base, tpl, (6, 8, 3)))
            base = {"op": "sess", "el": "reverse", "vk": vk}
            yield dict(base, tpl=tpl, ops=_schedule(base, tpl, (5, 3, 4)))
            yield dict(base, tpl=tpl, fk="tuple", ops=_schedule(base, tpl, (4, 6, 2)))
            for cs in (1, 2, 3):
                base = {"op": "sess", "el": "chunks", "cs": cs, "container": "tuple", "vk": vk}
                yield dict(base, tpl=tpl, ops=_schedule(base, tpl, (6, 4, 5)))
    # (B) one container read by several runs of the instance (the caller's object is shared, never consumed)
    for tpl in TEMPLATES:
        for a in idx:
            for b in idx:
                for st in (None, 2, 3):
                    base = {"op": "sess", "el": "slice", "start": a, "stop": b, "step": st, "same": True}
                    fk = ("list", "tuple", "range", "deque", "getitem", "iteronly")[(idx.index(a) + idx.index(b)) % 6]
                    if tpl in ("seq", "lock", "lock3") or fk == "list":
                        yield dict(base, tpl=tpl + ":same", fk="list", ops=_same(base, tpl, 8))
                    if fk != "list" and tpl in ("seq", "lock", "part"):
                        yield dict(base, tpl=tpl + ":same", fk=fk, ops=_same(base, tpl, 7))
        for n in range(0, 8):
            for fk in SESS_REITERABLE:
                base = {"op": "sess", "el": "reverse", "same": True}
                yield dict(base, tpl=tpl + ":same", fk=fk, ops=_same(base, tpl, n))
            for cs in range(1, 5):
                for fk in ("list", "tuple", "range", "deque"):
                    base = {"op": "sess", "el": "chunks", "cs": cs, "container": "tuple", "same": True}
                    yield dict(base, tpl=tpl + ":same", fk=fk, ops=_same(base, tpl, n))
    # (D) copies: copy.deepcopy of an instance (fresh, or after a generator of it has been created and advanced) used
    # in turn with the original
    for pre in (None, 0, 3):
        cp = {"copy": "deep"} if pre is None else {"copy": "deep", "pre": pre}
        for a in idx:
            for b in idx:
                for st in ([None, 1, 3] if pre is None else [None, 2]):
                    yield dict({"op": "twins", "el": "slice", "start": a, "stop": b, "step": st, "n": 9, "n2": 6}, **cp)
        for n in range(0, 6):
            yield dict({"op": "twins", "el": "reverse", "n": n, "n2": 4}, **cp)
        for cs in range(1, 6):
            for cont in ("tuple", "list", "star"):
                yield dict({"op": "twins", "el": "chunks", "cs": cs, "container": cont, "n": 7, "n2": 5}, **cp)
        for a, st in ((0, 1), (-3, -2), (5, 3), (2, 0)):
            yield dict({"op": "twins", "el": "countfrom", "start": a, "step": st, "n": 6, "n2": 4}, **cp)
        for shape in ("none", "pos1", "kw", "kwstep"):
            base = {"op": "twins", "el": "countfrom", "cf": shape, "n": 6, "n2": 4}
            if shape in ("pos1", "kw"):
                base["start"] = 4
            if shape in ("kw", "kwstep"):
                base["step"] = 3
            yield dict(base, **cp)
        for lens in itertools.product(range(0, 3), repeat=3):
            for kind in ("list", "tuple", "range"):
                yield dict({"op": "twins", "el": "chain", "lens": list(lens), "kind": kind}, **cp)
    # families of Slice objects made with copy.deepcopy, filled (and run) in turn
    for a in nn:
        for b in nn:
            for st in steps:
                forms = [3] + ([2] if st is None else []) + ([1] if st is None and a is None else [])
                for form in forms:
                    fm = {} if form == 3 else {"form": form}
                    for tpl in FAM_TEMPLATES:
                        yield dict({"op": "fam", "start": a, "stop": b, "step": st, "tpl": tpl, "ops": _fam_ops(tpl)}, **fm)
    for a, b in ((-3, None), (None, -2), (-5, 4), (2, -1), (-4, -1)):
        for st in (None, 2):
            yield {"op": "fam", "start": a, "stop": b, "step": st, "tpl": "runs", "ops": _fam_ops("runs")}


# ---- seed round I/J: numbers that are not ints ------------------------------------------------------------------
# CountFrom(start, step) is itertools.count(start, step) for every kind of number the reference accepts.  Arguments
# are written 'f:0.1' (float), 'F:1/3' (Fraction), 'D:0.1' (Decimal), 'b:1' (bool), 'I:5' (int subclass), 'c:1+2j'.
NUM_STARTS = (0, 1, -3, "b:1", "b:0", "I:5", "f:0.1", "f:0.5", "f:-2.75", "f:1e17", 10 ** 17, 2 ** 53, "f:9007199254740992.0",
              "f:1e308", "f:-0.0", "f:inf", "f:-inf", "f:nan", "F:1/3", "F:-7/2", "D:0.1", "D:1E+30", "D:NaN", "c:1+2j",
              2 ** 64)
NUM_STEPS = (1, 0, -2, "b:1", "I:3", "f:0.1", "f:0.5", "f:-0.3", "f:0.7", "f:1e-09", "f:1.0", "f:1e300", "f:inf",
             "f:nan", "F:1/7", "D:0.2", "D:1E-30", "c:0.1j")
# pairs whose count never raises and that are worth long runs / sessions / copies: rounding sums (0.1, 0.7), a step
# swallowed by a huge start, exact dyadic floats, Fractions, Decimals, bools, mixed int/float
NUM_PAIRS = ((0, "f:0.1"), (1, "f:0.1"), ("f:0.5", "f:0.7"), (10 ** 17, "f:0.5"), ("f:1e17", "f:0.5"), ("f:0.5", "f:0.25"),
             ("f:-2.75", "f:-0.125"), ("F:1/3", "F:1/7"), ("D:0.1", "D:0.2"), ("b:1", "b:1"), ("I:5", "I:3"),
             ("f:1e308", "f:1e307"), (3, "f:-0.3"), ("F:1/3", "f:0.1"), ("f:0.1", 1), ("c:1+2j", "c:0.1j"))


def _num_cases():
    """deterministic: the whole listed space is enumerated"""
    for a in NUM_STARTS:
        for st in NUM_STEPS:
            yield {"op": "countfrom", "start": a, "step": st, "n": 60}
        yield {"op": "countfrom", "start": a, "n": 60, "cf": "pos1"}
    for st in NUM_STEPS:
        yield {"op": "countfrom", "step": st, "n": 60, "cf": "kwstep"}
    for a, st in NUM_PAIRS:
        yield {"op": "countfrom", "start": a, "step": st, "n": 60, "cf": "kw"}
        # long runs: a rewrite may follow the reference for a while (re-synchronise every block, compensate the sum)
        for n in (1025, 4097):
            yield {"op": "countfrom", "start": a, "step": st, "n": n}
        base = {"op": "sess", "el": "countfrom", "start": a, "step": st}
        for tpl in TEMPLATES:
            yield dict(base, tpl=tpl + ":num", ops=[([] if isinstance(o, list) else o)
                                                    for o in _schedule(base, tpl, (0, 0, 0))])
        yield dict(base, tpl="long:num", ops=[[]] + [0] * 20 + [[]] + [1, 0] * 15 + [1] * 10)
        yield {"op": "twins", "el": "countfrom", "start": a, "step": st, "n": 6, "n2": 4}
        for pre in (None, 3):
            yield dict({"op": "twins", "el": "countfrom", "start": a, "step": st, "n": 6, "n2": 4, "copy": "deep"},
                       **({} if pre is None else {"pre": pre}))
    # Slice: bools and int subclasses are integers for Python slicing (xs[True:] is xs[1:], xs[::False] a ValueError)
    pal = (None, -3, 2, "b:1", "b:0", "I:3", "I:-2", "I:0")
    for i, a in enumerate(pal):
        for j, b in enumerate(pal):
            for st in (None, 2, "b:1", "I:2", "b:0", "I:0", "I:-1"):
                if any(isinstance(v, str) for v in (a, b, st)):
                    yield {"op": "slice_args", "args": [a, b, st], "n": 7, "ctor": "Slice",
                           "flow": ("iter", "list", "tuple")[(i + j) % 3]}
    for b in pal[3:]:
        yield {"op": "slice_args", "args": [b], "n": 7, "ctor": "Slice"}
        yield {"op": "slice_args", "args": ["b:1", b], "n": 7, "ctor": "Slice", "flow": "list"}


def _random_num_cases(rng):
    kinds = ("int", "f", "f2", "F", "D", "b", "big")
    def num(step):
        k = rng.choice(kinds)
        if k == "int":
            return rng.randint(-50, 50)
        if k == "f":
            return "f:%r" % (rng.choice((1, -1)) * rng.random() * 10 ** rng.randint(-12, 18))
        if k == "f2":
            return "f:%r" % (rng.randint(-4000, 4000) / 2 ** rng.randint(0, 10))
        if k == "F":
            return "F:%d/%d" % (rng.randint(-99, 99), rng.randint(1, 99))
        if k == "D":
            return "D:%d.%03d" % (rng.randint(-99, 99), rng.randint(0, 999))
        if k == "b":
            return "b:%d" % rng.randint(0, 1)
        return rng.choice((1, -1)) * 2 ** rng.randint(50, 70) + rng.randint(-2, 2)
    for _ in range(6000):
        a, st = num(False), num(True)
        r = rng.random()
        if r < 0.7:
            yield {"op": "countfrom", "start": a, "step": st, "n": _logu(rng, 3000)}
        elif _take(itertools.count(_dec(a), _dec(st)), 60)[1] is None:
            # (the arithmetic of the pair never raises - decided on the reference: Decimal + float would)
            base = {"op": "sess", "el": "countfrom", "start": a, "step": st, "tpl": "random:num"}
            ops, ng = [], 0
            for _ in range(rng.randint(2, 40)):
                if ng == 0 or (ng < 4 and rng.random() < 0.15):
                    ops.append([])
                    ng += 1
                else:
                    ops.append(rng.randrange(ng))
            yield dict(base, ops=ops)


def _random_adv_cases(rng):
    def ri(lo=-12, hi=12):
        return None if rng.random() < 0.2 else rng.randint(lo, hi)
    for _ in range(12000):
        r = rng.random()
        if r < 0.3:
            # a random family: fills, runs and copies in any order
            ops, nobj = [], 1
            for j in range(rng.randint(2, 40)):
                q = rng.random()
                if q < 0.15 and nobj < 6:
                    ops.append(["c", rng.randrange(nobj)])
                    nobj += 1
                elif q < 0.3:
                    ops.append([rng.randrange(nobj), _flow(j % 7, rng.randint(0, 15))])
                else:
                    ops.append([rng.randrange(nobj), 1000 + j])
            yield {"op": "fam", "start": ri(0, 12), "stop": ri(0, 12), "step": rng.choice([None, 1, 2, 3, 5]),
                   "tpl": "random", "ops": ops}
        elif r < 0.5:
            k = rng.randint(0, 5)
            kind = rng.choice(["list", "tuple", "iter", "gen", "range"])
            yield {"op": "chain_v", "lens": [rng.randint(0, 6) for _ in range(k)], "kind": kind,
                   "vk": "int" if kind == "range" else rng.choice(("int",) + LIFT_KINDS)}
        elif r < 0.8:
            el = rng.choice(["slice", "slice", "reverse", "chunks"])
            base = {"op": "sess", "el": el, "same": True, "fk": rng.choice(SESS_REITERABLE)}
            if el == "slice":
                base.update(start=ri(), stop=ri(), step=rng.choice([None, 1, 2, 3, 5]))
            elif el == "chunks":
                base.update(cs=rng.randint(1, 6), container=rng.choice(["tuple", "list", "star"]))
            tpl = rng.choice(TEMPLATES)
            yield dict(base, tpl=tpl + ":same", ops=_same(base, tpl, rng.randint(0, 14)))
        else:
            el = rng.choice(["slice", "reverse", "chunks", "countfrom"])
            base = {"op": "twins", "el": el, "n": rng.randint(0, 12), "n2": rng.randint(0, 12), "copy": "deep"}
            if rng.random() < 0.5:
                base["pre"] = rng.randint(0, 7)
            if el == "slice":
                base.update(start=ri(), stop=ri(), step=rng.choice([None, 1, 2, 3, 5]))
                if rng.random() < 0.4:
                    base["vk"] = rng.choice(LIFT_KINDS)
            elif el == "chunks":
                base.update(cs=rng.randint(1, 6), container=rng.choice(["tuple", "list", "star"]))
            elif el == "countfrom":
                base.update(start=rng.randint(-20, 20), step=rng.randint(-4, 4))
            yield base


# ---- flows longer than any block size a rewrite may read its input in (2**10 .. 2**17, 10**3 .. 10**5) -----------
_HUGE = (1000, 1023, 1024, 1025, 1500, 2047, 2048, 2049, 3001, 4096, 4097, 5003, 8193, 10001, 16385, 20011, 32769,
         50021, 65537, 100003, 131073)


def _case_len(case):
    if "lens" in case:
        return sum(case["lens"])
    if "ops" in case:
        return max([len(o) for o in case["ops"] if isinstance(o, list)] + [0])
    return case.get("n", 0)


def _huge_cases(lengths, rng=None):
    """For every length n: every element on a flow of n values, with indices / steps / chunk sizes small, around n/2,
    around n and around the powers of two below n.  Marked `huge`: the model is asked up to MODEL_MAX_LEN only."""
    for n in lengths:
        h = {"huge": True}
        p2 = 1 << (n.bit_length() - 1)          # the largest power of two <= n
        for j, fk in enumerate((None, "list", "tuple", "gen", "deque", "range")):
            yield dict({"op": "reverse", "n": n}, **h, **({"flow": fk} if fk else {}))
            if n > 20000:
                break
        trip = [(-3, None, None), (None, -3, None), (-(n - 1), None, 7), (5, -5, None), (-(n // 2), -(n // 4), 3),
                (-(n // 2), n - 7, None), (None, n - 2, 1000), (n // 2, None, None), (1, None, 1024), (-p2, None, None),
                (None, -p2, 2), (-(p2 + 1), -1, None), (p2 - 1, -1, None), (-n, n, p2), (None, None, None),
                (1023, 1026, None), (-1025, -1022, None), (None, None, 1025), (n - 1, None, None), (-n - 5, 3, None)]
        if rng is not None:
            def ri():
                return None if rng.random() < 0.15 else rng.randint(-n - 3, n + 3)
            trip += [(ri(), ri(), rng.choice([None, 1, 2, 3, _logu(rng, n) + 1])) for _ in range(6)]
        for j, (a, b, st) in enumerate(trip):
            c = dict({"op": "slice", "start": a, "stop": b, "step": st, "n": n, "form": 3}, **h)
            if j % 4 == 1:
                c["flow"] = ("list", "tuple", "range", "gen", "deque")[(j // 4) % 5]
            yield c
        for a, b, st in ((None, None, None), (n - 3, None, None), (0, n - 1, 1023), (1000, n, 2), (None, 1025, None),
                         (1024, None, 1024), (p2, n, 3), (None, n + 5, p2 - 1)):
            yield dict({"op": "fill_into", "start": a, "stop": b, "step": st, "n": n + 2}, **h)
            if b is not None and n <= 20000:
                yield dict({"op": "fill_trace", "start": a, "stop": b, "step": st, "n": n + 2}, **h)
        for cs in (1, 3) + ((1023, 1025) if 1025 <= n <= 1500 else ()) + ((n - 1, n, n + 1) if n <= 20011 else ()):
            for cont in ("tuple", "list", "star") if n <= 5003 else ("tuple",):
                yield dict({"op": "chunks", "cs": cs, "n": n, "container": cont}, **h)
        for lens in ([n], [5, n], [n // 2, 0, n - n // 2], [1] * 40 + [n]):
            for kind, vk in (("list", "int"), ("iter", "pair"), ("tuple", "mixed")):
                yield dict({"op": "chain_v", "lens": lens, "kind": kind, "vk": vk}, **h)
                if n > 5003:
                    break
        yield dict({"op": "countfrom", "start": -7, "step": 3, "n": n}, **h)
        if n <= 2100:
            # one instance on several long flows, several generators alive
            for tpl in ("seq", "lock"):
                lens = (n, n // 2 + 1, 7)
                for a, b, st in ((None, -(n // 2), 2), (-(n - 2), -2, 1000)):
                    base = dict({"op": "sess", "el": "slice", "start": a, "stop": b, "step": st}, **h)
                    yield dict(base, tpl=tpl + ":huge", ops=_schedule(base, tpl, lens))
                base = dict({"op": "sess", "el": "reverse"}, **h)
                yield dict(base, tpl=tpl + ":huge", ops=_schedule(base, tpl, lens))
                yield dict(base, tpl=tpl + ":huge:same", fk="list", same=True, ops=_same(base, tpl, n))
                base = dict({"op": "sess", "el": "chunks", "cs": n - 5, "container": "tuple"}, **h)
                yield dict(base, tpl=tpl + ":huge", ops=_schedule(base, tpl, lens))


def _base_cases():
    idx = [None] + list(range(-7, 8))
    cases = list(_slice_cases(idx, idx, [None, 1, 2, 3, 4], range(0, 11)))
    # call forms Slice(stop), Slice(start, stop)
    for b in idx:
        for n in range(0, 11):
            cases.append({"op": "slice", "start": None, "stop": b, "step": None, "n": n, "form": 1})
    for a in idx:
        for b in idx:
            for n in (0, 1, 5, 10):
                cases.append({"op": "slice", "start": a, "stop": b, "step": None, "n": n, "form": 2})
    # steps that must be rejected at construction
    for a in (None, -2, 0, 3):
        for b in (None, -3, 0, 5):
            for s in (0, -1, -3):
                cases.append({"op": "slice", "start": a, "stop": b, "step": s, "n": 6, "form": 3})
    nn = [None] + list(range(0, 8))
    for a in nn:
        for b in nn:
            for s in [None, 1, 2, 3, 4]:
                for n in range(0, 11):
                    cases.append({"op": "fill_into", "start": a, "stop": b, "step": s, "n": n})
    # the call forms Slice(stop) and Slice(start, stop) on the fill route (the usual ones inside a Split)
    for b in nn:
        for n in range(0, 11):
            cases.append({"op": "fill_into", "start": None, "stop": b, "step": None, "n": n, "form": 1})
    for a in nn:
        for b in nn:
            for n in (0, 3, 6, 10):
                cases.append({"op": "fill_into", "start": a, "stop": b, "step": None, "n": n, "form": 2})
    for n in range(0, 11):
        cases.append({"op": "reverse", "n": n})
    for lens in itertools.product(range(0, 4), repeat=3):
        cases.append({"op": "chain", "lens": list(lens)})
    cases.append({"op": "chain", "lens": []})
    for a in (-3, 0, 5):
        for s in (-2, 0, 1, 3):
            cases.append({"op": "countfrom", "start": a, "step": s, "n": 7})
            # the other call shapes: CountFrom(), CountFrom(a), by keyword, step only
            cases.append({"op": "countfrom", "start": a, "step": s, "n": 7, "cf": "kw"})
            cases.append({"op": "countfrom", "step": s, "n": 7, "cf": "kwstep"})
        cases.append({"op": "countfrom", "start": a, "n": 7, "cf": "pos1"})
    cases.append({"op": "countfrom", "n": 7, "cf": "none"})
    for cs in range(1, 6):
        for n in range(0, 11):
            for cont in ("tuple", "list", "star"):
                cases.append({"op": "chunks", "cs": cs, "n": n, "container": cont})
    # the same scope over flows whose values are falsy / None (the code must never inspect the values)
    extra = []
    for c in cases:
        if c["op"] in ("slice", "fill_into") and c.get("form", 3) == 3 and c["n"] in (0, 3, 6, 10):
            extra.append(dict(c, vk="falsy"))
            if c["n"] in (6,):
                extra.append(dict(c, vk="none"))
        elif c["op"] in ("reverse", "chunks"):
            extra.append(dict(c, vk="falsy"))
            extra.append(dict(c, vk="none"))
    cases.extend(extra)
    # the flow given to run is any finite iterable: a list, a tuple, a range, a generator (not only an iterator)
    for c in list(cases):
        if c["op"] == "slice" and c.get("form", 3) == 3 and "vk" not in c:
            for fk in {1: ("list",), 5: ("list", "str"), 10: ("list", "getitem"), 6: ("range", "frozenset"), 4: ("gen",),
                       3: ("tuple",), 7: ("deque",), 8: ("dict",), 9: ("set",), 2: ("iteronly",)}.get(c["n"], ()):
                cases.append(dict(c, flow=fk))
        elif c["op"] in ("reverse", "chunks") and "vk" not in c:
            for fk in FLOW_KINDS:
                cases.append(dict(c, flow=fk))
    return cases


def _random_cases(rng):
    for _ in range(60000):
        r = rng.random()
        def ri():
            return None if rng.random() < 0.15 else rng.randint(-70, 70)
        if r < 0.7:
            vk = rng.choice(["int", "int", "falsy", "none"])
            c = {"op": "slice", "start": ri(), "stop": ri(),
                 "step": rng.choice([None, 1, 2, 3, 5, 7, 12]), "n": rng.randint(0, 60), "form": 3, "vk": vk}
            fk = rng.choice(["iter", "iter", "list", "tuple", "gen"] + (["range"] if vk == "int" else []))
            if fk != "iter":
                c["flow"] = fk
            yield c
        elif r < 0.9:
            a, b = ri(), ri()
            yield {"op": "fill_into", "start": None if a is None else abs(a),
                   "stop": None if b is None else abs(b),
                   "step": rng.choice([None, 1, 2, 3, 5, 7, 12]), "n": rng.randint(0, 90)}
        else:
            yield {"op": "chunks", "cs": rng.randint(1, 9), "n": rng.randint(0, 40),
                   "container": rng.choice(["tuple", "list", "star"])}
    for _ in range(30000):
        yield _random_reuse_case(rng)
    big = _BIG + [None, -3, 0, 2, 5]
    for _ in range(4000):
        k = rng.choice([1, 2, 3, 3, 3])
        args = [rng.choice(big) for _ in range(k)]
        if k == 3 and rng.random() < 0.5:
            args[2] = rng.choice([None, 1, 2, _MS, _MS + 1])
        yield {"op": "slice_args", "args": args, "n": rng.randint(0, 6), "ctor": rng.choice(["Slice", "ISlice"]),
               "flow": rng.choice(["iter", "list"])}


# ---- inputs longer than any constant a rewrite might contain (16, 32, 64, 128, 256 +- 1) ---------------------------
_LONG = (16, 17, 33, 64, 65, 129, 257)


def _pal(L):
    return [None, 0, 1, -1, 15, -17, L // 2, -(L // 2), L - 1, -(L - 1), L, -L, L + 1, -(L + 1)]


def _long_cases():
    """deterministic: the whole listed space is enumerated"""
    for L in _LONG:
        pal = _pal(L)
        for a in pal:
            for b in pal:
                for st in (None, 2, 17):
                    c = {"op": "slice", "start": a, "stop": b, "step": st, "n": L, "form": 3}
                    if (pal.index(a) + pal.index(b)) % 5 == 0:
                        c["flow"] = FLOW_KINDS[(pal.index(a) * 3 + pal.index(b)) % len(FLOW_KINDS)]
                    yield c
        nn = [None, 0, 1, 15, 17, L // 2, L - 1, L, L + 1]
        for a in nn:
            for b in nn:
                for st in (None, 1, 3, 16):
                    yield {"op": "fill_into", "start": a, "stop": b, "step": st, "n": L + 2}
                yield {"op": "fill_trace", "start": a, "stop": b, "step": None, "n": L + 2, "form": 2}
        for cs in (15, 16, 17, 33, 64):
            for n in (cs - 1, cs, cs + 1, 2 * cs + 1, L):
                for cont in ("tuple", "list", "star"):
                    yield {"op": "chunks", "cs": cs, "n": n, "container": cont}
    for n in list(range(11, 41)) + [63, 64, 65, 127, 128, 129, 255, 256, 257, 1000]:
        yield {"op": "reverse", "n": n}
        if n % 3 == 0:
            yield {"op": "reverse", "n": n, "flow": FLOW_KINDS[n % len(FLOW_KINDS)]}
    for lens in ([17], [16, 1], [15, 17, 16], [33, 0, 31], [64, 65], [0, 129], [257, 1, 0, 2]):
        yield {"op": "chain", "lens": lens}
        for kind in ("list", "range", "iter", "gen"):
            for tpl in ("seq", "lock", "part"):
                base = {"op": "sess", "el": "chain", "lens": lens, "kind": kind}
                yield dict(base, tpl=tpl + ":long", ops=[([] if isinstance(o, list) else o)
                                                        for o in _schedule(base, tpl, (0, 0, 0))])
    for n in (17, 100, 257, 1000):
        yield {"op": "countfrom", "start": -5, "step": 3, "n": n}
        yield {"op": "countfrom", "n": n, "cf": "none"}
    yield {"op": "sess", "el": "countfrom", "start": 0, "step": 1, "tpl": "long",
           "ops": [[]] + [0] * 40 + [[]] + [1, 0] * 30 + [1] * 20}
    for lens in ((40, 33, 17), (129, 65, 16)):
        for tpl in ("seq", "lock", "part", "lock3"):
            for a, b, st in ((-17, None, None), (None, -16, 2), (3, -33, None), (-64, -1, 3), (-40, 30, None), (16, 64, 5)):
                base = {"op": "sess", "el": "slice", "start": a, "stop": b, "step": st}
                yield dict(base, tpl=tpl + ":long", ops=_schedule(base, tpl, lens))
            base = {"op": "sess", "el": "reverse"}
            yield dict(base, tpl=tpl + ":long", ops=_schedule(base, tpl, lens))
            for cs in (16, 17):
                base = {"op": "sess", "el": "chunks", "cs": cs, "container": "tuple"}
                yield dict(base, tpl=tpl + ":long", ops=_schedule(base, tpl, lens))


def _logu(rng, hi):
    """an integer in 0..hi, log-uniform, powers of two +-1 favoured"""
    if rng.random() < 0.3:
        p = 2 ** rng.randint(0, max(1, hi.bit_length() - 1))
        return min(hi, max(0, p + rng.choice((-1, 0, 1))))
    return int(2 ** (rng.random() * hi.bit_length())) % (hi + 1)


def _random_long_cases(rng):
    def ri(hi):
        if rng.random() < 0.15:
            return None
        v = _logu(rng, hi)
        return -v if rng.random() < 0.5 else v
    for _ in range(8000):
        r = rng.random()
        n = _logu(rng, 1500)
        if r < 0.35:
            c = {"op": "slice", "start": ri(2000), "stop": ri(2000),
                 "step": rng.choice([None, None, 1]) if rng.random() < 0.5 else max(1, _logu(rng, 300)), "n": n, "form": 3}
            if rng.random() < 0.4:
                c["flow"] = rng.choice(FLOW_KINDS)
            yield c
        elif r < 0.5:
            a, b = ri(2000), ri(2000)
            yield {"op": "fill_into", "start": None if a is None else abs(a), "stop": None if b is None else abs(b),
                   "step": None if rng.random() < 0.3 else max(1, _logu(rng, 300)), "n": n}
        elif r < 0.65:
            c = {"op": "reverse", "n": _logu(rng, 5000)}
            if rng.random() < 0.4:
                c["flow"] = rng.choice(FLOW_KINDS)
            yield c
        elif r < 0.75:
            yield {"op": "chunks", "cs": max(1, _logu(rng, 300)), "n": n, "container": rng.choice(["tuple", "list", "star"])}
        elif r < 0.85:
            lens = [_logu(rng, 600) for _ in range(rng.randint(0, 5))]
            kind = rng.choice(["list", "tuple", "range", "iter", "gen"])
            base = {"op": "sess", "el": "chain", "lens": lens, "kind": kind}
            tpl = rng.choice(TEMPLATES)
            yield dict(base, tpl=tpl + ":long", ops=[([] if isinstance(o, list) else o)
                                                    for o in _schedule(base, tpl, (0, 0, 0))])
        elif r < 0.9:
            yield {"op": "countfrom", "start": rng.randint(-10 ** 6, 10 ** 6), "step": rng.randint(-1000, 1000),
                   "n": _logu(rng, 3000)}
        else:
            el = rng.choice(["slice", "reverse", "chunks"])
            base = {"op": "sess", "el": el}
            if el == "slice":
                base.update(start=ri(300), stop=ri(300), step=rng.choice([None, 1, 2, 17]))
            elif el == "chunks":
                base.update(cs=max(1, _logu(rng, 64)), container="tuple")
            tpl = rng.choice(TEMPLATES)
            yield dict(base, tpl=tpl + ":long", ops=_schedule(base, tpl, tuple(_logu(rng, 300) for _ in range(3))))


# ---- the rest of iterators.py: limits of islice/deque, argument forms, ISlice, __eq__/__repr__, type checks,
#      containers of RunningChunkBy, Chain over shared one-shot iterators ---------------------------------------
_MS = 2 ** 63 - 1            # sys.maxsize of the platform the check runs on (asserted in run_impl)
_BIG = [_MS, _MS + 1, -_MS, -_MS - 1, 2 ** 64 + 1, -(2 ** 64) - 1]


def _ext_cases():
    idx = [None] + list(range(-7, 8))
    # call forms with both constructors; wrong numbers of arguments
    for ctor in ("Slice", "ISlice"):
        for b in idx:
            yield {"op": "slice_args", "args": [b], "n": 6, "ctor": ctor}
        for a in (None, -7, -2, 0, 1, 4):
            for b in idx:
                yield {"op": "slice_args", "args": [a, b], "n": 6, "ctor": ctor}
                for st in (None, 1, 3, 0, -1):
                    yield {"op": "slice_args", "args": [a, b, st], "n": 6, "ctor": ctor}
        yield {"op": "slice_args", "args": [], "n": 3, "ctor": ctor}
        yield {"op": "slice_args", "args": [1, 2, 3, 4], "n": 3, "ctor": ctor}
    # arguments at and beyond sys.maxsize
    small = (None, -2, 0, 3)
    for big in _BIG:
        for x in small:
            for y in small:
                for n in (0, 4):
                    yield {"op": "slice_args", "args": [big, x, y if y is None or y > 0 else 1], "n": n, "ctor": "Slice"}
                    yield {"op": "slice_args", "args": [x, big, y if y is None or y > 0 else 1], "n": n, "ctor": "Slice"}
                    yield {"op": "slice_args", "args": [x, y, big], "n": n, "ctor": "Slice"}
        yield {"op": "slice_args", "args": [big], "n": 4, "ctor": "Slice"}
        for big2 in _BIG:
            yield {"op": "slice_args", "args": [big, big2], "n": 4, "ctor": "Slice"}
    # steps that are not integers: to be rejected at construction
    for st in ("f:2.0", "f:1.5", "f:1.0", "f:0.0", "f:-1.0", "f:3.0", "f:inf", "f:-inf", "f:nan", "f:1e300"):
        for a, b in ((None, None), (0, 3), (-3, 3), (-1, None), (None, -2), (1, -1)):
            yield {"op": "slice_args", "args": [a, b, st], "n": 5, "ctor": "Slice"}
    # __eq__ / __repr__
    sl_args = [[3], [None], [-1], [1, 3], [1, 3, None], [None, 3], [0, 3], [1, 3, 1], [1, 3, 2], [-2, None, 2],
               [None, None, None], [None, None], [-2, None], [_MS], [-_MS - 1]]
    for a in sl_args:
        for b in sl_args:
            yield {"op": "eqrepr", "el": "slice", "a": a, "b": b}
    cf = [[0, 1], [0, 2], [1, 1], [-3, -2], [2 ** 64, 1], [0, 0]]
    for a in cf:
        for b in cf:
            yield {"op": "eqrepr", "el": "countfrom", "a": a, "b": b}
    yield {"op": "eqrepr", "el": "reverse", "a": None, "b": None}
    ch = [[], [[]], [[1, 2]], [[1, 2], [3]], [[1], [2, 3]], [[1, 2], []], [[], [1, 2]]]
    for a in ch:
        for b in ch:
            yield {"op": "eqrepr", "el": "chain", "a": a, "b": b}
    # type checks at construction
    pal = ["i:0", "i:7", "f:2.5", "s:a", "none", "l:1", "F:1/3"]
    for a in pal:
        for b in pal:
            yield {"op": "init_check", "el": "countfrom", "start": a, "step": b}
    for cont in ("tuple", "list", "star", "namedtuple", "set", "list_kw", "list_truthy", "i:5", "s:tuple", "none"):
        yield {"op": "init_check", "el": "chunks", "container": cont}
    # RunningChunkBy with its containers, chunk sizes 0..6
    for cs in range(0, 7):
        for n in range(0, 11):
            for cont in ("tuple", "list", "star", "namedtuple", "set", "list_kw", "list_truthy", "list_truthy2",
                         "tuple_falsy", "star_falsy"):
                yield {"op": "chunks_c", "cs": cs, "n": n, "container": cont, "vals": "int"}
                if n == 7 and cont in ("tuple", "list_kw", "star"):
                    yield {"op": "chunks_c", "cs": cs, "n": n, "container": cont, "vals": "int", "cskw": True}
                    for fk in ("deque", "dict", "getitem", "iteronly"):
                        yield {"op": "chunks_c", "cs": cs, "n": n, "container": cont, "vals": "int", "flow": fk}
                if n in (5, 8):
                    yield {"op": "chunks_c", "cs": cs, "n": n, "container": cont, "vals": "dup"}
    # CountFrom beyond 64 bits
    for a, st in ((2 ** 64, 2 ** 63), (-(2 ** 70), 2 ** 65 + 1), (_MS, 1)):
        yield {"op": "countfrom", "start": a, "step": st, "n": 5}
        yield {"op": "sess", "el": "countfrom", "start": a, "step": st, "tpl": "big", "ops": [[], 0, 0, [], 1, 0, 1]}


# ---- one instance used more than once ------------------------------------------------------------
# A session case: {"op": "sess", "el": ..., <constructor arguments>, "ops": [...]} where an item of "ops" is a list
# (= create a generator from THE instance: `el.run(iter(flow))`, `el()` for the sources CountFrom and Chain, whose
# flow argument is ignored) or a number g (= `next` of the generator number g, numbered in order of creation).

def _flow(j, n):
    """flow number j of a session: values that tell the flows apart"""
    return list(range(100 * j, 100 * j + n))


def _ref_len(case, flow):
    el = case["el"]
    if el == "slice":
        return len(flow[case["start"]:case["stop"]:case["step"]])
    if el == "reverse":
        return len(flow)
    if el == "chunks":
        return max(0, len(flow) - case["cs"] + 1)
    if el == "chain":
        return sum(case["lens"])
    return 4  # countfrom: how many values a "drain" takes


TEMPLATES = ("seq", "lock", "part", "idle", "abandon", "lock3")


def _schedule(case, tpl, lens):
    """A concrete schedule for generators over flows of the given lengths.  `drain` = as many `next` as the reference
    has values, plus one (to see StopIteration); whatever is left is collected at the end of the session anyway."""
    flows = [_flow(j, n) for j, n in enumerate(lens)]
    L = [_ref_len(case, f) for f in flows]
    def drain(g, done=0):
        return [g] * (L[g] - done + 1)
    f0, f1 = flows[0], flows[1]
    if tpl == "seq":            # the instance is run, exhausted, and run again
        return [f0] + drain(0) + [f1] + drain(1)
    if tpl == "lock":           # two generators of the instance alive at once, advanced in turn
        return [f0, f1] + [0, 1] * (max(L[0], L[1]) + 1)
    if tpl == "part":           # the first is interrupted by a complete second run
        k = (L[0] + 1) // 2
        return [f0] + [0] * k + [f1] + drain(1) + drain(0, k)
    if tpl == "idle":           # the first generator is created but not advanced until the second is exhausted
        return [f0, f1] + drain(1) + drain(0)
    if tpl == "abandon":        # the first run is abandoned half-way
        return [f0] + [0] * ((L[0] + 1) // 2) + [f1] + drain(1)
    if tpl == "lock3":
        f2 = flows[2]
        return [f0, f1, 0, f2] + [0, 1, 2] * (max(L) + 1)
    raise ValueError(tpl)


def _countfrom_schedules(maxlen, maxcalls):
    """every sequence of `call` ([]) / `next g` (g among the generators created so far) of length <= maxlen that
    starts with a call"""
    out = []
    def rec(seq, ncalls):
        if seq:
            out.append(list(seq))
        if len(seq) == maxlen:
            return
        if ncalls < maxcalls:
            rec(seq + [[]], ncalls + 1)
        for g in range(ncalls):
            rec(seq + [g], ncalls)
    rec([], 0)
    return [o for o in out if any(isinstance(x, int) for x in o)]


def _reuse_cases():
    cases = []
    idx = [None] + list(range(-7, 8))
    # Slice.run: every (start, stop, step) of the scope, the same instance on two (three) flows
    pairs = {"seq": [(10, 7), (4, 10)], "lock": [(10, 7), (6, 6)], "part": [(10, 4), (5, 9)], "idle": [(7, 10)],
             "abandon": [(10, 10)], "lock3": [(9, 5, 7)]}
    for a in idx:
        for b in idx:
            for st in [None, 1, 2, 3, 4]:
                base = {"op": "sess", "el": "slice", "start": a, "stop": b, "step": st}
                for tpl in TEMPLATES:
                    for lens in pairs[tpl]:
                        cases.append(dict(base, tpl=tpl, ops=_schedule(base, tpl, lens)))
                # the flows given as containers / generators
                cases.append(dict(base, tpl="seq", fk="list", ops=_schedule(base, "seq", (8, 5))))
                cases.append(dict(base, tpl="lock", fk="range", ops=_schedule(base, "lock", (6, 9))))
                cases.append(dict(base, tpl="part", fk="gen", ops=_schedule(base, "part", (7, 7))))
                if st in (None, 2):
                    cases.append(dict(base, tpl="seq", fk="deque", ops=_schedule(base, "seq", (9, 6))))
                    cases.append(dict(base, tpl="lock", fk="set", ops=_schedule(base, "lock", (7, 8))))
                    cases.append(dict(base, tpl="part", fk="getitem", ops=_schedule(base, "part", (8, 4))))
                    cases.append(dict(base, tpl="idle", fk="dict", ops=_schedule(base, "idle", (5, 9))))
                    cases.append(dict(base, tpl="seq", fk="iteronly", ops=_schedule(base, "seq", (6, 10))))
    # Reverse, RunningChunkBy
    for tpl in TEMPLATES:
        for n1 in range(0, 6):
            for n2 in range(0, 6):
                lens = (n1, n2, 3)
                base = {"op": "sess", "el": "reverse"}
                cases.append(dict(base, tpl=tpl, ops=_schedule(base, tpl, lens)))
                if n1 == 4:
                    for fk in ("list", "deque", "set", "dict", "iteronly", "getitem"):
                        cases.append(dict(base, tpl=tpl, fk=fk, ops=_schedule(base, tpl, lens)))
        for cs in range(1, 6):
            for cont in ("tuple", "list", "star"):
                for lens in ((7, 4, 5), (3, 8, 6), (6, 6, 1), (0, 5, 9)):
                    base = {"op": "sess", "el": "chunks", "cs": cs, "container": cont}
                    cases.append(dict(base, tpl=tpl, ops=_schedule(base, tpl, lens)))
                    if cont == "tuple":
                        for fk in ("range", "deque", "frozenset", "getitem"):
                            cases.append(dict(base, tpl=tpl, fk=fk, ops=_schedule(base, tpl, lens)))
    # Chain over re-iterable iterables (every call sees all values) and over one-shot iterators shared by the calls
    for lens in list(itertools.product(range(0, 4), repeat=3)) + [()]:
        for kind in ("list", "tuple", "range", "iter", "gen"):
            for tpl in TEMPLATES:
                base = {"op": "sess", "el": "chain", "lens": list(lens), "kind": kind}
                cases.append(dict(base, tpl=tpl, ops=[([] if isinstance(o, list) else o)
                                                      for o in _schedule(base, tpl, (0, 0, 0))]))
    # CountFrom: every schedule of up to 7 operations with up to 3 calls of the same instance
    scheds = _countfrom_schedules(7, 3)
    for a, st in ((0, 1), (-3, -2), (5, 3), (2, 0)):
        for ops in scheds:
            cases.append({"op": "sess", "el": "countfrom", "start": a, "step": st, "tpl": "all", "ops": ops})
    for shape in ("none", "pos1", "kw", "kwstep"):
        base = {"op": "sess", "el": "countfrom", "cf": shape}
        if shape in ("pos1", "kw"):
            base["start"] = 4
        if shape in ("kw", "kwstep"):
            base["step"] = 3
        for tpl in TEMPLATES:
            cases.append(dict(base, tpl=tpl, ops=[([] if isinstance(o, list) else o)
                                                  for o in _schedule(base, tpl, (0, 0, 0))]))
        cases.append(dict(base, op="twins", n=6, n2=4))
    for a in (-3, 0, 5, 10):
        for st in (-2, -1, 0, 1, 2, 3):
            base = {"op": "sess", "el": "countfrom", "start": a, "step": st}
            for tpl in TEMPLATES:
                cases.append(dict(base, tpl=tpl, ops=[([] if isinstance(o, list) else o)
                                                      for o in _schedule(base, tpl, (0, 0, 0))]))
    # two instances built with the same arguments, used in turn (state must be per instance)
    for a in idx:
        for b in idx:
            for st in [None, 1, 3]:
                cases.append({"op": "twins", "el": "slice", "start": a, "stop": b, "step": st, "n": 9, "n2": 6})
    for n in range(0, 6):
        cases.append({"op": "twins", "el": "reverse", "n": n, "n2": 4})
    for cs in range(1, 6):
        for cont in ("tuple", "list", "star"):
            cases.append({"op": "twins", "el": "chunks", "cs": cs, "container": cont, "n": 7, "n2": 5})
    for a, st in ((0, 1), (-3, -2), (5, 3), (2, 0)):
        cases.append({"op": "twins", "el": "countfrom", "start": a, "step": st, "n": 6, "n2": 4})
    for lens in itertools.product(range(0, 3), repeat=3):
        cases.append({"op": "twins", "el": "chain", "lens": list(lens), "kind": "list"})
    # fill_into: a caller that goes on filling after LenaStopFill; two instances filled in turn;
    # fill_into and run of the same instance interleaved
    nn = [None] + list(range(0, 8))
    for a in nn:
        for b in nn:
            for st in [None, 1, 2, 3, 4]:
                forms = [3] + ([2] if st is None else []) + ([1] if st is None and a is None else [])
                for form in forms:
                    fm = {} if form == 3 else {"form": form}
                    for n in (range(0, 11) if form == 3 else (0, 4, 9)):
                        cases.append(dict({"op": "fill_trace", "start": a, "stop": b, "step": st, "n": n}, **fm))
                    cases.append(dict({"op": "fill2", "start": a, "stop": b, "step": st, "n": 10, "n2": 7}, **fm))
                    for pat in SLICE_INST_PATTERNS:
                        cases.append(dict({"op": "slice_inst", "start": a, "stop": b, "step": st, "pat": pat,
                                           "ops": _slice_inst_ops(pat)}, **fm))
    for a, b in ((-3, None), (None, -2), (-5, 4), (2, -1), (-4, -1)):
        for st in (None, 2):
            for pat in SLICE_INST_PATTERNS:
                cases.append({"op": "slice_inst", "start": a, "stop": b, "step": st, "pat": pat,
                              "ops": _slice_inst_ops(pat)})
    return cases


# patterns of a `slice_inst` case: 'r<n>' = list(sl.run(iter(flow of n values))), 'f<n>' = n calls of fill_into
SLICE_INST_PATTERNS = ("r9 r6 r9", "f3 r8 f4 r5 f5", "r7 f12", "f1 r4 f1 r10 f1 r0 f8")


def _slice_inst_ops(pat):
    """items: a list = run on that flow, a number v = fill_into(element, v); the values filled are 1000, 1001, ..."""
    ops, nfill, nrun = [], 0, 0
    for w in pat.split():
        k = int(w[1:])
        if w[0] == "r":
            ops.append(_flow(nrun, k))
            nrun += 1
        else:
            ops.extend(range(1000 + nfill, 1000 + nfill + k))
            nfill += k
    return ops


def _random_reuse_case(rng):
    def ri(lo=-12, hi=12):
        return None if rng.random() < 0.2 else rng.randint(lo, hi)
    r = rng.random()
    if r < 0.15:
        ops = []
        for _ in range(rng.randint(2, 30)):
            ops.append(_flow(0, rng.randint(0, 20)) if rng.random() < 0.3 else 1000 + len(ops))
        return {"op": "slice_inst", "start": ri(0, 12), "stop": ri(0, 12), "step": rng.choice([None, 1, 2, 3, 5]),
                "pat": "random", "ops": ops}
    el = rng.choice(["slice", "slice", "slice", "reverse", "chunks", "chain", "countfrom"])
    case = {"op": "sess", "el": el, "tpl": "random"}
    if el in ("slice", "reverse", "chunks") and rng.random() < 0.3:
        case["fk"] = rng.choice(["list", "range", "gen", "tuple"])
    if el == "slice":
        case.update(start=ri(), stop=ri(), step=rng.choice([None, 1, 2, 3, 5]))
    elif el == "chunks":
        case.update(cs=rng.randint(1, 6), container=rng.choice(["tuple", "list", "star"]))
    elif el == "chain":
        case.update(lens=[rng.randint(0, 4) for _ in range(rng.randint(0, 4))],
                    kind=rng.choice(["list", "tuple", "range", "iter", "gen"]))
    elif el == "countfrom":
        case.update(start=rng.randint(-20, 20), step=rng.randint(-4, 4))
    ops, ng = [], 0
    for _ in range(rng.randint(2, 40)):
        if ng == 0 or (ng < 4 and rng.random() < 0.15):
            ops.append(_flow(ng, rng.randint(0, 14)) if el in ("slice", "reverse", "chunks") else [])
            ng += 1
        else:
            ops.append(rng.randrange(ng))
    case["ops"] = ops
    return case


_FALSY = [0, None, False, "", (), 0.0, 7, None]


# value kinds whose values are themselves containers / iterables (lena's usual (data, context) pairs, lists, strings,
# dicts, empty containers): an element that looks INTO the values (unpacks them, tests them for __iter__, flattens
# them) breaks the property although flows of integers pass.  `_lift(vk, i)` is the value that stands at the place of
# the integer i of the model's flow.
LIFT_KINDS = ("pair", "list", "str", "mixed", "num")


def _lift(vk, i):
    if vk in (None, "int"):
        return i
    if vk == "pair":
        return (i, {"i": i})
    if vk == "list":
        return [i, [i]]
    if vk == "str":
        return "v%d" % i
    if vk == "num":
        # numbers that are not ints: floats (not representable sums, integral, huge, negative zero, nan, inf), Fractions,
        # Decimals, bools, complex - an element that computes with the values, compares them, converts them (array('d'),
        # int(v), sorted) or takes nan != nan / 0.0 == False for something shows here
        import decimal
        import fractions
        return (i + 0.1, fractions.Fraction(i, 3), decimal.Decimal(i) / 8, float(i), bool(i % 3), float("nan"),
                (float("inf") if i % 16 == 6 else -float(i)) if i else -0.0, complex(i, 1), 1e17 + 16 * i,
                -0.0 if i % 20 == 9 else 0.1 * i)[i % 10]
    if vk == "mixed":
        return ((i, {"c": i}), [i, i], "w%d" % i, (i,), {"k": i}, frozenset((i,)), (), [], [[i]], ((i, i), (i,)))[i % 10]
    raise ValueError(vk)


def _lifts(vk, xs):
    return [_lift(vk, x) for x in xs]


def _vals(case, n=None):
    """The flow of a case: integers 0..n-1 by default; with vk='falsy' a palette of falsy values and None
    (elements that a sentinel-based or truthiness-based rewrite would mistake for the end of the flow);
    with vk='none' the odd positions hold None; with a vk of LIFT_KINDS values that are containers themselves."""
    n = case["n"] if n is None else n
    vk = case.get("vk", "int")
    if vk == "int":
        return list(range(n))
    if vk == "none":
        return [None if i % 2 else i for i in range(n)]
    if vk in LIFT_KINDS:
        return _lifts(vk, range(n))
    return [_FALSY[i % len(_FALSY)] for i in range(n)]


def _enc(v):
    return v if type(v) is int else f"{type(v).__name__}:{v!r}"


def _encs(vs):
    return [_enc(v) for v in vs]


def _args(case):
    a, b, s = case["start"], case["stop"], case["step"]
    form = case.get("form", 3)
    if form == 1:
        return (b,)
    if form == 2:
        return (a, b)
    return (a, b, s)


def _triple(case):
    """(start, stop, step) that the call form of the case means"""
    form = case.get("form", 3)
    if form == 1:
        return None, case["stop"], None
    if form == 2:
        return case["start"], case["stop"], None
    return case["start"], case["stop"], case["step"]


def _cf_call(ctor, case):
    """CountFrom / itertools.count called in the shape the case asks for: both arguments (default), none, one,
    by keyword, step only"""
    a, s, shape = _dec(case.get("start")), _dec(case.get("step")), case.get("cf", "pos2")
    if shape == "none":
        return ctor()
    if shape == "pos1":
        return ctor(a)
    if shape == "kw":
        return ctor(start=a, step=s)
    if shape == "kwstep":
        return ctor(step=s)
    return ctor(a, s)


def _cf_eff(case):
    """the (start, step) such a call means"""
    shape = case.get("cf", "pos2")
    return {"none": (0, 1), "pos1": (case.get("start"), 1), "kwstep": (0, case.get("step"))}.get(
        shape, (case.get("start"), case.get("step")))


class _IterOnly:
    """an iterable that has nothing but __iter__"""
    def __init__(self, xs):
        self._xs = list(xs)

    def __iter__(self):
        return iter(self._xs)


class _GetItemOnly:
    """an iterable through the old sequence protocol: __getitem__ and __len__, no __iter__, no slicing"""
    def __init__(self, xs):
        self._xs = list(xs)

    def __len__(self):
        return len(self._xs)

    def __getitem__(self, i):
        if not isinstance(i, int):
            raise TypeError("indices must be integers")
        if i < 0:
            raise IndexError(i)
        return self._xs[i]


def _fvals(case, key="flow"):
    """the values of the case's flow in the order its flow object yields them"""
    kind = case.get(key)
    vals = _vals(case)
    return vals if kind in (None, "iter", "list", "tuple", "range", "gen") else list(_mk_flow(kind, vals))


class _Store:
    def __init__(self):
        self.vals = []

    def fill(self, v):
        self.vals.append(v)


def run_impl(case):
    import lena.core
    import lena.flow
    op = case["op"]
    if op == "slice":
        xs = _vals(case)
        try:
            sl = lena.flow.Slice(*_args(case))
        except Exception as e:
            return {"e": exc_name(e), "phase": "init"}
        try:
            fo = _mk_flow(case.get("flow"), xs)
            return _with_after(case.get("flow"), fo, {"r": _encs(sl.run(fo))})
        except Exception as e:
            return {"e": exc_name(e), "phase": "run"}
    if op == "fill_into":
        xs = _vals(case)
        try:
            sl = lena.flow.Slice(*_args(case))
        except Exception as e:
            return {"e": exc_name(e), "phase": "init"}
        st = _Store()
        stop_at = None
        for i, x in enumerate(xs):
            try:
                sl.fill_into(st, x)
            except lena.core.LenaStopFill:
                stop_at = i
                break
            except Exception as e:
                return {"e": exc_name(e), "phase": "fill"}
        return {"r": _encs(st.vals), "stop": stop_at}
    if op == "reverse":
        try:
            fo = _mk_flow(case.get("flow"), _vals(case))
            return _with_after(case.get("flow"), fo, {"r": _encs(lena.flow.Reverse().run(fo))})
        except Exception as e:
            return {"e": exc_name(e), "phase": "run"}
    if op == "chain":
        xss, k = [], 0
        for l in case["lens"]:
            xss.append(list(range(k, k + l)))
            k += l
        try:
            return {"r": list(lena.flow.Chain(*[iter(x) for x in xss])())}
        except Exception as e:
            return {"e": exc_name(e), "phase": "run"}
    if op == "countfrom":
        try:
            el = _cf_call(lena.flow.CountFrom, case)
        except Exception as e:
            return {"e": exc_name(e), "phase": "init"}
        try:
            vals, exc = _take(el(), case["n"])
        except Exception as e:
            return {"e": exc_name(e), "phase": "run"}
        out = {"r": [_canon(v) for v in vals]}
        if exc:
            out["exc"] = exc        # the arithmetic of the arguments raised at this value (Decimal + float, ...)
        return out
    if op == "chunks":
        cont = case["container"]
        try:
            if cont == "tuple":
                el = lena.flow.RunningChunkBy(case["cs"])
            elif cont == "list":
                el = lena.flow.RunningChunkBy(case["cs"], list, from_iterable=True)
            else:
                el = lena.flow.RunningChunkBy(case["cs"], lambda *a: list(a))
        except Exception as e:
            return {"e": exc_name(e), "phase": "init"}
        try:
            # collect first, look afterwards: a consumer keeps the chunks it was given (`list(rcb.run(flow))`)
            fo = _mk_flow(case.get("flow"), _vals(case))
            chunks = list(el.run(fo))
            return _with_after(case.get("flow"), fo, {"r": [_encs(c) for c in chunks]})
        except Exception as e:
            return {"e": exc_name(e), "phase": "run"}
    if op == "sess":
        try:
            spawn = _real_spawner(case)
        except Exception as e:
            return {"e": exc_name(e), "phase": "init"}
        return _play(case, spawn)
    if op == "twins":
        # two instances built from the same arguments, one generator each, advanced in turn
        try:
            sp1 = _real_spawner(case)
            if not case.get("copy"):
                sp2 = _real_spawner(case)
        except Exception as e:
            return {"e": exc_name(e), "phase": "init"}
        if case.get("copy"):
            # the second instance is a copy.deepcopy of the first (how lena multiplies elements: one per bin, per
            # branch), taken when the first is fresh or (`pre`) after a generator of it has been created and advanced
            import copy
            try:
                if case.get("pre") is not None:
                    g0 = sp1(_flow(2, 6))
                    for _ in range(case["pre"]):
                        next(g0, None)
                sp2 = _real_spawner(case, inst=copy.deepcopy(sp1.inst))
            except Exception as e:
                return {"e": exc_name(e), "phase": "copy"}
        return _play_twins(case, sp1, sp2)
    if op == "fill_trace":
        try:
            sl = lena.flow.Slice(*_args(case))
        except Exception as e:
            return {"e": exc_name(e), "phase": "init"}
        st = _Store()
        return {"out": [_fill_once(sl, st, x) for x in _vals(case)], "r": _encs(st.vals)}
    if op == "chain_v":
        its = _chain_iterables(case)
        try:
            out = {"r": _encs(lena.flow.Chain(*its)())}
        except Exception as e:
            return {"e": exc_name(e), "phase": "run"}
        if case.get("kind", "list") in REITERABLE:
            out["after"] = [_encs(list(it)) for it in its]
        return out
    if op == "fam":
        # a family of Slice objects: number 0 is constructed, ["c", i] appends copy.deepcopy(object i);
        # [i, v] = object i .fill_into(element, v); [i, [flow]] = list(object i .run(iter(flow)))
        import copy
        try:
            fam = [lena.flow.Slice(*_args(case))]
        except Exception as e:
            return {"e": exc_name(e), "phase": "init"}
        ev = []
        for o in case["ops"]:
            if o[0] == "c":
                try:
                    fam.append(copy.deepcopy(fam[o[1]]))
                except Exception as e:
                    return {"e": exc_name(e), "phase": "copy", "ev": ev}
            elif isinstance(o[1], list):
                try:
                    ev.append([o[0], {"r": _encs(fam[o[0]].run(iter(o[1])))}])
                except Exception as e:
                    ev.append([o[0], {"e": exc_name(e)}])
            else:
                ev.append([o[0], _fill_once(fam[o[0]], _Store(), o[1])])
        return {"ev": ev}
    if op == "fill2":
        try:
            sl1 = lena.flow.Slice(*_args(case))
            sl2 = lena.flow.Slice(*_args(case))
        except Exception as e:
            return {"e": exc_name(e), "phase": "init"}
        xs1, xs2 = _flow(0, case["n"]), _flow(1, case["n2"])
        st1, st2, stop1, stop2 = _Store(), _Store(), None, None
        for i in range(max(len(xs1), len(xs2))):
            # every caller stops feeding an element after its LenaStopFill
            if i < len(xs1) and stop1 is None and _fill_once(sl1, st1, xs1[i]) == "stop":
                stop1 = i
            if i < len(xs2) and stop2 is None and _fill_once(sl2, st2, xs2[i]) == "stop":
                stop2 = i
        return {"a": {"r": _encs(st1.vals), "stop": stop1}, "b": {"r": _encs(st2.vals), "stop": stop2}}
    if op == "slice_inst":
        try:
            sl = lena.flow.Slice(*_args(case))
        except Exception as e:
            return {"e": exc_name(e), "phase": "init"}
        ev, filled = [], []
        for o in case["ops"]:
            if isinstance(o, list):
                try:
                    ev.append({"r": _encs(sl.run(iter(o)))})
                except Exception as e:
                    ev.append({"e": exc_name(e)})
            else:
                # fill_into(element, value) fills the element it is given: a new one for every call
                st = _Store()
                ev.append(_fill_once(sl, st, o))
                filled.extend(st.vals)
        return {"ev": ev, "filled": _encs(filled)}
    if op == "slice_args":
        import sys
        import warnings
        assert sys.maxsize == _MS, "the model request assumes sys.maxsize == 2**63 - 1"
        args = [_dec(a) for a in case["args"]]
        ctor = getattr(lena.flow, case["ctor"])
        with warnings.catch_warnings(record=True) as w:
            warnings.simplefilter("always")
            try:
                sl = ctor(*args)
            except Exception as e:
                return {"e": exc_name(e), "phase": "init"}
        out = {"repr": repr(sl), "warn": sorted({x.category.__name__ for x in w})}
        try:
            fo = _mk_flow(case.get("flow"), list(range(case["n"])))
            out["r"] = _encs(sl.run(fo))
            _with_after(case.get("flow"), fo, out)
        except Exception as e:
            out.update(e=exc_name(e), phase="run")
        return out
    if op == "eqrepr":
        def build(a):
            el = case["el"]
            if el == "slice":
                return lena.flow.Slice(*a)
            if el == "countfrom":
                return lena.flow.CountFrom(*a)
            if el == "reverse":
                return lena.flow.Reverse()
            return lena.flow.Chain(*a)
        x, y = build(case["a"]), build(case["b"])
        return {"eq": x == y, "ne": x != y, "repr": [repr(x), repr(y)], "refl": x == x, "sym": (y == x),
                "other": [x == 1, x == "Slice(1)", x == lena.flow.End()]}
    if op == "init_check":
        def attempt(f):
            try:
                f()
                return "ok"
            except Exception as e:
                return exc_name(e)
        if case["el"] == "countfrom":
            a, b = _dec(case["start"]), _dec(case["step"])
            return {"r": attempt(lambda: lena.flow.CountFrom(a, b)), "ref": attempt(lambda: itertools.count(a, b))}
        cont = _container(case["container"], 2)
        return {"r": attempt(lambda: lena.flow.RunningChunkBy(2, *cont, **getattr(cont, "kw", {})))}
    if op == "chunks_c":
        cont = _container(case["container"], case["cs"])
        xs = _cvals(case)
        try:
            if case.get("cskw"):        # everything by keyword
                kw = dict(getattr(cont, "kw", {}))
                if len(cont) > 0:
                    kw["container"] = cont[0]
                if len(cont) > 1:
                    kw["from_iterable"] = cont[1]
                el = lena.flow.RunningChunkBy(chunk_size=case["cs"], **kw)
            else:
                el = lena.flow.RunningChunkBy(case["cs"], *cont, **getattr(cont, "kw", {}))
        except Exception as e:
            return {"e": exc_name(e), "phase": "init"}
        try:
            fo = _mk_flow(case.get("flow"), xs)
            chunks = list(el.run(fo))
        except Exception as e:
            return {"e": exc_name(e), "phase": "run"}
        return _with_after(case.get("flow"), fo, {"r": [_enc_chunk(case["container"], cont, c) for c in chunks]})
    raise ValueError(op)


def _mk_flow(kind, xs):
    """the flow as the caller hands it to run: an iterator (what a Sequence passes on), or any other finite iterable"""
    if kind in (None, "iter"):
        return iter(xs)
    if kind == "list":
        return list(xs)
    if kind == "tuple":
        return tuple(xs)
    if kind == "range":     # the values of such cases are consecutive integers
        return range(xs[0], xs[-1] + 1) if len(xs) else range(0)
    if kind == "gen":
        return (x for x in xs)
    # sized but not sliceable, or neither (the values of such cases are distinct small integers)
    if kind == "deque":
        import collections
        return collections.deque(xs)
    if kind == "dict":
        return dict.fromkeys(xs)
    if kind == "set":
        return set(xs)
    if kind == "frozenset":
        return frozenset(xs)
    if kind == "str":
        return "".join(chr(97 + x % 26) for x in xs)
    if kind == "iteronly":
        return _IterOnly(xs)
    if kind == "getitem":
        return _GetItemOnly(xs)
    raise ValueError(kind)


FLOW_KINDS = ("list", "tuple", "range", "gen", "deque", "dict", "set", "frozenset", "str", "iteronly", "getitem")
# the kinds that can be iterated again: the Python references (xs[a:b:s], reversed(list(xs)), the windows of xs) leave
# such an xs as it was, so the reference evaluated on the caller's object AFTER the run must still give what was yielded
REITERABLE = ("list", "tuple", "range", "deque", "dict", "set", "frozenset", "str", "iteronly", "getitem")


SESS_REITERABLE = tuple(k for k in REITERABLE if k != "str")     # sessions name their flows by integers


def _with_after(kind, flow_obj, out):
    """record what the caller's re-iterable container holds after the run"""
    if kind in REITERABLE:
        out["after"] = _encs(list(flow_obj))
    return out


def _changed_input(case, res):
    """None, or the text of the failure: the element changed the container it was given as its flow"""
    if "after" not in res:
        return None
    before = _encs(_fvals(case))
    if res["after"] == before:
        return None
    return (f"the flow xs was given as a {case.get('flow')} holding {_sh(before)}; after the run the caller's xs holds "
            f"{_sh(res['after'])}: the Python reference evaluated on the same xs no longer gives what was yielded "
            f"({_sh(res.get('r') or [])})")


def _dec(v):
    """arguments that JSON cannot carry: 'f:2.0' float, 'i:5' int, 's:a' str, 'none', 'l:1' list, 'F:1/3' Fraction"""
    if not isinstance(v, str):
        return v
    if v == "none":
        return None
    k, x = v.split(":", 1)
    if k == "f":
        return float(x)
    if k == "i":
        return int(x)
    if k == "s":
        return x
    if k == "l":
        return [int(x)]
    if k == "F":
        import fractions
        return fractions.Fraction(x)
    if k == "b":
        return bool(int(x))
    if k == "I":
        return _MyInt(x)
    if k == "D":
        import decimal
        return decimal.Decimal(x)
    if k == "c":
        return complex(x)
    raise ValueError(v)


class _MyInt(int):
    """an integer that is not exactly an `int` (a subclass, as bool is; numpy / enum integers in practice)"""


def _intlike(a):
    """an argument written 'b:1' (bool) or 'I:5' (int subclass): an integer for Python slicing and for the model"""
    return isinstance(a, str) and a[:2] in ("b:", "I:")


def _canon(v):
    """The VALUE of a number in a JSON-able form: _canon(x) == _canon(y) iff x == y for ints, bools, floats, Fractions and
    Decimals (Python compares these exactly, across the types: 1 == 1.0 == True, 0.0 == -0.0, Decimal('0.1') != 0.1),
    with nan equal to nan.  No types, no float bit patterns: the statement speaks of equal values."""
    import decimal
    import fractions
    import math
    if isinstance(v, complex):
        return _canon(v.real) if v.imag == 0 else ["c", _canon(v.real), _canon(v.imag)]
    if isinstance(v, int):
        return int(v)
    if isinstance(v, float):
        if math.isnan(v):
            return "nan"
        if math.isinf(v):
            return "inf" if v > 0 else "-inf"
        q = fractions.Fraction(v)
    elif isinstance(v, decimal.Decimal):
        if v.is_nan():
            return "nan"
        if v.is_infinite():
            return "inf" if v > 0 else "-inf"
        q = fractions.Fraction(v)
    elif isinstance(v, fractions.Fraction):
        q = v
    else:
        return f"{type(v).__name__}:{v!r}"
    return int(q) if q.denominator == 1 else f"q:{q.numerator}/{q.denominator}"


def _show_canon(c):
    """a canonical value as shown in a failure text"""
    if isinstance(c, str) and c.startswith("q:"):
        import fractions
        q = fractions.Fraction(c[2:])
        return f"{float(q)!r} (exactly {c[2:]})" if fractions.Fraction(float(q)) == q else c[2:]
    return repr(c)


def _take(it, n):
    """the first n values of an iterator and the class of the exception that ended it early (None: none)"""
    out = []
    try:
        for _ in range(n):
            out.append(next(it))
    except StopIteration:
        return out, "StopIteration"
    except Exception as e:
        return out, exc_name(e)
    return out, None


_CF_EXACT = {}


def _cf_exact(case, n):
    """(start, step) as Fractions if Python's own arithmetic on the arguments of this CountFrom case is exact for the
    first n values (ints, bools, Fractions, Decimals within the context precision, floats whose partial sums are all
    representable), else None.  Decided with the real itertools.count, never with the element under test.  Only then is
    the (rational) model asked; the theorem countFromG_exact is about exact arithmetic."""
    import decimal
    import fractions
    key = (repr(case.get("start")), repr(case.get("step")), case.get("cf"), n)
    if key not in _CF_EXACT:
        ans = None
        try:
            a, s = (_dec(v) for v in _cf_eff(case))
            if all(isinstance(v, (int, float, fractions.Fraction, decimal.Decimal)) for v in (a, s)):
                fa, fs = fractions.Fraction(a), fractions.Fraction(s)
                it = itertools.count(a, s)
                if all(fractions.Fraction(next(it)) == fa + i * fs for i in range(n)):
                    ans = (fa, fs)
        except Exception:
            ans = None          # nan / inf / Decimal + float / overflow: not exact arithmetic
        _CF_EXACT[key] = ans
    return _CF_EXACT[key]


def _cf_scaled(case, n):
    """(A, S, d): the integer count A, A+S, ... divided by d is the count of the case (theorem countFromQ_scale);
    None if the arithmetic is not exact"""
    ex = _cf_exact(case, n)
    if ex is None:
        return None
    import math
    d = math.lcm(ex[0].denominator, ex[1].denominator)
    return int(ex[0] * d), int(ex[1] * d), d


def _cf_plain(case):
    return all(type(v) is int for v in _cf_eff(case))


def _sess_n(case):
    """more values than any generator of a CountFrom session / twins case yields"""
    return len(case.get("ops", ())) + 12


_NT = {}


class _KwArgs(tuple):
    """positional arguments of RunningChunkBy after chunk_size, plus keyword arguments in .kw"""
    kw = {}


def _container(name, cs):
    """arguments (container[, from_iterable]) of RunningChunkBy for a container name: a tuple of positional
    arguments; keyword arguments, if any, in its attribute kw"""
    import collections
    if name == "tuple":
        return (tuple,)
    if name == "list":
        return (list, True)
    if name == "list_kw":           # RunningChunkBy(cs, container=list, from_iterable=True)
        r = _KwArgs()
        r.kw = {"container": list, "from_iterable": True}
        return r
    if name == "list_truthy":       # from_iterable is any true value (bool(from_iterable))
        return (list, 1)
    if name == "list_truthy2":
        return (list, "yes")
    if name == "tuple_falsy":
        return (tuple, 0)
    if name == "star_falsy":
        return (lambda *a: list(a), "")
    if name == "star":
        return (lambda *a: list(a),)
    if name == "namedtuple":
        if cs not in _NT:
            _NT[cs] = collections.namedtuple(f"P{cs}", [f"f{i}" for i in range(cs)])
        return (_NT[cs],)
    if name == "set":
        return (frozenset, True)
    return (_dec(name),)


def _enc_chunk(name, cont, c):
    """a chunk as the model tags it: tuple / list (also what container(*chunk) builds) / set (ascending)"""
    if name in ("tuple", "tuple_falsy"):
        ok, k, v = type(c) is tuple, "tuple", list(c)
    elif name in ("list", "star", "list_kw", "list_truthy", "list_truthy2", "star_falsy"):
        ok, k, v = type(c) is list, "list", list(c)
    elif name == "namedtuple":
        ok, k, v = type(c) is cont[0], "list", list(c)
    else:
        ok, k, v = type(c) is frozenset, "set", sorted(c)
    return {"k": k if ok else type(c).__name__, "v": v}


def _cvals(case):
    n = case["n"]
    return [i % 3 for i in range(n)] if case.get("vals") == "dup" else list(range(n))


def _fill_once(sl, store, v):
    """one `fill_into(store, v)`: 'filled' (store.fill(v) was called, once), 'skipped', 'stop' (LenaStopFill) or
    the exception / a description of anything else"""
    import lena.core
    before = len(store.vals)
    try:
        sl.fill_into(store, v)
    except lena.core.LenaStopFill:
        new = store.vals[before:]
        return "stop" if not new else f"stop after filling {new!r}"
    except Exception as e:
        return exc_name(e)
    new = store.vals[before:]
    if not new:
        return "skipped"
    if len(new) == 1 and new[0] is v:
        return "filled"
    return f"filled {new!r}"


def _chain_iterables(case):
    """fresh iterables for a Chain session (kind 'iter': one-shot iterators, shared by all calls); with `vk` their
    values are the lifted ones"""
    kind = case.get("kind", "list")
    xss = [_lifts(case.get("vk"), x) for x in _chain_xss(case)]
    if case.get("alias") and xss:
        one = _chain_iterables(dict(case, alias=False, lens=case["lens"][:1]))[0]
        return [one] * len(xss)
    if kind == "list":
        return xss
    if kind == "tuple":
        return [tuple(x) for x in xss]
    if kind == "range":
        return [range(x[0], x[-1] + 1) if x else range(0) for x in xss]
    if kind == "gen":
        return [(v for v in x) for x in xss]
    return [iter(x) for x in xss]


def _shared(case):
    return case.get("el") == "chain" and case.get("kind") in ("iter", "gen")


class _FlowMaker:
    """The flow object a session hands to `run` for the flow (a list of integers) named in the schedule: its values
    lifted (`vk`), in the container kind `fk`.  With `same` the runs that name equal flows get ONE object - the
    caller's container, read by several runs of the instance (two branches reading one buffered list, a second run over
    the same data); only for re-iterable kinds."""

    def __init__(self, case):
        self.fk, self.vk = case.get("fk"), case.get("vk")
        self.same = bool(case.get("same")) and self.fk in REITERABLE
        self.objs = {}

    def __call__(self, flow):
        if not self.same:
            return _mk_flow(self.fk, _lifts(self.vk, flow))
        key = tuple(flow)
        if key not in self.objs:
            self.objs[key] = _mk_flow(self.fk, _lifts(self.vk, flow))
        return self.objs[key]


def _build_el(case):
    """ONE instance of the real element of a session / twins / copies case"""
    import lena.flow
    el = case["el"]
    if el == "slice":
        return lena.flow.Slice(case["start"], case["stop"], case["step"])
    if el == "reverse":
        return lena.flow.Reverse()
    if el == "chunks":
        cont = case["container"]
        if cont == "tuple":
            return lena.flow.RunningChunkBy(case["cs"])
        if cont == "list":
            return lena.flow.RunningChunkBy(case["cs"], list, from_iterable=True)
        return lena.flow.RunningChunkBy(case["cs"], lambda *a: list(a))
    if el == "chain":
        return lena.flow.Chain(*_chain_iterables(case))
    if el == "countfrom":
        return _cf_call(lena.flow.CountFrom, case)
    raise ValueError(el)


def _real_spawner(case, inst=None):
    """Build ONE instance of the real element (or take the given one); return the function that makes a new generator
    from it (attribute `inst`: the instance)."""
    import lena.flow
    el = case["el"]
    its = None
    if inst is None:
        if el == "chain":
            its = _chain_iterables(case)    # kept: what the shared one-shot iterators still hold is read from them
            inst = lena.flow.Chain(*its)
        else:
            inst = _build_el(case)
    if el in ("slice", "reverse", "chunks"):
        mk = _FlowMaker(case)
        sp = lambda flow: inst.run(mk(flow))
    elif el in ("chain", "countfrom"):
        sp = lambda flow: inst()
        sp.its = its
    else:
        raise ValueError(el)
    sp.inst = inst
    return sp


def _ref_spawner(case):
    """The Python reference named by the property, per call: xs[start:stop:step], reversed(list(xs)), the sliding
    windows, itertools.chain(*iterables), itertools.count(start, step)."""
    el = case["el"]
    fk = case.get("fk")
    def order(flow):
        return list(_mk_flow(fk, _lifts(case.get("vk"), flow)))
    if el == "slice":
        return lambda flow: iter(order(flow)[case["start"]:case["stop"]:case["step"]])
    if el == "reverse":
        return lambda flow: reversed(order(flow))
    if el == "chunks":
        cs = case["cs"]
        conv = tuple if case["container"] == "tuple" else list
        return lambda flow: iter([conv(order(flow)[i:i + cs]) for i in range(0, len(flow) - cs + 1)])
    if el == "chain":
        its = _chain_iterables(case)
        sp = lambda flow: itertools.chain(*its)
        sp.its = its
        return sp
    if el == "countfrom":
        return lambda flow: _cf_call(itertools.count, case)
    raise ValueError(el)


_REST_CAP = 20000     # longer than any finite flow of the generators; caps a mutated endless generator


def _encv_of(case):
    """encoder of the values a generator of the case's element yields: a chunk (RunningChunkBy) is encoded value by
    value, anything else is one value"""
    if case.get("el") == "countfrom":
        return _canon       # numbers: compared by value (ints stay ints)
    return _encs if case.get("el") == "chunks" else _enc


def _play(case, spawn):
    """Run the schedule of a session: events [g, value] / [g, None] (StopIteration), then what every generator still
    yields (`tail` values for the endless CountFrom)."""
    gens, raw = [], []
    tail = 3 if case["el"] == "countfrom" else _REST_CAP
    stop = object()
    _encv = _encv_of(case)
    def enc(evs):
        return [[g, None if v is stop else _encv(v)] for g, v in evs]
    try:
        for o in case["ops"]:
            if isinstance(o, list):
                gens.append(spawn(o))
            elif o < len(gens):
                try:
                    raw.append((o, next(gens[o])))
                except StopIteration:
                    raw.append((o, stop))
        if _shared(case):
            # the calls share the one-shot iterators: what those still hold, taken from the iterators themselves
            left = [v for it in spawn.its for v in itertools.islice(it, tail)]
            return {"ev": enc(raw), "left": [_encv(v) for v in left]}
        rest = [list(itertools.islice(g, tail)) for g in gens]
    except Exception as e:
        return {"e": exc_name(e), "phase": "run", "ev": enc(raw)}
    # the values are looked at only now: the consumer keeps what it was given while the generators go on
    return {"ev": enc(raw), "rest": [[_encv(v) for v in r] for r in rest]}


def _play_twins(case, sp1, sp2):
    el = case["el"]
    f1, f2 = _flow(0, case.get("n", 0)), _flow(1, case.get("n2", 0))
    tail = 5 if el == "countfrom" else _REST_CAP
    _encv = _encv_of(case)
    try:
        g1, g2 = sp1(f1), sp2(f2)
        a, b = [], []
        for _ in range(tail):
            n = len(a) + len(b)
            for g, out in ((g1, a), (g2, b)):
                try:
                    out.append(_encv(next(g)))
                except StopIteration:
                    pass
            if len(a) + len(b) == n:
                break
    except Exception as e:
        return {"e": exc_name(e), "phase": "run"}
    return {"a": a, "b": b}


def _chain_xss(case):
    xss, k = [], 0
    for l in case["lens"]:
        xss.append(list(range(k, k + l)))
        k += l
    if case.get("alias"):
        # one iterable given several times: Chain(xs, xs, xs)
        xss = [xss[0]] * len(xss) if xss else []
    return xss


MODEL_MAX_LEN_SESS = 1030
MODEL_MAX_LEN = 1100      # longer flows: oracle only (the model's transcribed loops are quadratic in the interpreter)


def model_requests(case):
    op = case["op"]
    if case.get("huge") and _case_len(case) > (MODEL_MAX_LEN_SESS if op == "sess" else MODEL_MAX_LEN):
        return []
    if op == "slice":
        xs = list(range(case["n"]))
        a, b, s = case["start"], case["stop"], case["step"]
        reqs = [{"op": "slice", "start": a, "stop": b, "step": s, "xs": xs}]
        if s is None or s >= 1:
            reqs.append({"op": "pyslice", "start": a, "stop": b, "step": s, "xs": xs})
        if case.get("form", 3) == 3 and "vk" not in case and "flow" not in case and case["n"] == 0:
            reqs.append({"op": "spec", "start": a, "stop": b, "step": s})
        return reqs
    if op == "fill_into":
        # the arguments go to the model as they go to Slice: the None defaults are the model's business (mkSliceInst)
        return [{"op": "fill_into_o", "args": list(_args(case)), "xs": list(range(case["n"]))}]
    if op == "reverse":
        return [{"op": "reverse", "xs": list(range(case["n"]))}]
    if op == "chain":
        return [{"op": "chain", "xss": _chain_xss(case)}]
    if op == "countfrom":
        a, st = _cf_eff(case)
        if _cf_plain(case):
            return [{"op": "countfrom", "start": a, "step": st, "n": case["n"]}]
        if case["n"] > MODEL_MAX_LEN:
            return []
        ex = _cf_exact(case, case["n"])
        if ex is None:
            return []       # arithmetic that rounds / nan / inf / raises: the real itertools.count is the only reference
        return [{"op": "countfrom_q", "start": [ex[0].numerator, ex[0].denominator],
                 "step": [ex[1].numerator, ex[1].denominator], "n": case["n"]}]
    if op == "chunks":
        xs = list(range(case["n"]))
        return [{"op": "chunks", "cs": case["cs"], "xs": xs}, {"op": "windows", "cs": case["cs"], "xs": xs}]
    if op == "sess":
        el = case["el"]
        req = {"op": "session", "el": el, "ops": case["ops"]}
        if el == "slice":
            req.update(start=case["start"], stop=case["stop"], step=case["step"])
        elif el == "chunks":
            req.update(cs=case["cs"])
        elif el == "chain":
            if _shared(case):
                return [{"op": "session", "el": "chain_shared", "xss": _chain_xss(case), "ops": case["ops"]}]
            req.update(xss=_chain_xss(case))
        elif el == "countfrom":
            a, st = _cf_eff(case)
            if not _cf_plain(case):
                sc = _cf_scaled(case, _sess_n(case))
                if sc is None:
                    return []
                a, st = sc[0], sc[1]
            req.update(start=a, step=st, tail=3)
        fk = case.get("fk")
        if fk not in (None, "iter", "list", "tuple", "range", "gen"):
            # the flow as its object yields it (sets, dicts)
            req["ops"] = [list(_mk_flow(fk, o)) if isinstance(o, list) else o for o in case["ops"]]
        return [req]
    if op == "twins":
        el = case["el"]
        f1, f2 = _flow(0, case.get("n", 0)), _flow(1, case.get("n2", 0))
        if el == "slice":
            return [{"op": "slice", "start": case["start"], "stop": case["stop"], "step": case["step"], "xs": f}
                    for f in (f1, f2)]
        if el == "reverse":
            return [{"op": "reverse", "xs": f} for f in (f1, f2)]
        if el == "chunks":
            return [{"op": "chunks", "cs": case["cs"], "xs": f} for f in (f1, f2)]
        if el == "chain":
            return [{"op": "chain", "xss": _chain_xss(case)}] * 2
        if el == "countfrom":
            a, st = _cf_eff(case)
            if not _cf_plain(case):
                sc = _cf_scaled(case, _sess_n(case))
                if sc is None:
                    return []
                a, st = sc[0], sc[1]
            return [{"op": "countfrom", "start": a, "step": st, "n": 5}] * 2
        raise ValueError(el)
    if op == "fill_trace":
        return [{"op": "fill_trace_o", "args": list(_args(case)), "xs": list(range(case["n"]))}]
    if op == "chain_v":
        xss = _chain_xss(case)
        if case.get("alias") and case.get("kind") in ("iter", "gen"):
            # one one-shot iterator given several times holds its values once
            xss = xss[:1] + [[] for _ in xss[1:]]
        return [{"op": "chain", "xss": xss}]
    if op == "fam":
        return [{"op": "fam", "args": list(_args(case)), "ops": case["ops"]}]
    if op == "fill2":
        return [{"op": "fill_into_o", "args": list(_args(case)), "xs": f}
                for f in (_flow(0, case["n"]), _flow(1, case["n2"]))]
    if op == "slice_inst":
        return [{"op": "slice_inst", "args": list(_args(case)), "ops": case["ops"]}]
    if op == "slice_args":
        if _islice_overflow(case):
            return []
        if any(_intlike(a) for a in case["args"]):
            # bools and int subclasses are integers (xs[True:] is xs[1:]): the model gets their integer values
            case = dict(case, args=[int(_dec(a)) if _intlike(a) else a for a in case["args"]])
        if any(isinstance(a, str) for a in case["args"]):
            args = case["args"]
            if len(args) == 3 and not any(isinstance(a, str) for a in args[:2]):
                return [{"op": "slice_step", "start": args[0], "stop": args[1], "stepkind": "float", "ms": _MS}]
            return []
        return [{"op": "slice_args", "args": case["args"], "xs": list(range(case["n"])), "ms": _MS}]
    if op == "eqrepr":
        return [{"op": "eqrepr", "el": case["el"], "a": case["a"], "b": case["b"]}]
    if op == "init_check":
        if case["el"] == "countfrom":
            import numbers
            return [{"op": "init_check", "el": "countfrom",
                     "num": [isinstance(_dec(case[k]), numbers.Number) for k in ("start", "step")]}]
        cont = _container(case["container"], 2)
        target = cont[0] if len(cont) else cont.kw["container"]
        return [{"op": "init_check", "el": "chunks", "callable": callable(target)}]
    if op == "chunks_c":
        cont = {"namedtuple": "star", "list_kw": "list", "list_truthy": "list", "list_truthy2": "list",
                "tuple_falsy": "tuple", "star_falsy": "star"}.get(case["container"], case["container"])
        return [{"op": "chunks_c", "cs": case["cs"], "xs": _cvals(case), "container": cont},
                {"op": "windows", "cs": case["cs"], "xs": _cvals(case)}]
    raise ValueError(op)


def _map_model(case, m):
    """The model runs on the positions 0..n-1; translate its answer to the values of this case's flow."""
    if "r" not in m or case["op"] not in ("slice", "fill_into", "reverse", "chunks"):
        return m
    if case.get("vk", "int") == "int" and case.get("flow") in (None, "iter", "list", "tuple", "range", "gen"):
        return m
    vals = _fvals(case)
    def tr(r):
        return [tr(x) for x in r] if isinstance(r, list) else _enc(vals[r])
    return dict(m, r=tr(m["r"]))


def compare(case, res, replies):
    op = case["op"]
    m = replies[0]
    if "err" in m:
        return f"model driver error: {m['err']}"
    if op in ("sess", "twins", "fill_trace", "fill2", "slice_inst"):
        return _compare_reuse(case, res, replies)
    if op in ("slice_args", "eqrepr", "init_check", "chunks_c"):
        return _compare_ext(case, res, replies)
    if op == "chain_v":
        if "e" in res:
            return f"impl raised {res} vs model {m}"
        want = [_enc(_lift(case.get("vk"), i)) for i in m["r"]]
        return None if res["r"] == want else f"impl {res['r']} vs model {want}"
    if op == "fam":
        if "e" in m or "e" in res:
            if res.get("e") == m.get("e") and res.get("phase") == "init":
                return None
            return f"impl {res} vs model {m}"
        fix = lambda e: "Other:AttributeError" if e == "AttributeError" else e
        mev = [[i, fix(e)] for i, e in m["ev"]]
        if res["ev"] != mev:
            return f"impl {res['ev']} vs model {mev}"
        # the projections the theorems speak about: the outcomes per object (eventsOf), and object j alone on the calls
        # of its lineage (objEvents over lineage)
        nobj = 1 + sum(1 for o in case["ops"] if o[0] == "c")
        per = [[e for i, e in res["ev"] if i == j] for j in range(nobj)]
        if [[fix(e) for e in r] for r in m["of"]] != per or m["alone"] != m["of"]:
            return f"Lean eventsOf {m['of']} / objEvents over lineage {m['alone']} vs the outcomes per object {per}"
        return None
    if op == "countfrom":
        if "e" in res or "exc" in res:
            return f"impl raised {res} vs model {m} (exact arithmetic: nothing raises)"
        if not _cf_plain(case):
            # rationals [num, den] in lowest terms -> the canonical values; and the closed form of countFromQ_spec
            import fractions
            want = [_canon(fractions.Fraction(n_, d_)) for n_, d_ in m["r"]]
            fa, fs = _cf_exact(case, case["n"])
            if want != [_canon(fa + i * fs) for i in range(case["n"])]:
                return f"Lean countFromQ {m['r']} differs from start + i*step in exact arithmetic"
            m = {"r": want}
        return None if res["r"] == m["r"] else f"impl {_sh(res['r'])} vs model {_sh(m['r'])}{_first_diff(res['r'], m['r'])}"
    m = _map_model(case, m)
    if "e" in res and op not in ("slice",):
        return f"impl raised {res} vs model {m}"
    if op == "slice":
        if "e" in res or "e" in m:
            if res.get("e") != m.get("e") or (m.get("e") == "LenaValueError" and res.get("phase") != "init"):
                return f"impl {res} vs model {m} (LenaValueError is raised at construction)"
        elif res["r"] != m["r"]:
            return f"impl {res['r']} vs model {m['r']}"
        if len(replies) > 1 and "r" in replies[1]:
            xs = list(range(case["n"]))
            ref = xs[case["start"]:case["stop"]:case["step"]]
            if replies[1].get("r") != ref:
                return f"Lean pySlice {replies[1]} differs from Python slicing {ref}"
        sp = replies[-1]
        if "goodstep" in sp:
            s_, a_, b_ = case["step"], case["start"], case["stop"]
            want = {"goodstep": s_ is None or s_ >= 1, "hasneg": any(v is not None and v < 0 for v in (a_, b_))}
            if sp != want:
                return f"Lean goodStepB/hasNegB {sp} differ from the Python predicates {want}"
        return None
    if op == "fill_into":
        if "e" in res or "e" in m:
            return f"impl {res} vs model {m}"
        if res["r"] != m["r"] or res["stop"] != m["stop"]:
            return f"impl {res} vs model {m}"
        # stopIdx (theorem stopfill_exact) against its Python formula and against where the real code raised
        a, b, st = _triple(case)
        if b is not None:
            a0, s0 = a or 0, st or 1
            want = 0 if b <= a0 else a0 + ((b - a0 - 1) // s0) * s0 + 1
            if m["stopidx"] != want:
                return f"Lean stopIdx {m['stopidx']} differs from the Python formula {want}"
            if res["stop"] != (want if want < case["n"] else None):
                return f"LenaStopFill raised at {res['stop']}, stopIdx says {want} (flow of {case['n']} values)"
        return None
    if op == "chunks":
        if res["r"] != m["r"]:
            return f"impl {res['r']} vs model {m['r']}"
        if replies[1]["r"] != _windows(case):
            return f"Lean windows {replies[1]['r']} differs from the Python reference"
        return None
    if res["r"] != m["r"]:
        return f"impl {res['r']} vs model {m['r']}"
    return None


def _compare_reuse(case, res, replies):
    op, m = case["op"], replies[0]
    for r in replies:
        if "err" in r:
            return f"model driver error: {r['err']}"
    if "e" in res or "e" in m:
        # the only exception the model knows at this level is LenaValueError at construction
        if res.get("e") == m.get("e") and res.get("phase") == "init":
            return None
        return f"impl {res} vs model {m}"
    if op == "sess":
        m = _lift_reply(case, m)
        if _shared(case):
            if res["ev"] != m["ev"] or res["left"] != m["left"]:
                return f"impl events {res['ev']} left {res['left']} vs model events {m['ev']} left {m['left']}"
            vals = [v for _, v in res["ev"] if v is not None]
            if m["all"] != vals:
                return f"Lean allValues {m['all']} differs from the values of the events {vals}"
            return None
        if res["ev"] != m["ev"] or res["rest"] != m["rest"]:
            return f"impl events {res['ev']} rest {res['rest']} vs model events {m['ev']} rest {m['rest']}"
        # the projections the theorems speak about, computed here from the events of the real code
        ng = sum(1 for o in case["ops"] if isinstance(o, list))
        vals = [[v for g_, v in res["ev"] if g_ == g and v is not None] for g in range(ng)]
        nexts = [sum(1 for g_, _ in res["ev"] if g_ == g) for g in range(ng)]
        if m["starts"] != ng or m["vals"] != vals or m["nexts"] != nexts:
            return (f"Lean startsOf/valuesOf/nextsOf {m['starts']} {m['vals']} {m['nexts']} differ from the Python "
                    f"projections {ng} {vals} {nexts}")
        if m["pred"] != vals:
            return f"genTake of a fresh generator {m['pred']} differs from the values yielded {vals}"
        return None
    if op == "twins":
        got = [res["a"], res["b"]]
        want = [_lift_reply(case, {"rest": [r.get("r")]})["rest"][0] for r in replies[:2]]
        return None if got == want else f"impl {got} vs model (two fresh instances) {want}"
    if op == "fill_trace":
        if res["out"] != m["out"] or res["r"] != m["r"]:
            return f"impl {res} vs model {m}"
        return None
    if op == "fill2":
        for k, r in (("a", replies[0]), ("b", replies[1])):
            if res[k]["r"] != r["r"] or res[k]["stop"] != r["stop"]:
                return f"instance {k}: impl {res[k]} vs model {r}"
        return None
    if op == "slice_inst":
        mev = ["Other:AttributeError" if e == "AttributeError" else e for e in m["ev"]]
        if res["ev"] != mev:
            return f"impl {res['ev']} vs model {mev}"
        # observable behaviour only (no private attributes): the outcomes of the fill_into calls
        outs = [e for e in res["ev"] if isinstance(e, str)]
        if not any(v is not None and v < 0 for v in _triple(case)[:2]):
            if m["fo"] != outs or m["ft"] != outs:
                return f"Lean fillOutcomes {m['fo']} / fillTrace over fillValues {m['ft']} vs fill_into outcomes {outs}"
        return None
    raise ValueError(op)


def _lift_reply(case, m):
    """the model runs a session on integers; with `vk` the real flows carry the lifted values"""
    vk = case.get("vk")
    if case.get("el") == "countfrom" and not _cf_plain(case):
        # the integer session model counts A, A+S, ...; the case counts A/d, (A+S)/d, ... (theorem countFromQ_scale)
        import fractions
        d = _cf_scaled(case, _sess_n(case))[2]
        f = lambda z: _canon(fractions.Fraction(z, d))
    elif vk in (None, "int"):
        return m
    else:
        one = lambda i: _enc(_lift(vk, i))
        f = (lambda c: [one(i) for i in c]) if case.get("el") == "chunks" else one
    out = dict(m)
    if "ev" in m:
        out["ev"] = [[g, None if v is None else f(v)] for g, v in m["ev"]]
    for k in ("rest", "vals", "pred"):
        if k in m:
            out[k] = [None if r is None else [f(v) for v in r] for r in m[k]]
    for k in ("left", "all"):
        if k in m:
            out[k] = [f(v) for v in m[k]]
    return out


_MODEL_EXC = {"TypeError": ("Other:TypeError", "init"), "LenaValueError": ("LenaValueError", "init"),
              "OverflowError": ("Other:OverflowError", "run"), "IndexError": ("Other:IndexError", "run")}


def _compare_ext(case, res, replies):
    op, m = case["op"], replies[0]
    for r in replies:
        if "err" in r:
            return f"model driver error: {r['err']}"
    if op == "slice_args":
        if "repr" not in m:     # a float step: the model says LenaValueError at construction (mkSliceStepArg)
            if (res.get("e"), res.get("phase")) != ("LenaValueError", "init"):
                return f"impl {res} vs model {m}"
            return None
        if "e" in m:
            want = _MODEL_EXC[m["e"]]
            if (res.get("e"), res.get("phase")) != want:
                return f"impl {res} vs model {m}"
        elif "e" in res or res["r"] != m["r"]:
            return f"impl {res} vs model {m}"
        if "repr" in res and res["repr"] != m["repr"] and not any(_intlike(a) for a in case["args"]):
            return f"impl repr {res['repr']} vs model {m['repr']}"
        if "repr" in res and (case["ctor"] == "ISlice") != ("DeprecationWarning" in res["warn"]):
            return f"{case['ctor']}: warnings {res['warn']}"
        return None
    if op == "eqrepr":
        if res["eq"] != m["eq"] or res["repr"] != m["repr"]:
            return f"impl {res} vs model {m}"
        if res["ne"] == res["eq"] or res["refl"] is not True or res["sym"] != res["eq"] or any(res["other"]):
            return f"__eq__ is not coherent: {res}"
        return None
    if op == "init_check":
        mm = {"TypeError": "Other:TypeError"}.get(m["r"], m["r"])
        return None if res["r"] == mm else f"impl {res['r']} vs model {mm}"
    if op == "chunks_c":
        if "e" in res:
            return f"impl raised {res} vs model {m}"
        if res["r"] != m["r"]:
            return f"impl {res['r']} vs model {m['r']}"
        xs, cs = _cvals(case), case["cs"]
        if replies[1]["r"] != [xs[i:i + cs] for i in range(0, len(xs) - cs + 1)]:
            return f"Lean windows {replies[1]['r']} differs from the Python reference"
        return None
    raise ValueError(op)


def _sched(ops):
    """a schedule as shown in a failure text"""
    items = [(_sh(o) if isinstance(o, list) else repr(o)) for o in ops]
    if len(items) > 60:
        items = items[:40] + [f"... ({len(ops)} operations) ..."] + items[-10:]
    return "[" + ", ".join(items) + "]"


def _sh(xs):
    """a list as shown in a failure text: long ones abbreviated"""
    xs = list(xs)
    if len(xs) <= 24:
        return repr(xs)
    return f"[{', '.join(map(repr, xs[:8]))}, ... ({len(xs)} values) ..., {', '.join(map(repr, xs[-4:]))}]"


def _first_diff(got, ref):
    """where two long lists differ (for failure texts)"""
    if len(got) <= 24 and len(ref) <= 24:
        return ""
    k = next((i for i, (x, y) in enumerate(zip(got, ref)) if x != y), min(len(got), len(ref)))
    return (f" (first difference at position {k}: {got[k] if k < len(got) else 'nothing'!r} instead of "
            f"{ref[k] if k < len(ref) else 'nothing'!r})")


def _windows(case, vals=False):
    xs, cs = (_encs(_fvals(case)) if vals else list(range(case["n"]))), case["cs"]
    return [xs[i:i + cs] for i in range(0, len(xs) - cs + 1)]


def oracle(case, res):
    """The property's own statement, evaluated on the real code's result."""
    op = case["op"]
    if op == "slice":
        s = case["step"]
        xs = list(range(case["n"]))
        if s is not None and s < 1:
            if res.get("e") != "LenaValueError" or res.get("phase") != "init":
                return f"Slice{_args(case)} with step {s} must raise LenaValueError at construction, got {res}"
            return None
        fk = f" given as a {case['flow']}" if case.get("flow") else ""
        if "e" in res:
            return f"Slice{_args(case)} raised {res} on flow {_sh(_fvals(case))}{fk}"
        ref = _encs(_fvals(case)[case["start"]:case["stop"]:s])
        if res["r"] != ref:
            return (f"Slice{_args(case)}.run({_sh(_fvals(case))}{fk}) = {_sh(res['r'])} but xs[start:stop:step] = "
                    f"{_sh(ref)}{_first_diff(res['r'], ref)}")
        ch = _changed_input(case, res)
        return f"Slice{_args(case)}.run(xs): {ch}" if ch else None
    if op == "fill_into":
        if "e" in res:
            return f"fill_into raised {res}"
        a, b, s = _triple(case)
        ref = _encs(_vals(case)[a:b:s])
        st = res["stop"]
        # values filled before the stop signal must be the slice of the prefix fed so far, and
        # LenaStopFill only when no later index could be selected
        if st is None:
            if res["r"] != ref:
                return f"Slice({a},{b},{s}).fill_into filled {_sh(res['r'])} but slice is {_sh(ref)}{_first_diff(res['r'], ref)}"
        else:
            if res["r"] != ref:
                return (f"Slice({a},{b},{s}).fill_into filled {_sh(res['r'])} before LenaStopFill at {st}; slice is "
                        f"{_sh(ref)}{_first_diff(res['r'], ref)}")
            # LenaStopFill at index st is legitimate only if no index >= st is selected
            if b is None:
                return f"LenaStopFill at index {st} although stop is None (every later index {a or 0}+k*{s or 1} is selected)"
            sel = range(a or 0, b, s or 1)
            if len(sel) and sel[-1] >= st:
                return f"LenaStopFill at index {st} although index {sel[-1]} would be selected"
        return None
    if op in ("sess", "twins", "fill_trace", "fill2", "slice_inst"):
        return _oracle_reuse(case, res)
    if op in ("slice_args", "eqrepr", "init_check", "chunks_c"):
        return _oracle_ext(case, res)
    if op == "fam":
        return _oracle_fam(case, res)
    if op == "countfrom":
        return _oracle_countfrom(case, res)
    if "e" in res:
        return f"{op} raised {res} (case {case})"
    if op == "chain_v":
        its = _chain_iterables(case)
        shown = [list(it) for it in _chain_iterables(case)]
        ref = _encs(itertools.chain(*its))
        kind = case.get("kind", "list")
        show = "[" + ", ".join(_sh(x) for x in shown) + "]"
        if res["r"] != ref:
            return (f"Chain(*iterables)() with the {len(shown)} iterable(s) {show} (given as {kind}s) yields {_sh(res['r'])}, "
                    f"itertools.chain(*iterables) yields {_sh(ref)}{_first_diff(res['r'], ref)}")
        if "after" in res and res["after"] != [_encs(x) for x in shown]:
            return (f"Chain(*iterables)() with the iterables {show} (given as {kind}s): afterwards the caller's iterables "
                    f"hold {[_sh(x) for x in res['after']]}")
        return None
    if op == "reverse":
        ref = _encs(reversed(_fvals(case)))
        fk = f" (flow given as a {case['flow']})" if case.get("flow") else ""
        if res["r"] != ref:
            return f"Reverse gives {_sh(res['r'])}, reversed(list(xs)) = {_sh(ref)}{fk}{_first_diff(res['r'], ref)}"
        ch = _changed_input(case, res)
        return f"Reverse().run(xs): {ch}" if ch else None
    if op == "chain":
        ref = list(itertools.chain(*_chain_xss(case)))
        return None if res["r"] == ref else f"Chain gives {res['r']}, itertools.chain = {ref}"
    if op == "countfrom":
        return _oracle_countfrom(case, res)
    if op == "chunks":
        ref = _windows(case, vals=True)
        if res["r"] != ref:
            return (f"RunningChunkBy({case['cs']}) on a flow of {case['n']} values gives {_sh(res['r'])}, windows = "
                    f"{_sh(ref)}{_first_diff(res['r'], ref)}")
        ch = _changed_input(case, res)
        return f"RunningChunkBy({case['cs']}).run(xs): {ch}" if ch else None
    raise ValueError(op)


def _oracle_countfrom(case, res):
    """CountFrom(start, step)() equals itertools.count(start, step): the real itertools.count, called with the same
    arguments in the same shape, value by value with `==` (nan equal to nan) - for every kind of number the reference
    accepts (ints, bools, floats, Fractions, Decimals, complex, mixed); where the arithmetic of the arguments raises
    (Decimal + float) the element raises the same exception at the same value; where the reference cannot be built
    neither can the element."""
    show = lambda v: repr(_dec(v))
    shape = {"none": "()", "pos1": f"({show(case.get('start'))})",
             "kw": f"(start={show(case.get('start'))}, step={show(case.get('step'))})",
             "kwstep": f"(step={show(case.get('step'))})"}.get(
                 case.get("cf"), f"({show(case.get('start'))}, {show(case.get('step'))})")
    try:
        refit = _cf_call(itertools.count, case)
    except Exception as e:
        if res.get("e") == exc_name(e) and res.get("phase") == "init":
            return None
        return f"itertools.count{shape} raises {exc_name(e)} at construction, CountFrom{shape}: {res}"
    if "e" in res:
        return f"CountFrom{shape} raised {res}; itertools.count{shape} exists and yields"
    vals, exc = _take(refit, case["n"])
    ref = [_canon(v) for v in vals]
    if res["r"] == ref and res.get("exc") == exc:
        return None
    if exc is not None and res.get("exc") == exc and res["r"][:len(ref)] == ref and len(res["r"]) == len(ref) + 1:
        # The arithmetic of the arguments raises (Decimal + float: TypeError).  CPython's count computes the successor
        # before it hands out a value, so it raises one `next` earlier than a loop `yield val; val = val + step`
        # would: WHEN the inevitable exception comes is not part of "equals itertools.count" (one value of slack)
        return None
    k = next((i for i, (x, y) in enumerate(zip(res["r"], ref)) if x != y), min(len(res["r"]), len(ref)))
    if k < len(res["r"]) and k < len(ref):
        lo = max(0, k - 3)
        return (f"CountFrom{shape}(): value number {k} (from 0) is {_show_canon(res['r'][k])}, itertools.count{shape} "
                f"gives {_show_canon(ref[k])}; values number {lo}..{k}: {[_show_canon(c) for c in res['r'][lo:k + 1]]} vs "
                f"{[_show_canon(c) for c in ref[lo:k + 1]]}")
    return (f"CountFrom{shape}() yielded {len(res['r'])} values and then {res.get('exc')}, itertools.count{shape} "
            f"{len(ref)} values and then {exc} (of {case['n']} asked for)")


def _islice_overflow(case):
    """CPython's islice computes `next += step` in a signed ssize_t: with stop None and start + step > sys.maxsize it
    wraps and one value too many is yielded (islice(it, 1, None, sys.maxsize) on [0, 1, 2, 3] gives [1, 2]).  An upstream
    defect at the very edge of the range, inherited by Slice (non-negative arguments only); see ASSUMPTIONS."""
    args = case["args"]
    if len(args) != 3 or any(isinstance(a, str) for a in args):
        return False
    a, b, st = args
    return (b is None and isinstance(st, int) and 0 < st <= _MS and (a or 0) >= 0 and (a or 0) + st > _MS)


def _oracle_ext(case, res):
    op = case["op"]
    if op == "slice_args":
        if _islice_overflow(case):
            return None
        args = [_dec(a) for a in case["args"]]
        if not 1 <= len(args) <= 3:
            return None                     # not a call form of the property
        a, b, s = {1: [None, args[0], None], 2: args + [None], 3: args}[len(args)]
        name = f"{case['ctor']}({', '.join(map(repr, args))})"
        if any(isinstance(v, float) for v in (a, b)):
            return None
        rejected = res.get("e") == "LenaValueError" and res.get("phase") == "init"
        if isinstance(s, float) or (s is not None and s < 1):
            # "rejects other steps with LenaValueError at construction"
            return None if rejected else f"{name}: the step {s!r} must be rejected with LenaValueError at construction, got {res}"
        huge_index = any(v is not None and abs(v) > _MS for v in (a, b))
        if s is not None and s > _MS:
            # a positive step, but beyond itertools.islice: sliced correctly or rejected at construction, never later
            if rejected:
                return None
            if huge_index:
                return None
            xs = list(range(case["n"]))
            if "e" in res or res["r"] != xs[a:b:s]:
                return (f"{name} was accepted at construction but run gives {res} (a step is used correctly or "
                        f"rejected with LenaValueError at construction)")
            return None
        if huge_index:
            return None                     # beyond ssize_t: a limit of islice / deque, see ASSUMPTIONS
        xs = list(range(case["n"]))
        fk = f" given as a {case['flow']}" if case.get("flow") else ""
        if "e" in res:
            return f"{name} raised {res} on the flow {xs}{fk}"
        if res["r"] != xs[a:b:s]:
            return f"{name}.run({xs}{fk}) = {res['r']} but xs[start:stop:step] = {xs[a:b:s]}"
        if "after" in res and res["after"] != xs:
            return f"{name}.run(xs) with xs a {case.get('flow')} holding {xs}: after the run the caller's xs holds {res['after']}"
        return None
    if op == "eqrepr":
        return None                         # __eq__/__repr__ are outside the statement: correspondence only
    if op == "init_check":
        if case["el"] == "countfrom":
            # CountFrom(start, step) is itertools.count(start, step): it exists iff the reference exists
            if (res["r"] == "ok") != (res["ref"] == "ok"):
                return (f"CountFrom({_dec(case['start'])!r}, {_dec(case['step'])!r}) construction: {res['r']}, "
                        f"itertools.count: {res['ref']}")
        return None
    if op == "chunks_c":
        cs = case["cs"]
        if cs < 1:
            return None                     # the property speaks about chunk sizes >= 1
        if "e" in res:
            return f"RunningChunkBy({cs}, {case['container']}) raised {res}"
        xs = _cvals(case)
        kind = {"tuple": "tuple", "tuple_falsy": "tuple", "set": "set"}.get(case["container"], "list")
        ref = [{"k": kind, "v": sorted(set(xs[i:i + cs])) if kind == "set" else xs[i:i + cs]}
               for i in range(0, len(xs) - cs + 1)]
        if res["r"] != ref:
            return (f"RunningChunkBy({cs}, container {case['container']}).run({xs}) gives {res['r']}, the sliding "
                    f"windows in that container are {ref}")
        if "after" in res and res["after"] != _encs(list(_mk_flow(case.get("flow"), xs))):
            return (f"RunningChunkBy({cs}, container {case['container']}).run(xs) with xs a {case.get('flow')} holding "
                    f"{xs}: after the run the caller's xs holds {res['after']}")
        return None
    raise ValueError(op)


def _oracle_fam(case, res):
    """Every Slice object of the family - the constructed one and every copy.deepcopy of an object that had not been
    filled yet - fills exactly the slice of the values IT is fed with, whatever is done with the others; every run of
    any of them is the slice of its flow.  (A copy of an object that has already been filled: correspondence only.)"""
    if "e" in res:
        return f"family of Slice{_args(case)} objects: {res} (operations {case['ops']})"
    a, b, s = _triple(case)
    neg = any(v is not None and v < 0 for v in (a, b))
    legend = ("operations: ['c', i] = append copy.deepcopy(object i); [i, v] = object i .fill_into(element, v); "
              "[i, [flow]] = object i .run(flow); object 0 is the constructed one")
    fed, fresh = [[]], [True]
    evs = iter(res["ev"])
    for o in case["ops"]:
        if o[0] == "c":
            fresh.append(fresh[o[1]] and not fed[o[1]])
            fed.append(list(fed[o[1]]))
            continue
        k, e = next(evs)
        if isinstance(o[1], list):
            ref = o[1][a:b:s]
            if e != {"r": ref}:
                return (f"object {k} of a family of Slice({a},{b},{s}) objects: run({o[1]}) gave {e} but "
                        f"xs[start:stop:step] = {ref}; {legend}: {case['ops']}")
            continue
        if neg:
            continue
        pos = len(fed[k])
        fed[k].append(o[1])
        if not fresh[k]:
            continue
        sel = range(a or 0, pos + 1 if b is None else b, s or 1)
        if pos in sel:
            if e != "filled":
                return (f"object {k} of a family of Slice({a},{b},{s}) objects was fed with {fed[k]}: the value at "
                        f"index {pos} belongs to the slice {fed[k][a:b:s]} but the outcome of fill_into was {e!r}; "
                        f"{legend}: {case['ops']}")
        elif e == "stop":
            msg = _fill_stop_legit(a, b, s, pos)
            if msg:
                return f"object {k} of a family of Slice({a},{b},{s}) objects: {msg}; {legend}: {case['ops']}"
        elif e != "skipped":
            return (f"object {k} of a family of Slice({a},{b},{s}) objects was fed with {fed[k]}: the value at index "
                    f"{pos} is not in the slice {fed[k][a:b:s]} but the outcome of fill_into was {e!r}; {legend}: "
                    f"{case['ops']}")
    return None


_REF_NAME = {"slice": "xs[start:stop:step]", "reverse": "reversed(list(xs))", "chunks": "the sliding windows of xs",
             "chain": "itertools.chain(*iterables)", "countfrom": "itertools.count(start, step)"}


def _el_text(case):
    el = case["el"]
    if el == "slice":
        return f"Slice({case['start']}, {case['stop']}, {case['step']})"
    if el == "reverse":
        return "Reverse()"
    if el == "chunks":
        return f"RunningChunkBy({case['cs']}, container kind {case['container']})"
    if el == "chain":
        return f"Chain(*{_chain_xss(case)} as {case.get('kind', 'list')}s)"
    shape = case.get("cf", "pos2")
    return {"none": "CountFrom()", "pos1": f"CountFrom({case.get('start')})",
            "kw": f"CountFrom(start={case.get('start')}, step={case.get('step')})",
            "kwstep": f"CountFrom(step={case.get('step')})"}.get(shape, f"CountFrom({case.get('start')}, {case.get('step')})")


def _per_gen(ev, rest):
    """what each generator yielded over its life: the values of its events followed by what was collected at the
    end; and whether a value followed a StopIteration"""
    out = [[] for _ in rest]
    stopped, bad = set(), []
    for g, v in ev:
        if v is None:
            stopped.add(g)
        else:
            if g in stopped:
                bad.append(g)
            out[g].append(v)
    for g, r in enumerate(rest):
        if r and g in stopped:
            bad.append(g)
        out[g].extend(r)
    return out, bad


def _fill_stop_legit(a, b, s, p):
    """LenaStopFill while the value at position p is filled is legitimate only if no index >= p is selected"""
    if b is None:
        return f"LenaStopFill at index {p} although stop is None (every later index {a or 0}+k*{s or 1} is selected)"
    sel = range(a or 0, b, s or 1)
    if len(sel) and sel[-1] >= p:
        return f"LenaStopFill at index {p} although index {sel[-1]} would be selected"
    return None


def _oracle_reuse(case, res):
    """The property per call: whatever was done with the instance before, and whatever other generators of the same
    instance are alive, each run / call equals the Python reference of its own flow."""
    op = case["op"]
    if "e" in res:
        return f"{op} case raised {res}: {case}"
    if op == "sess":
        # the same schedule played on the reference objects (a fresh reference object per call)
        ref = _play(case, _ref_spawner(case))
        if _shared(case):
            if res["ev"] == ref["ev"] and res["left"] == ref["left"]:
                return None
            return (f"{_el_text(case)} called as in the schedule {case['ops']} yielded {res['ev']} and left "
                    f"{res['left']} in its iterators; itertools.chain(*iterables) in place of each call yields "
                    f"{ref['ev']} and leaves {ref['left']} ([g, v] = generator g yielded v, None = StopIteration)")
        if res["ev"] == ref["ev"] and res["rest"] == ref["rest"]:
            return None
        got, bad = _per_gen(res["ev"], res["rest"])
        want, _ = _per_gen(ref["ev"], ref["rest"])
        name = _el_text(case)
        starts = [o for o in case["ops"] if isinstance(o, list)]
        how = ""
        if case.get("vk") in LIFT_KINDS:
            how += (f"; an integer i in the flows stands for a container value (kind {case['vk']}; 7 stands for "
                    f"{_lift(case['vk'], 7)!r})")
        if case.get("same"):
            how += f"; runs that name equal flows are given ONE {case.get('fk')} object (the caller's container)"
        elif case.get("fk"):
            how += f"; the flows are given as {case['fk']}s"
        for g, (x, y) in enumerate(zip(got, want)):
            if x != y:
                flow = "" if case["el"] in ("chain", "countfrom") else f" on the flow {_sh(starts[g])}"
                return (f"call number {g + 1} of one {name} instance{flow} yielded {_sh(x)}, but {_REF_NAME[case['el']]} "
                        f"gives {_sh(y)}{_first_diff(x, y)} (schedule: {_sched(case['ops'])}; a list = new run/call of "
                        f"the instance, g = next of generator g{how})")
        return (f"{name}: generator(s) {sorted(set(bad))} yielded after StopIteration or stopped at a different point "
                f"than the reference: events {_sh(res['ev'])} vs reference {_sh(ref['ev'])} (schedule "
                f"{_sched(case['ops'])}{how})")
    if op == "twins":
        ref = _play_twins(case, _ref_spawner(case), _ref_spawner(case))
        if res == ref:
            return None
        what = "instances" if not case.get("copy") else (
            "instances, the second a copy.deepcopy of the first" + (
                "" if case.get("pre") is None else f" taken after a run of the first had yielded {case['pre']} values,"))
        return (f"two {_el_text(case)} {what} used in turn yielded {_sh(res.get('a', res))} and {_sh(res.get('b', []))}, "
                f"the references {_REF_NAME[case['el']]} give {_sh(ref['a'])} and {_sh(ref['b'])}")
    a, b, s = _triple(case)
    if op == "fill_trace":
        fed = _vals(case)
        ref = _encs(fed[a:b:s])
        if res["r"] != ref:
            return (f"Slice({a},{b},{s}).fill_into fed with {fed} (going on after LenaStopFill) filled {res['r']} "
                    f"but the slice is {ref}; outcomes {res['out']}")
        odd = [o for o in res["out"] if o not in ("filled", "skipped", "stop")]
        if odd:
            return f"Slice({a},{b},{s}).fill_into: {odd[0]} (outcomes {res['out']})"
        if "stop" in res["out"]:
            return _fill_stop_legit(a, b, s, res["out"].index("stop"))
        return None
    if op == "fill2":
        for k, fed in (("a", _flow(0, case["n"])), ("b", _flow(1, case["n2"]))):
            ref = fed[a:b:s]
            r = res[k]
            if r["r"] != ref:
                return (f"two Slice({a},{b},{s}) instances filled in turn: instance {k} fed with {fed} filled {r['r']} "
                        f"but the slice is {ref}")
            if r["stop"] is not None:
                msg = _fill_stop_legit(a, b, s, r["stop"])
                if msg:
                    return f"instance {k}: {msg}"
        return None
    if op == "slice_inst":
        neg = any(v is not None and v < 0 for v in (a, b))
        fed, outs = [], []
        for i, (o, e) in enumerate(zip(case["ops"], res["ev"])):
            if isinstance(o, list):
                ref = o[a:b:s]
                if e != {"r": ref}:
                    return (f"Slice({a},{b},{s}).run({o}), operation number {i + 1} on this instance, gave {e} but "
                            f"xs[start:stop:step] = {ref}; all operations: {case['ops']} (a list = run on that flow, "
                            f"a number = fill_into of that value)")
            else:
                fed.append(o)
                outs.append(e)
        if neg:
            return None     # fill_into with negative arguments is outside the property
        ref = fed[a:b:s]
        if res["filled"] != ref:
            return (f"Slice({a},{b},{s}).fill_into interleaved with run of the same instance: fed {fed}, filled "
                    f"{res['filled']}, the slice is {ref}; operations {case['ops']}")
        odd = [o for o in outs if o not in ("filled", "skipped", "stop")]
        if odd:
            return f"Slice({a},{b},{s}).fill_into: {odd[0]}; operations {case['ops']}"
        if "stop" in outs:
            return _fill_stop_legit(a, b, s, outs.index("stop"))
        return None
    raise ValueError(op)


def nontrivial(case, res):
    if case["op"] in ("sess", "slice_inst", "fam"):
        return "e" in res or bool(res.get("ev"))
    if case["op"] in ("twins", "fill2"):
        return "e" in res or bool(res.get("a")) or bool(res.get("b"))
    if case["op"] in ("eqrepr", "init_check"):
        return True
    return "e" in res or bool(res.get("r"))


def classify(case, res):
    extra = (["values:" + case["vk"]] if case.get("vk") in LIFT_KINDS else []) + \
            (["same-container"] if case.get("same") else []) + (["deepcopy"] if case.get("copy") else []) + \
            (["huge"] if case.get("huge") else [])
    return _classify(case, res) + extra


def _classify(case, res):
    op = case["op"]
    if op == "chain_v":
        return ["chain_v:%d-iterables" % len(case["lens"]), "chain_v:" + case.get("kind", "list")]
    if op == "fam":
        return ["fam:" + case.get("tpl", "")]
    if op == "slice":
        a, b = case["start"], case["stop"]
        def k(v):
            return "N" if v is None else ("-" if v < 0 else "+")
        return [f"slice:{k(a)}{k(b)}", f"slice:step={'N' if case['step'] is None else min(case['step'], 5)}",
                "slice:" + ("error" if "e" in res else ("empty" if not res["r"] else "nonempty")),
                "flow:" + case.get("flow", "iter")] + (["long"] if case["n"] > 14 else [])
    if op == "fill_into":
        return ["fill_into:" + ("stopfill" if res.get("stop") is not None else "nostop"),
                "fill_into:form%d" % case.get("form", 3)]
    if op == "sess":
        return [f"sess:{case['el']}", "flow:" + case.get("fk", "iter")] + \
               (["cf:" + case["cf"]] if "cf" in case else [])
    if op == "twins":
        return ["twins"]
    if op == "slice_inst":
        return ["slice_inst:form%d" % case.get("form", 3)]
    if op == "slice_args":
        big = any(isinstance(a, int) and abs(a) >= _MS for a in case["args"])
        return [f"slice_args:{case['ctor']}" + (":big" if big else ""),
                "slice_args:" + (res.get("e", "ok") + ":" + res.get("phase", ""))]
    if op in ("eqrepr", "init_check"):
        return [op]
    if op == "chunks_c":
        return ["chunks_c"]
    if op in ("fill_trace", "fill2"):
        return [f"{op}:form{case.get('form', 3)}"]
    if op == "countfrom":
        kinds = sorted({type(_dec(v)).__name__.lstrip("_") for v in _cf_eff(case)})
        return ["countfrom:" + case.get("cf", "pos2"), "countfrom:numbers:" + "+".join(kinds)] + \
               (["countfrom:raises-midway"] if "exc" in res else [])
    if op in ("reverse", "chunks"):
        return [op, "flow:" + case.get("flow", "iter")]
    return [op]


def signature(case, failure):
    if case.get("op") == "slice_args" and len(case["args"]) == 3 and case["args"][2] in ("f:inf", "f:nan"):
        return "slice-step-inf-nan-wrong-exception"             # notes/C17_defect_3 (exactly these two steps)
    op = case.get("op")
    if case.get("huge"):
        return f"{op}:{case.get('el', '')}:huge:{case.get('flow', case.get('fk', case.get('kind', 'iter')))}"
    if op == "chain_v":
        return f"chain_v:{case.get('kind')}:{case.get('vk')}:{len(case['lens'])}:{bool(case.get('alias'))}"
    if op == "fam":
        return f"fam:{case.get('tpl')}:{case.get('step')}:{case.get('form', 3)}"
    c = dict(case)
    if "ops" in c:
        # one report per element configuration and schedule family, not per schedule
        c.pop("ops")
    return f"{c.pop('op')}:" + ",".join(f"{k}={c[k]}" for k in sorted(c))


def shrink(case):
    if case.get("vk") in LIFT_KINDS:
        yield {k: v for k, v in case.items() if k != "vk"}
    if case["op"] == "fam":
        ops = case["ops"]
        for i in reversed(range(len(ops))):
            if ops[i][0] != "c":
                yield dict(case, ops=ops[:i] + ops[i + 1:])
        for i, o in enumerate(ops):
            if o[0] != "c" and isinstance(o[1], list) and o[1]:
                yield dict(case, ops=ops[:i] + [[o[0], o[1][:-1]]] + ops[i + 1:])
    elif "ops" in case:
        ops = case["ops"]
        for i in reversed(range(len(ops))):
            # dropping a `next`; dropping a run/call only if no later operation refers to a generator
            if not isinstance(ops[i], list) or case["op"] == "slice_inst" or \
                    not any(isinstance(o, int) for o in ops[i + 1:]):
                yield dict(case, ops=ops[:i] + ops[i + 1:])
        for i, o in enumerate(ops):
            if isinstance(o, list) and o:
                yield dict(case, ops=ops[:i] + [o[:-1]] + ops[i + 1:])
    for k in ("n", "n2"):
        if k in case and case[k] > 40:
            yield dict(case, **{k: case[k] // 2})
            yield dict(case, **{k: case[k] - case[k] // 8})
        if k in case and case[k] > 0:
            yield dict(case, **{k: case[k] - 1})
    if isinstance(case.get("lens"), list):
        for i, l in enumerate(case["lens"]):
            if case["op"] == "chain_v":
                yield dict(case, lens=case["lens"][:i] + case["lens"][i + 1:])
            if l > 40:
                yield dict(case, lens=case["lens"][:i] + [l // 2] + case["lens"][i + 1:])
            if l > 0:
                yield dict(case, lens=case["lens"][:i] + [l - 1] + case["lens"][i + 1:])
    if case["op"] == "slice_args":
        args = case["args"]
        for i, v in enumerate(args):
            if isinstance(v, int) and abs(v) > 8 and abs(v) < _MS - 8:
                yield dict(case, args=args[:i] + [v // 2] + args[i + 1:])
            elif isinstance(v, int) and v != 0 and abs(v) <= 8:
                yield dict(case, args=args[:i] + [v - 1 if v > 0 else v + 1] + args[i + 1:])
    for k in ("start", "stop"):
        v = case.get(k)
        if isinstance(v, int) and abs(v) > 40:
            yield dict(case, **{k: v // 2 if v > 0 else -((-v) // 2)})
        if isinstance(v, int) and v != 0:
            yield dict(case, **{k: v - 1 if v > 0 else v + 1})
    if isinstance(case.get("step"), int) and case["step"] > 1:
        yield dict(case, step=case["step"] - 1)

# ---- MANIFEST texts ------------------------------------------------------------------------
LEVEL_TEXT = ("Lean 4 theorems about a transcribed model of Slice/Reverse/Chain/CountFrom/RunningChunkBy, for all "
              "indices, steps and finite flows (no bound); the model is tied to /repo by a correspondence check that "
              "enumerates the property's whole stated scope (start,stop in {None,-7..7}, step in {None,1..4}, len 0..10; "
              "fill_into for all non-negative combinations) on every run, plus a direct Python-slicing oracle on the real code. "
              "Repeated and interleaved use of one instance is modelled as a state machine (sessions): one theorem says that "
              "generators advanced in any interleaving are independent provided creating one leaves the instance unchanged; "
              "that the real elements satisfy the proviso is established by the correspondence and the oracle, which drive "
              "them through the same schedules (not by a theorem: in the model it holds by transcription). The rest of the anchored code is modelled too (Model/C17Ext.lean): the sys.maxsize limits "
              "of islice/deque, the call forms and ISlice, __eq__/__repr__, type checks at construction, the containers of "
              "RunningChunkBy, Chain over one-shot iterators shared by all calls (conservation theorem). Adversary round "
              "(Model/C17Adv.lean, Props/C17Adv.lean): families of objects made with copy.deepcopy (an object is disturbed "
              "neither by the others nor by being copied; a copy behaves as its original would; every fresh copy of a Slice "
              "fills the slice of the values it is fed with) and naturality theorems (Slice.run on every branch, fill_into, "
              "Reverse, Chain, RunningChunkBy commute with any replacement of the values: they never look into them), "
              "exercised on flows of tuples/lists/strings/dicts; the caller's container is shared between runs and read "
              "again after each run; flows of up to 131073 values in the quick tier. Seed round I/J (Model/C17Num.lean, "
              "Props/C17Num.lean): CountFrom for every kind of number - itertools.count is repeated addition in the "
              "arithmetic of its arguments (countFromG over any type with +; the laws of repeated addition determine the "
              "sequence), start + i*step in exact arithmetic (any commutative ring, the rationals), the integer model is "
              "the instance for ints; floats whose arithmetic rounds are checked on the real code against the real "
              "itertools.count only (value equality).")
LEVEL_NOTE = ("Trusted: Lean kernel (+ propext, Classical.choice, Quot.sound), the hand transcription validated by the "
              "exhaustive-in-scope correspondence run, itertools/deque semantics as transcribed, the JSON protocol. "
              "THEOREMS lists the 47 theorems that carry the property; 43 structural/bridging/definitional lemmas are in "
              "AUX_THEOREMS (audited, not counted). Statelessness of the real elements between runs, that copies share "
              "nothing and that the caller's container is left unchanged are checked, not proved.")
TECHNIQUE = "Lean 4 proof over hand-written model + exhaustive-in-scope correspondence check"
DESIGN_REF = "DESIGN.md section 3, C17"
