"""C05 — an analysis gives the same result whether it is driven by run or by fill.

Real code: lena.core.Sequence / FillComputeSeq / FillSeq / Split (fill_compute branches, LenaStopFill handling),
lena.core.adapters (Call, Run, FillInto, FillCompute, SourceEl), Filter.fill_into/run, Slice.fill_into/run, RunIf.run.
Model: lean/LenaModel/Model/C05.lean (+ Flow.lean, C17.lean), theorems lean/LenaModel/Props/C05.lean.

Observable of a driver (both sides): the values yielded and the exception class that ended it (if any); for
constructors: exception class, phase "init".  The three drivers of one chain `pre* acc post*`:
  seq   = list(Sequence(*chain).run(iter(flow)))
  fill  = FillComputeSeq(*chain) filled value by value until LenaStopFill, then list(compute())
          (fillseq = the same through an explicit FillSeq(*pre, acc), acc.compute() and Sequence(*post))
  split = list(Split([tuple(chain)], bufsize).run(iter(flow)))   for every bufsize in {1..n+1, 1000, None}
"""
import functools
import itertools
import operator
import warnings

from harness.common import exc_name

warnings.filterwarnings("ignore")

PID = "C05"
TITLE = "An analysis gives the same result whether it is driven by run or by fill"
LEAN_MODULES = ["LenaModel.Props.C05", "LenaModel.Props.C05Sel"]
LEAN_SOURCES = ["LenaModel/Model/C17.lean", "LenaModel/Model/Flow.lean", "LenaModel/Model/C05.lean",
                "LenaModel/Model/C05Sel.lean", "LenaModel/Props/C05Sel.lean",
                "LenaModel/Lemmas/C05.lean", "LenaModel/Props/C05.lean", "LenaModel/Lemmas/C17.lean",
                "LenaModel/Props/C17.lean"]
DRIVER = "drivers/C05.lean"
THEOREMS = [
    # driver-consistency of each pre-processing element kind (sentence 1, per element)
    "Lena.C05.call_consistent",
    "Lena.C05.filter_consistent",
    # ... for a Filter built from a selector of every form (Selector / Or / And / Not, raise_on_error at any level)
    "Lena.C05.selFilter_consistent",
    "Lena.C05.selFilter_stage_agree",
    "Lena.C05.selector_roe_false_total",
    "Lena.C05.not_roe_false_total",
    "Lena.C05.filter_roe_false_total",
    "Lena.C05.selector_roe_true",
    "Lena.C05.runif_consistent",
    "Lena.C05.slice_consistent",
    "Lena.C05.slice_consistent_pyslice",
    "Lena.C05.stage_consistent",
    "Lena.C05.stage_consistent_strong",
    # the three drivers (sentence 1): the statement as written is refuted; the proved parts
    "Lena.C05.three_drivers_agree_full_false",
    "Lena.C05.three_drivers_agree_partial",
    "Lena.C05.seq_eq_fill_partial",
    "Lena.C05.seq_eq_fill_spec",
    "Lena.C05.preSafe_iff",
    "Lena.C05.fill_eq_split",
    "Lena.C05.three_drivers_agree_no_slice",
    "Lena.C05.three_drivers_agree_no_slice_inputs",
    "Lena.C05.split_branches_independent",
    "Lena.C05.split_branch_eq_seq",
    # ... among sibling branches of any type (sequence, source, fill_request), in any order
    "Lena.C05.split_mixed_branch_independent",
    "Lena.C05.split_mixed_branch_eq_seq",
    "Lena.C05.split_mixed_source",
    "Lena.C05.splitRunM_fc_only",
    # from the real constructors to the chain, end to end on the driver's functions
    "Lena.C05.preKind_converts",
    "Lena.C05.callable_converts",
    "Lena.C05.construct_chain",
    "Lena.C05.constructors_only_lenaTypeError",
    "Lena.C05.spec_preKind",
    "Lena.C05.spec_drivers_agree_partial",
    "Lena.C05.fillComputeSeq_rejects",
    # outside the property's kinds: what holds precisely
    "Lena.C05.delivered_same",
    "Lena.C05.count_dual",
    "Lena.C05.neg_slice_fillRun",
    "Lena.C05.split_fill_eq_run",
    # sentence 2: the behaviour of the exposed method is that of the wrapped one; the constructors are the adapters
    "Lena.C05.call_preserves_meaning",
    "Lena.C05.run_preserves_meaning",
    "Lena.C05.fillInto_preserves_meaning",
    "Lena.C05.fillCompute_preserves_meaning",
    "Lena.C05.toStage_is_run_adapter",
    "Lena.C05.toPre_is_fillInto_adapter",
]
# true by unfolding / model-internal glue / superseded names: audited, not counted as obligations of the property
AUX_THEOREMS = [
    "Lena.C05.seq_eq_fill",
    "Lena.C05.three_drivers_agree",
    "Lena.C05.spec_drivers_agree",
    "Lena.C05.runIf_breaksFlow",
    "Lena.C05.bindS_breaksFlow",
    "Lena.C05.inScopeB_iff",
    "Lena.C05.nodata_dropped",
    "Lena.C05.neg_slice_fill_into",
    "Lena.C05.adapter_accepts_iff",
    "Lena.C05.adapter_preserves",
    "Lena.C05.fillInto_accepts_every_callable",
    "Lena.C05.run_accepts_every_callable",
    "Lena.C05.call_accepts_every_callable",
    "Lena.C05.call_accepts_iff",
    "Lena.C05.call_rejects",
    "Lena.C05.call_preserves",
    "Lena.C05.sourceEl_accepts_iff",
    "Lena.C05.sourceEl_rejects",
    "Lena.C05.sourceEl_preserves",
    "Lena.C05.run_accepts_iff",
    "Lena.C05.run_rejects",
    "Lena.C05.run_preserves",
    "Lena.C05.fillInto_accepts_iff",
    "Lena.C05.fillInto_rejects",
    "Lena.C05.fillInto_preserves",
    "Lena.C05.fillCompute_accepts_iff",
    "Lena.C05.fillCompute_rejects",
    "Lena.C05.fillCompute_preserves",
]
TRUSTED = [
    "Lean 4.33.0 kernel; axioms limited to propext, Classical.choice, Quot.sound (audited by #print axioms on every run)",
    "hand transcription of FillSeq.__init__ (_Fill chaining), FillComputeSeq.__init__/compute, FillInto.fill_into/"
    "_run_fill_into, Run._call_run/_fc_run, Filter.fill_into/run, Slice.fill_into/run (Lena.C17), RunIf.run, "
    "Sequence.__init__/run, Split.run (all four branch types: processBufM/finalM/splitLoopM; the fill_compute part "
    "with its LenaStopFill handling also as processBuf/splitLoop), _get_seq_with_type, Source.__call__, the fill/request "
    "use of FillRequestSeq and the five adapter constructors into LenaModel/Model/C05.lean, validated by this "
    "correspondence check",
    "Python generator semantics as modelled by streams (values yielded + terminating exception), itertools.islice as "
    "transcribed (validated likewise)",
    "JSON line protocol encoders (harness/props/c05.py, drivers/C05.lean), including the representation of None by quot 0 0",
    "the hand-written capability tables and method denotations of the element vocabulary (Spec.toObj, synMeths), compared "
    "with the real objects by ops caps / adapter on every run",
    "the Python reference for PreSafe (ref_gen) and the documented adapter rule (adapter_reference) used by the oracle",
    "the Prop-level hypotheses BreaksFlow / PreWF / AccNoStop have no executable twin: they are proved for the modelled "
    "vocabulary (runIf_breaksFlow, bindS_breaksFlow, accOf_noStop, spec_preKind) and assumed of other elements",
]
ASSUMPTIONS = [
    "the three drivers are compared on finite flows that end normally, handed over as a list iterator, a list, a tuple or "
    "a generator; the consumer drains the result (a flow that raises or is infinite distinguishes the drivers — Split.run "
    "keeps reading buffers, islice stops pulling: C02); only op `stage` feeds single elements with an input that raises",
    "value alphabet of the flows: ints, strings, lists, tuples, (data, context) pairs with string-keyed contexts, None "
    "(model: the otherwise unused value quot 0 0); no bool / float INPUT values (the accumulators' arithmetic on them is not "
    "modelled; Mean's float result is compared as float(n)/float(d) computed from the model's exact pair)",
    "a callable is whatever callable(el) accepts: every function of the vocabulary is also handed over as a lambda, a "
    "functools.partial (positional / keyword / of a staticmethod), a bound method, an instance with __call__ (also one that is false / has len 0), a function "
    "with further optional / variadic / keyword parameters, a method-wrapper, a class whose __new__ returns the result "
    "(key `form`: the model sees the same function, the form is invisible to it by construction: Caps.callable); "
    "callables implemented in C (int, abs, len, max, min, operator.neg, itemgetter(0), list, tuple, sorted, sum, "
    "methodcaller, attrgetter, a bound str.join; several have no introspectable signature) are compared between the "
    "real drivers and in the adapter table only (their semantics is Python's, not modelled)",
    "callables of the vocabulary are pure functions of the value (they may raise, return None, 0, [], ()); selectors are "
    "pure and may return non-bool truthy/falsy values; Variable updates the context of the value in place (the harness "
    "hands fresh copies to every driver; aliasing/deep copies of Split buffers and copy_buf are C04's, here only exercised: "
    "copy_buf=False is generated for branches that do not change their values)",
    "Python attribute lookup (hasattr/callable/isinstance Split/is None) is represented by capability flags; the "
    "hand-written flag tables of Spec.toObj are compared with the real objects (op caps); method names are strings (a "
    "non-string name makes getattr raise Python's TypeError: outside the statement)",
    "element objects are used once (fresh objects per driver). A RunIf whose inner sequence keeps state between its "
    "one-value runs (Count, an accumulator inside) is NOT covered by the model nor by spec_drivers_agree (Spec.InScope "
    "requires a stateless inner sequence: the model runs the inner sequence afresh per value); such chains are generated "
    "and the real drivers compared with each other (oracle only)",
    "accumulators: the theorems hold for every state machine Acc (fill may raise, compute returns its values or raises, "
    "never LenaStopFill: AccNoStop, proved for the four modelled ones, assumed of the others); modelled and compared: "
    "Sum, Mean, StoreFilled, FillCompute(Count); oracle only (real drivers against each other): DSum, "
    "VarianceMeanCount, Histogram, a nested FillComputeSeq, FillCompute(el, fill=, compute=) with custom names; explicit "
    "Call/Run/FillInto objects as chain elements likewise",
    "an accumulator Count is wrapped in FillCompute(Count()) (DESIGN.md section 6); a bare Count at the accumulator position "
    "is checked against theorem count_dual; Count as a pre-processing element (counting fill_into) is not modelled and "
    "never generated in a chain (the adapter table shows the model gives its fill_into no meaning)",
    "a Split used through its own fill/compute (dual interface) is compared with Split.run only when no branch stops "
    "(theorem split_fill_eq_run; notes/C05_observation_split_fill.md)",
    "'a branch of a Split': the other branches may be of any type (op msplit: sequence, source, fill_request siblings "
    "before / after / around the chain, every bufsize). The statement checked is about the chain only: the values it "
    "yields inside the Split (picked out by a tag: a final Variable('B<i>') writes the branch index into the context; "
    "untagged chains: their results must occur in the output in order) are those of the FillComputeSeq filled alone "
    "and of the Sequence; what the siblings themselves yield is C03's / C16's (modelled here, splitRunM, and compared, "
    "but not demanded by the oracle); the statement is made when no branch raises when driven alone (then Split.run "
    "must not raise either). Model: sequence branches and the post-processing of fill_request branches must be "
    "stateless (a Stage), the fill/request element is the synthetic class (real FillRequest(Sum/StoreFilled, reset=..) "
    "siblings: oracle only); values are immutable in the model, i.e. every branch sees the buffer as read — which is "
    "what copy_buf=True promises; a sibling that changes contexts in place (Variable) makes a missing deep copy "
    "visible in the chain's results",
    "copies: the statement compares three drivers of a chain whose elements are used from their construction on (a "
    "Sequence run over the flow, a Split branch, a FillComputeSeq / FillSeq filled value by value with THE flow); a "
    "FillComputeSeq that is filled with k >= 1 values, copied with copy.deepcopy and continued on the copy is a history "
    "the statement does not name (seed C05-K: a Slice.__deepcopy__ that rebuilds the element from its arguments): lena "
    "itself never copies a partly filled chain - SplitIntoBins (init_bins(deepcopy=True)), MapBins (a fresh copy of its never-run sequence per "
    "cell) and Vectorize copy sequences that have received nothing, Split.run with copy_buf copies the VALUES of the buffer, not the elements - "
    "and nothing documents what the copy of a used Slice is (C17 recorded the same judgement: starting afresh would be "
    "as legitimate; itertools objects cannot be copied at all from Python 3.14 on). Outside the statement, no oracle "
    "clause; CORRESPONDENCE ONLY: /repo's deepcopy carries the state of every element (Slice position, accumulator), "
    "so 'fill k; deepcopy; fill the rest into the copy; compute' is compared with the model's fillRun of the whole flow "
    "(every k for chains with a Slice, k = n/2 otherwise) and a change is reported as a correspondence break without a "
    "failing input. The copy of a chain that has received nothing (k = 0, what lena itself makes) is among the points, "
    "compared in the same way",
    "selectors: a Filter is built from every documented form of a selector - a plain predicate (the modelled case), a "
    "class, a context string, a list (Or) / tuple (And) of selectors, Not, and ready Selector / Or / And / Not objects made "
    "by the caller with raise_on_error False / True / default, nested (key `sel`) - with predicates that raise TypeError on data "
    "that is not an int and flows that contain such values (seed C05-G: Filter.fill_into calling the raw predicate behind a "
    "Selector(f, raise_on_error=False)). The statement demanded is the property's own (run, fill_into inside FillSeq / "
    "FillComputeSeq, a Split branch agree on the values and on the exception that ends them); the Python reference "
    "(sel_value, from the documentation of Selector: an exception means 'not selected' iff raise_on_error is false; the "
    "raise_on_error of a container reaches its raw items only) serves PreSafe alone. The Lean model knows predicates as "
    "total functions Value -> Except Exc Bool (Filter.fill_into / run over ANY such function: filter_consistent); the "
    "Selector layer (Selector.__init__/__call__, Or, And, Not: conversion of containers, raise_on_error) is transcribed in "
    "Model/C05Sel.lean (SelArg.evalFilter) and compared with the real Filter at the element level (op stage: fill_into "
    "value by value and run, also with an input that raises); inside chains / Splits Filters with a `sel` are ORACLE ONLY "
    "(the Spec vocabulary of Model/C05.lean is left unchanged)",
    "FillRequest and FillRequestSeq as such belong to C16; FillSeq "
    "filled value by value has no model of its own: fillRun stands for FillComputeSeq and for FillSeq+compute+Sequence(post), "
    "both real variants are compared with it",
    "sentence 1 as written is false of the code (look-ahead value of Slice.fill_into: theorem "
    "three_drivers_agree_full_false, notes/C05_judgement_lookahead.md); the drivers are required to agree when no "
    "pre-processing element raises on the flow (PreSafe, decided here by an independent Python reference) or when there is "
    "no Slice before the accumulator; with a Slice and a raising element only 'both complete => equal' is demanded "
    "(uncovered gap: chains with a Slice in which an element raises on a value that both drivers evaluate)",
    "sentence 2 is CHECKED (complete adapter x capability x method-name table, the adapter's method against the wrapped "
    "method invoked directly, also on the 2nd and 3rd invocation for Call) rather than proved: the Lean side are dispatch "
    "tables (AUX_THEOREMS) plus denotations of the bindings whose evaluation on samples is compared with the real adapters; "
    "SourceEl has labels only",
    "two defects found by this check are fixed in /repo (0ff1b62 Run(None, run=<not callable>) -> LenaTypeError, c6c2b9f "
    "FillInto.__repr__): notes/C05_defect_1, notes/C05_defect_2; model and oracle expect the fixed behaviour",
]
RULE = ("exhaustive: every pre-processing sequence of length <= 2 over representative elements of the property's kinds "
        "(callable, Variable, Filter, non-negative Slice, RunIf incl. its constructor variants, a second flow-breaking "
        "Run element that yields two values per value) x every accumulator x fixed flows x bufsize in {1..n+1, 1000, "
        "None}; a bare Count as accumulator (dual interface); chains without a FillCompute element; the complete "
        "adapter x capability x method-name table on synthetic classes (Call, Run, FillInto, FillCompute, SourceEl) and "
        "on the real element kinds; every element x 6 flows x {input ends normally, input raises} for the two faces "
        "of one element (op stage); FillSeq.__init__ on all pairs of 14 element kinds; Split.__init__ (not a list, "
        "bufsize 0/-1); the sibling pattern for Split.run (tuple / prebuilt FillComputeSeq / bare element branches) and "
        "for Split.fill+compute; every form of a callable (12 forms) and 14 C callables as pre-/post-processing "
        "element, inside a RunIf, in FillSeq, as a Split branch and in the adapter table; a Split with a sibling of "
        "every type (sequence with/without a context-changing Variable, End, Slice; source from a list / a generator "
        "function; fill_request synthetic / real FillRequest) before, after and on both sides of three chains, "
        "tagged and untagged, every bufsize, flow with contexts and empty flow; "
        "a Filter from 32 representative selectors (every form, both values of raise_on_error, nested) x 3 flows with "
        "values on which the predicates raise x bufsizes, alone / between a callable and a Slice / inside a RunIf / in the "
        "post-processing part / as a Split branch next to a stopping sibling and a sequence sibling / op stage. "
        "sampled (seeded): Splits of 2-4 branches of random types (at least one chain) in random order, random "
        "bufsize, tags, prebuilt / bare branches, copy_buf=False for branches that change nothing; "
        "chains pre^{0..3} acc post^{0..3} with random elements in random callable forms (also "
        "elements outside the property's kinds: constructor errors), flows of length 0..8 of ints, (data, context) "
        "pairs and mixed values; Splits of 2-4 fill_compute branches with early-stopping siblings, run and filled; "
        "single elements on random flows; 40 % of the sampled Filters are built from a random selector of any form. Non-trivial: a chain with at least one pre- or post-processing element and a "
        "non-empty result, an accepted adapter, a stage that fills something.")
CASE_TIMEOUT = 10

# ----------------------------------------------------------------------------------------
# values: JSON <-> Python (same encoding as C01)

def dec(j):
    """JSON value -> fresh Python value (tuples and dicts are tagged)"""
    if isinstance(j, list):
        return [dec(x) for x in j]
    if isinstance(j, dict):
        if "t" in j:
            return tuple(dec(x) for x in j["t"])
        if "d" in j:
            return {k: dec(v) for k, v in j["d"].items()}
        if "none" in j:
            return None
        raise ValueError(j)
    return j


def enc(v):
    if type(v) is int or type(v) is str:
        return v
    if v is None:
        return {"none": True}
    if type(v).__name__ == "histogram":
        return {"hist": [enc(list(map(list, v.edges)) if isinstance(v.edges[0], (list, tuple)) else list(v.edges)),
                         enc(_tolist(v.bins))]}
    if type(v) is list:
        return [enc(x) for x in v]
    if type(v) is tuple:
        return {"t": [enc(x) for x in v]}
    if type(v) is dict:
        return {"d": {str(k): enc(x) for k, x in v.items()}}
    if type(v) is float:
        return {"f": repr(v)}
    if isinstance(v, tuple):                     # named tuples of the oracle-only accumulators
        return {"t": [enc(x) for x in v], "cls": type(v).__name__}
    if type(v).__name__ == "Decimal":
        return {"dec": str(v)}
    return {"obj": type(v).__name__}


def _tolist(b):
    return [_tolist(x) for x in b] if isinstance(b, (list, tuple)) else b


def model_value(j):
    """a model reply value in the encoding of `enc` ({"q":[n,d]} is the float float(n)/float(d))"""
    if isinstance(j, list):
        return [model_value(x) for x in j]
    if isinstance(j, dict):
        if "q" in j:
            n, d = j["q"]
            return {"f": repr(float(n) / float(d))}
        if "t" in j:
            return {"t": [model_value(x) for x in j["t"]]}
        if "d" in j:
            return {"d": {k: model_value(v) for k, v in j["d"].items()}}
    return j


def observe(thunk):
    """what a draining consumer sees"""
    out = []
    try:
        it = thunk()
        for v in it:
            out.append(enc(v))
    except Exception as e:
        return {"r": out, "t": exc_name(e)}
    return {"r": out, "t": None}


# ----------------------------------------------------------------------------------------
# the element vocabulary

def _need_int(d):
    if type(d) is not int:
        raise TypeError("int expected")
    return d


def _inc(d):
    return _need_int(d) + 1


def _neg(d):
    return -_need_int(d)


def _mod3(d):
    return _need_int(d) % 3


def _boom(d):
    if _need_int(d) == 13:
        raise ValueError("boom")
    return d


def _ident(d):
    return d


def _wrap(d):
    return [d]


ON_DATA = {"inc": _inc, "neg": _neg, "mod3": _mod3, "boom": _boom, "ident": _ident, "wrap": _wrap}


def _has_context(v):
    return isinstance(v, tuple) and len(v) == 2 and isinstance(v[1], dict)


def make_callable(f):
    """plain callable of the vocabulary: ident and wrap act on the whole value, the others on the data part"""
    g = ON_DATA[f]
    if f in ("ident", "wrap"):
        def whole(v):
            return g(v)
        whole.__name__ = "call_" + f
        return whole

    def on_data(v):
        if _has_context(v):
            return (g(v[0]), v[1])
        return g(v)
    on_data.__name__ = "call_" + f
    return on_data


# ---- the forms a callable can take -----------------------------------------------------------
# The property speaks of "callables": whatever `callable(el)` accepts.  The same function of the vocabulary is handed
# over as a def, a lambda, a functools.partial (positional / keyword), a bound method, an instance with __call__,
# a function with further optional / variadic parameters, a method-wrapper, a class whose __new__ returns the result.

CALL_FORMS = ["def", "lambda", "partial", "partialkw", "method", "callobj", "defaults", "varargs", "kwargs", "wrapper",
              "newclass", "staticm", "falsyobj", "emptyobj"]


def _apply2(f, v):
    return f(v)


def _applykw(v, f=None):
    return f(v)


class _Holder(object):
    def __init__(self, f):
        self._f = f

    def apply(self, v):
        return self._f(v)

    @staticmethod
    def sapply(f, v):
        return f(v)


class _CallObj(object):
    def __init__(self, f):
        self._f = f

    def __call__(self, v):
        return self._f(v)


class _FalsyCallObj(_CallObj):
    """a callable object that is false in a boolean context"""
    def __bool__(self):
        return False


class _EmptyCallObj(_CallObj):
    """a callable object with len() == 0 (false in a boolean context, too)"""
    def __len__(self):
        return 0


def with_form(base, form):
    """the callable `base` (a function of one value) in another of the forms Python has for callables"""
    if form in (None, "def"):
        return base
    if form == "lambda":
        return lambda v: base(v)
    if form == "partial":
        return functools.partial(_apply2, base)
    if form == "partialkw":
        return functools.partial(_applykw, f=base)
    if form == "method":
        return _Holder(base).apply
    if form == "staticm":
        return functools.partial(_Holder.sapply, base)
    if form == "callobj":
        return _CallObj(base)
    if form == "falsyobj":
        return _FalsyCallObj(base)
    if form == "emptyobj":
        return _EmptyCallObj(base)
    if form == "defaults":
        def with_defaults(v, scale=1, *, opt=None):
            return base(v)
        return with_defaults
    if form == "varargs":
        def with_varargs(*args):
            return base(*args)
        return with_varargs
    if form == "kwargs":
        def with_kwargs(v, **kw):
            return base(v)
        return with_kwargs
    if form == "wrapper":
        return base.__call__                # a method-wrapper (C level) around the Python function
    if form == "newclass":
        class ViaNew(object):
            def __new__(cls, v):
                return base(v)
        return ViaNew
    raise ValueError(form)


# callables implemented in C (many have no introspectable signature): the semantics is Python's own
# (none whose result depends on an object's address: str/repr of an iterator)
BUILTINS = {"int": int, "abs": abs, "len": len, "max": max, "min": min, "neg": operator.neg,
            "item0": operator.itemgetter(0), "list": list, "tuple": tuple, "sorted": sorted, "sum": sum,
            "mlen": operator.methodcaller("__len__"), "areal": operator.attrgetter("real"), "join": "-".join}


def _pred_value(p, v):
    if p == "all":
        return True
    if p == "none":
        return False
    d = _need_int(v[0] if _has_context(v) else v)
    if p == "even":
        return d % 2 == 0
    if p == "pos":
        return d > 0
    if p == "lt5":
        return d < 5
    raise ValueError(p)


def make_pred(p):
    def pred(v):
        return _pred_value(p, v)
    pred.__name__ = "pred_" + p
    return pred


# ---- selectors of every documented form ---------------------------------------------------------------
# SEL = {"s": "pred", "p": name}                      a plain function (raises TypeError on data that is not an int)
#     | {"s": "cls", "c": "int"|"str"|"list"}         a class: isinstance(data, cls)
#     | {"s": "str", "v": key}                        a string: the context contains the key
#     | {"s": "list", "xs": [SEL..]}                  a list: Or of its items        (raw containers are converted
#     | {"s": "tuple", "xs": [SEL..]}                 a tuple: And of its items       by Selector with the roe given)
#     | {"s": "S"|"Not", "x": SEL, "roe": b|None}     Selector(x, raise_on_error=b) / Not(x, raise_on_error=b) made
#     | {"s": "Or"|"And", "xs": [SEL..], "roe": ..}   by the caller (None: the default, True)
SEL_CLASSES = {"int": int, "str": str, "list": list}
SEL_OBJS = ("S", "Not", "Or", "And")


def build_sel(s):
    import lena.flow
    t = s["s"]
    if t == "pred":
        return make_pred(s["p"])
    if t == "cls":
        return SEL_CLASSES[s["c"]]
    if t == "str":
        return s["v"]
    if t == "list":
        return [build_sel(x) for x in s["xs"]]
    if t == "tuple":
        return tuple(build_sel(x) for x in s["xs"])
    kw = {} if s.get("roe") is None else {"raise_on_error": s["roe"]}
    if t == "S":
        return lena.flow.Selector(build_sel(s["x"]), **kw)
    if t == "Not":
        return lena.flow.Not(build_sel(s["x"]), **kw)
    if t == "Or":
        return lena.flow.Or([build_sel(x) for x in s["xs"]], **kw)
    if t == "And":
        return lena.flow.And(tuple(build_sel(x) for x in s["xs"]), **kw)
    raise ValueError(t)


def _sel_roe(s):
    return True if s.get("roe") is None else bool(s["roe"])


def _sel_inner(s, v, roe):
    t = s["s"]
    if t == "pred":
        return _pred_value(s["p"], v)
    if t == "cls":
        return isinstance(v[0] if _has_context(v) else v, SEL_CLASSES[s["c"]])
    if t == "str":
        return s["v"] in (v[1] if _has_context(v) else {})
    if t == "list":
        return any(_sel_item(x, v, roe) for x in s["xs"])
    if t == "tuple":
        return all(_sel_item(x, v, roe) for x in s["xs"])
    return _sel_obj(s, v)           # a ready selector object is used as a callable


def _sel_conv(s, v, roe):
    """Selector(x, raise_on_error=roe)(v) as documented: an exception means "not selected" if roe is false"""
    try:
        return _sel_inner(s, v, roe)
    except Exception:
        if roe:
            raise
        return False


def _sel_item(s, v, roe):
    """an item of a container: a Selector object is taken as it is, anything else is converted with the container's roe"""
    return _sel_obj(s, v) if s["s"] in SEL_OBJS else _sel_conv(s, v, roe)


def _sel_obj(s, v):
    t, roe = s["s"], _sel_roe(s)
    if t == "S":
        return _sel_conv(s["x"], v, roe)
    if t == "Not":
        return not _sel_conv(s["x"], v, roe)
    if t == "Or":
        return any(_sel_item(x, v, roe) for x in s["xs"])
    if t == "And":
        return all(_sel_item(x, v, roe) for x in s["xs"])
    raise ValueError(t)


def sel_value(s, v):
    """Filter(selector): a Selector object is used as it is, anything else becomes Selector(selector)"""
    return _sel_obj(s, v) if s["s"] in SEL_OBJS else _sel_conv(s, v, True)


def sel_shrinks(s):
    """simpler selectors (for the minimisation of a failing input)"""
    if "x" in s:
        yield s["x"]
        for y in sel_shrinks(s["x"]):
            yield dict(s, x=y)
    if "xs" in s:
        for i, x in enumerate(s["xs"]):
            yield x
            yield dict(s, xs=s["xs"][:i] + s["xs"][i + 1:])
            for y in sel_shrinks(x):
                yield dict(s, xs=s["xs"][:i] + [y] + s["xs"][i + 1:])


# ---- synthetic classes ------------------------------------------------------------------
# attrs: {name: 0 absent | 1 non-callable value | 2 method}; "call": instances are callable.
# Standard names have the standard signatures and leave marks; any other name with status 2 is a permissive method
# `m(self, *args)` that returns the list [name, *args] (so it can stand for any role).

_SYN_CACHE = {}
STD = ("run", "fill", "compute", "fill_into", "request", "_can_break_flow", "__iter__")


def syn_class(attrs, call, nodata=False):
    key = (tuple(sorted(attrs.items())), bool(call), bool(nodata))
    if key in _SYN_CACHE:
        return _SYN_CACHE[key]
    ns = {}

    def __init__(self):
        self.filled = []
    ns["__init__"] = __init__
    for name, st in attrs.items():
        if st == 0:
            continue
        if st == 1:
            ns[name] = 5 if name != "_can_break_flow" else True
            continue
        if name == "run":
            def run_(self, flow):
                for v in flow:
                    yield ["run", v]
            ns[name] = run_
        elif name == "fill":
            def fill_(self, v):
                self.filled.append(v)
            ns[name] = fill_
        elif name == "compute":
            def compute_(self):
                yield ["fc", list(self.filled)]
            ns[name] = compute_
        elif name == "request":
            def request_(self):
                yield ["request", list(self.filled)]
            ns[name] = request_
        elif name == "fill_into":
            def fill_into_(self, element, v):
                element.fill(["fi", v])
            ns[name] = fill_into_
        elif name == "__iter__":
            def iter_(self):
                return iter([["iter", 1], ["iter", 2]])
            ns[name] = iter_
        else:
            def make(nm):
                def m(self, *args):
                    out = [nm]
                    for a in args:
                        if a is args[0] and len(args) == 2 and callable(getattr(a, "fill", None)):
                            a.fill([nm, args[1]])          # used as fill_into(element, value)
                            out.append("EL")
                        elif hasattr(a, "__next__"):
                            out.append(list(a))
                        else:
                            out.append(a)
                    if nm.endswith("_fill"):
                        self.filled.append([nm] + list(args))
                        return None
                    if nm.endswith("_compute"):
                        return iter([[nm, list(self.filled)]])
                    return out
                return m
            ns[name] = make(name)
    if call:
        def __call__(self, *args):
            return ["call"] + list(args) if len(args) != 1 else ["call", args[0]]
        ns["__call__"] = __call__
    if nodata:
        ns["_has_no_data"] = True
    cls = type("Syn", (object,), ns)
    _SYN_CACHE[key] = cls
    return cls


class _Recorder(object):
    def __init__(self):
        self.got = []

    def fill(self, v):
        self.got.append(v)


class _Dup(object):
    """a Run element that can break the flow and yields two values for every value (like lena.flow.MapGroup)"""
    _can_break_flow = True

    def run(self, flow):
        import copy
        for v in flow:
            # a copy: a later Variable updates the context of `v` in place, which must not show inside the list
            w = [copy.deepcopy(v)]
            yield v
            yield w


JUNK = {"int": 5, "none": None, "float": 2.5}


def norm_slice(args):
    """Slice(*args) as (start, stop, step)"""
    if len(args) == 1:
        return (None, args[0], None)
    if len(args) == 2:
        return (args[0], args[1], None)
    return tuple(args)


def build(spec):
    """the real object denoted by a spec; constructors may raise"""
    import lena.core
    import lena.flow
    import lena.math
    import lena.meta
    import lena.variables
    k = spec["k"]
    if k == "call":
        return with_form(make_callable(spec["f"]), spec.get("form"))
    if k == "bcall":
        return BUILTINS[spec["b"]]
    if k == "var":
        return lena.variables.Variable(spec["name"], getter=ON_DATA[spec["f"]])
    if k == "filter":
        if "sel" in spec:
            return lena.flow.Filter(build_sel(spec["sel"]))       # a selector of any documented form
        return lena.flow.Filter(make_pred(spec["p"]))
    if k == "slice":
        return lena.flow.Slice(*spec["args"])
    if k == "count":
        return lena.flow.Count(spec["name"])
    if k == "runif":
        inner = [build(s) for s in spec["inner"]]
        if spec.get("bad"):
            return lena.flow.RunIf(5, *inner)                 # a select that cannot become a Selector
        sel = make_pred(spec["p"])
        if spec.get("sel"):
            sel = lena.flow.Selector(sel)                      # an explicit Selector is used as it is
        if spec.get("seqarg"):
            return lena.flow.RunIf(sel, lena.core.Sequence(*inner))   # a single Sequence argument is used as it is
        return lena.flow.RunIf(sel, *inner)
    if k == "reverse":
        return lena.flow.Reverse()
    if k == "end":
        return lena.flow.End()
    if k == "acc":
        a = spec["a"]
        if a == "sum":
            return lena.math.Sum()
        if a == "mean":
            return lena.math.Mean()
        if a == "store":
            return lena.flow.StoreFilled(spec["group"])
        if a == "count":
            return lena.core.FillCompute(lena.flow.Count(spec["name"]))
        # further framework accumulators: compared between the real drivers only (oracle), not modelled
        if a == "dsum":
            return lena.math.DSum()
        if a == "vmc":
            return lena.math.VarianceMeanCount()
        if a == "hist":
            import lena.structures
            return lena.structures.Histogram([-3, 0, 3, 6, 14])
        if a == "vec":
            return lena.math.Vectorize(lena.math.Sum(), construct=tuple)
        if a == "nested":
            return lena.core.FillComputeSeq(*[build(x) for x in spec["chain"]])
        if a == "fcnamed":
            return lena.core.FillCompute(syn_class({"my_fill": 2, "my_compute": 2}, False)(),
                                         fill="my_fill", compute="my_compute")
        raise ValueError(a)
    if k == "freq":
        # a real FillRequest adapter around an accumulator (a fill/request element without compute)
        inner = lena.math.Sum() if spec["a"] == "sum" else lena.flow.StoreFilled()
        return lena.core.FillRequest(inner, bufsize=spec.get("bufsize", 1), reset=spec.get("reset", False),
                                     buffer_input=True)
    if k == "syn":
        return syn_class(spec["attrs"], spec["call"], spec.get("nodata", False))()
    if k == "dup":
        return _Dup()
    if k == "wrap":
        # an adapter built by the caller and used as a chain element (compared between the real drivers only)
        ad = spec["ad"]
        if ad == "Call":
            return lena.core.Call(build(spec["el"]))
        if ad == "CallNamed":
            return lena.core.Call(syn_class({"my": 2}, False)(), call="my")
        if ad == "Run":
            return lena.core.Run(build(spec["el"]))
        if ad == "FillInto":
            return lena.core.FillInto(build(spec["el"]))
        raise ValueError(ad)
    if k == "filtert":
        # a selector that returns a truthy / falsy value that is not a bool
        if spec["q"] == "odd":
            return lena.flow.Filter(lambda v: _need_int(v[0] if _has_context(v) else v) % 2)
        return lena.flow.Filter(lambda v: v[0] if _has_context(v) else v)
    if k == "const":
        c = spec["v"]
        return with_form(lambda v: dec(c), spec.get("form"))
    if k == "junk":
        return JUNK[spec.get("v", "int")]
    if k == "setctx":
        return lena.meta.SetContext("verif", 1)
    # kinds used only by the adapter table
    if k == "split":
        return lena.core.Split([])
    if k == "sequence":
        return lena.core.Sequence()
    if k == "list":
        return [1, 2]
    if k == "genfun":
        return lambda *a: iter([["gen"] + list(a)])
    raise ValueError(k)


def attr_state(el, name):
    if name == "__call__":
        return 2 if callable(el) else 0
    try:
        if not hasattr(el, name):
            return 0
        return 2 if callable(getattr(el, name)) else 1
    except Exception:
        return 0


def is_fc(el):
    return attr_state(el, "fill") == 2 and attr_state(el, "compute") == 2


def pre_convertible(el):
    """the documented rule of FillInto: a fill_into method, or callable (not a Split), or a Run element that can break
    the flow"""
    import lena.core
    return (attr_state(el, "fill_into") == 2 or (callable(el) and not isinstance(el, lena.core.Split))
            or (attr_state(el, "run") == 2 and hasattr(el, "_can_break_flow")))


def run_convertible(el):
    """the documented rule of Run/Sequence: a run method, or callable, or fill and compute"""
    return attr_state(el, "run") == 2 or callable(el) or is_fc(el)


# ----------------------------------------------------------------------------------------
# independent reference: the flow processed eagerly, stage by stage, in plain Python (no lena code)

PRE_KINDS = ("call", "var", "filter", "slice", "runif", "dup", "filtert", "const", "bcall")


class _RefSkip(Exception):
    pass


def ref_gen(spec, it):
    """the element's run as a plain Python generator over the iterator `it` (lazy, like the real elements)"""
    k = spec["k"]
    if k == "call":
        g = ON_DATA[spec["f"]]
        whole = spec["f"] in ("ident", "wrap")
        for v in it:
            yield g(v) if whole or not _has_context(v) else (g(v[0]), v[1])
    elif k == "bcall":
        g = BUILTINS[spec["b"]]             # the user's callable itself (C code of Python, not of lena)
        for v in it:
            yield g(v)
    elif k == "var":
        g = ON_DATA[spec["f"]]
        for v in it:
            d, c = (v[0], dict(v[1])) if _has_context(v) else (v, {})
            c["variable"] = {"name": spec["name"]}
            yield (g(d), c)
    elif k == "filter":
        for v in it:
            if (sel_value(spec["sel"], v) if "sel" in spec else _pred_value(spec["p"], v)):
                yield v
    elif k == "slice":
        a, b, s = norm_slice(spec["args"])
        if (s is not None and s < 1) or any(x is not None and x < 0 for x in (a, b)):
            raise _RefSkip()
        for v in itertools.islice(it, a, b, s):
            yield v
    elif k == "runif":
        if spec.get("bad") or not stateless_list(spec["inner"]):
            raise _RefSkip()
        for v in it:
            if _pred_value(spec["p"], v):
                for r in ref_chain_gen(spec["inner"], iter([v])):
                    yield r
            else:
                yield v
    elif k == "dup":
        for v in it:
            yield v
            yield [v]
    elif k == "filtert":
        for v in it:
            d = v[0] if _has_context(v) else v
            if (_need_int(d) % 2) if spec["q"] == "odd" else d:
                yield v
    elif k == "const":
        for v in it:
            yield dec(spec["v"])
    elif k == "wrap" and spec["ad"] == "Call":
        for v in ref_gen(spec["el"], it):
            yield v
    elif k == "wrap" and spec["ad"] == "CallNamed":
        for v in it:
            yield ["my", v]
    elif k == "reverse":
        for v in reversed(list(it)):
            yield v
    elif k == "end":
        for v in it:
            pass
    else:
        raise _RefSkip()


def ref_chain_gen(specs, it):
    for s in specs:
        it = ref_gen(s, it)
    return it


def ref_chain(specs, xs):
    """stage by stage: every stage is drained before the next one starts (the elements inside a RunIf stay lazy)"""
    for s in specs:
        xs = list(ref_gen(s, iter(xs)))
    return xs


def stateless(spec):
    """the element keeps no state between two calls of its run (twin of Lean `Spec.stateless`)"""
    k = spec["k"]
    if k in ("count", "acc", "syn", "freq"):
        return False
    if k == "runif":
        return stateless_list(spec["inner"])
    return True


def stateless_list(specs):
    return all(stateless(x) for x in specs)


def model_in_scope(spec):
    """twin of Lean `Spec.inScopeB`: the property's kinds as far as the model covers them (RunIf: stateless inner)"""
    return pre_in_scope([spec]) and (spec["k"] != "runif" or stateless_list(spec["inner"]))


def oracle_only(specs):
    """the case contains something the value model cannot express (a RunIf whose inner sequence keeps state between
    its one-value runs; an accumulator outside Sum/Mean/StoreFilled/FillCompute(Count)): the real drivers are compared
    with each other (oracle), the model is not asked"""
    for x in specs:
        if x["k"] == "runif" and (not stateless_list(x["inner"]) or oracle_only(x["inner"])):
            return True
        if x["k"] == "acc" and x["a"] in ("dsum", "vmc", "hist", "vec", "nested", "fcnamed"):
            return True
        if x["k"] in ("wrap", "bcall", "freq"):
            return True         # explicit adapter objects; C callables (their semantics is Python's, not modelled)
        if x["k"] == "filter" and "sel" in x:
            return True         # selectors beyond a plain predicate (Selector objects, containers, Not): oracle only
    return False


def pre_in_scope(pre):
    """the property's pre-processing kinds: callable, Variable, Filter, non-negative Slice, RunIf"""
    for s in pre:
        if s["k"] == "wrap" and s["ad"] in ("Call", "CallNamed"):
            if s["ad"] == "Call" and s["el"]["k"] not in ("call", "var", "const", "bcall"):
                return False
            continue                    # Call(callable) / Call(obj, call=name) are callables
        if s["k"] not in PRE_KINDS:
            return False
        if s["k"] == "slice" and any(x is not None and x < 0 for x in s["args"]):
            return False
    return True


def ref_safe(pre, flow):
    """True: no pre-processing element raises on the flow processed stage by stage; False: one does; None: the
    reference does not cover an element (or the chain is outside the property's pre-processing kinds)"""
    if not pre_in_scope(pre):
        return None
    try:
        ref_chain(pre, dec(flow))
        return True
    except _RefSkip:
        return None
    except Exception:
        return False


# ----------------------------------------------------------------------------------------
# running the real code

def _construct(thunk):
    try:
        return thunk(), None
    except Exception as e:
        return None, {"e": exc_name(e), "phase": "init"}


class FlowRestarted(Exception):
    """the flow container was iterated from its beginning again and again (a driver that never finishes)"""


def _guarded(base):
    class Guarded(base):
        """a real list/tuple whose iteration may be started at most 3 times: a driver that restarts the flow for every
        buffer would never terminate; this turns the hang into an exception"""
        _starts = 0

        def __iter__(self):
            self._starts += 1
            if self._starts > 3:
                raise FlowRestarted("the flow was restarted %d times" % self._starts)
            return base.__iter__(self)
    Guarded.__name__ = base.__name__
    return Guarded


_GList, _GTuple = _guarded(list), _guarded(tuple)


def make_flow(flow, form="iter"):
    """the flow as the caller hands it over: a list iterator (default), the list itself, a tuple, a generator"""
    vals = dec(flow)
    if form == "list":
        return _GList(vals)
    if form == "tuple":
        return _GTuple(vals)
    if form == "gen":
        return (v for v in vals)
    return iter(vals)


def drive_seq(args, flow, form="iter"):
    import lena.core
    seq, err = _construct(lambda: lena.core.Sequence(*[build(s) for s in args]))
    if err:
        return err
    return observe(lambda: seq.run(make_flow(flow, form)))


def _fill_loop(seq, flow, form="iter"):
    import lena.core
    for v in make_flow(flow, form):
        try:
            seq.fill(v)
        except lena.core.LenaStopFill:
            break


def drive_fill(args, flow, form="iter"):
    import lena.core
    seq, err = _construct(lambda: lena.core.FillComputeSeq(*[build(s) for s in args]))
    if err:
        return err

    def go():
        _fill_loop(seq, flow, form)
        return seq.compute()
    return observe(go)


def ckpt_points(args, n):
    """after how many filled values a check-point copy is taken: every position for a chain with a Slice anywhere
    (the element with a position of its own), the middle of the flow for the others"""
    ks = []
    for s in args:
        _kinds(s, ks, fine=False)
    if any(k.startswith("slice") for k in ks):
        return list(range(0, n + 1))
    return [n // 2] if n >= 2 else []


def drive_fill_ckpt(args, flow, k):
    """a history, not a driver of the statement (CORRESPONDENCE ONLY, see ASSUMPTIONS 'copies'): the FillComputeSeq is
    filled with the first k values, copied with copy.deepcopy, and only the COPY is filled with the rest of the flow
    and computed.  None: nothing to compare (construction, the first k values or the copy itself raised)"""
    import copy
    import lena.core
    seq, err = _construct(lambda: lena.core.FillComputeSeq(*[build(s) for s in args]))
    if err:
        return None
    vals = dec(flow)
    stopped = False
    try:
        for v in vals[:k]:
            try:
                seq.fill(v)
            except lena.core.LenaStopFill:
                stopped = True
                break
        cp = copy.deepcopy(seq)
    except Exception:
        return None

    def go():
        if not stopped:
            for v in vals[k:]:
                try:
                    cp.fill(v)
                except lena.core.LenaStopFill:
                    break
        return cp.compute()
    return observe(go)


def drive_fillseq(args, flow):
    """the same through an explicit FillSeq(*pre, acc); acc.compute(); Sequence(*post)"""
    import lena.core
    objs, err = _construct(lambda: [build(s) for s in args])
    if err:
        return err
    data = [o for o in objs if not hasattr(o, "_has_no_data")]
    ind = next((i for i, o in enumerate(data) if is_fc(o)), None)
    if ind is None:
        return None
    fs, err = _construct(lambda: lena.core.FillSeq(*data[:ind + 1]))
    if err:
        return err
    post, err = _construct(lambda: lena.core.Sequence(*data[ind + 1:]))
    if err:
        return err

    def go():
        _fill_loop(fs, flow)
        return post.run(data[ind].compute())
    return observe(go)


def drive_split(branches, bufsize, flow, islist=True, form="tuple", flowform="iter", copy_buf=True):
    """form: how a branch is handed to Split — the tuple of its elements; "prebuilt": a FillComputeSeq made by the caller;
    "bare": a branch of one element is given as the element itself (all are documented as equivalent)"""
    import lena.core
    conv = list if islist else tuple

    def branch(objs):
        if form == "prebuilt":
            return lena.core.FillComputeSeq(*objs)
        if form == "bare" and len(objs) == 1:
            return objs[0]
        return objs

    def make():
        # all elements first (as the argument list of one Split(...) expression would), then the branches
        all_objs = [tuple(build(s) for s in b) for b in branches]
        kw = {} if bufsize == "default" else {"bufsize": bufsize}
        if not copy_buf:
            kw["copy_buf"] = False
        return lena.core.Split(conv(branch(o) for o in all_objs), **kw)
    sp, err = _construct(make)
    if err:
        return err
    return observe(lambda: sp.run(make_flow(flow, flowform)))


# ---- a Split whose branches are of any type ------------------------------------------------------
# branch = {"ty": "chain" | "seq" | "freq" | "source", "els": [spec..], ("vals": [v..], "srcform": "list"|"genfun"),
#           ("form": "tuple" | "prebuilt" | "bare")}
#   chain : pre* acc post*  -> Split makes a FillComputeSeq (type "fill_compute")
#   seq   : run/call elements only -> a Sequence, run(buf) for every buffer (type "sequence")
#   freq  : contains a fill/request element and no fill/compute element -> FillRequestSeq (type "fill_request")
#   source: Source(first, *els) where first is the iterable `vals` (or a function returning an iterator over it)
# A branch may end with a *tag*: Variable("B<i>", ident) puts {"variable": {"name": "B<i>"}} into the context of every
# value the branch yields, so that the values of one branch can be picked out of the output of the Split.

def tag_spec(i):
    return {"k": "var", "name": "B%d" % i, "f": "ident"}


def tag_of(ev):
    """the branch tag of an encoded output value (None if it has none)"""
    if isinstance(ev, dict) and "t" in ev and len(ev["t"]) == 2 and isinstance(ev["t"][1], dict) and "d" in ev["t"][1]:
        var = ev["t"][1]["d"].get("variable")
        if isinstance(var, dict) and "d" in var:
            nm = var["d"].get("name")
            if isinstance(nm, str) and nm[:1] == "B" and nm[1:].isdigit():
                return int(nm[1:])
    return None


def is_tagged(branch, i):
    return bool(branch["els"]) and branch["els"][-1] == tag_spec(i)


def build_branch(b, objs, bufsize):
    import lena.core
    ty, form = b["ty"], b.get("form", "tuple")
    if ty == "source":
        vals = dec(b["vals"])
        first = vals if b.get("srcform", "list") == "list" else (lambda: iter(vals))
        return lena.core.Source(first, *objs)
    if form == "prebuilt":
        if ty == "chain":
            return lena.core.FillComputeSeq(*objs)
        if ty == "seq":
            return lena.core.Sequence(*objs)
    if form == "bare" and len(objs) == 1:
        return objs[0]
    return tuple(objs)


def drive_msplit(branches, bufsize, flow, flowform="iter", copy_buf=True):
    import lena.core

    def make():
        all_objs = [[build(s) for s in b["els"]] for b in branches]
        kw = {} if bufsize == "default" else {"bufsize": bufsize}
        if not copy_buf:
            kw["copy_buf"] = False
        return lena.core.Split([build_branch(b, o, bufsize) for b, o in zip(branches, all_objs)], **kw)
    sp, err = _construct(make)
    if err:
        return err
    return observe(lambda: sp.run(make_flow(flow, flowform)))


def branch_type(b):
    """the type Split gives the branch, by the documented rule on the public interfaces of its elements"""
    if b["ty"] == "source":
        return "source"
    try:
        objs = [build(s) for s in b["els"]]
    except Exception:
        return None
    if any(is_fc(o) for o in objs):
        return "chain"
    if any(attr_state(o, "fill") == 2 and attr_state(o, "request") == 2 for o in objs):
        return "freq"
    return "seq"


def failing_iter(flow, term):
    """an iterator over fresh copies of the values, which then raises `term` (if any)"""
    vals = dec(flow)
    exc = {"Other:ValueError": ValueError, "Other:TypeError": TypeError, "Other:IndexError": IndexError}
    for v in vals:
        yield v
    if term is not None:
        raise exc[term]("input flow failed")


def drive_stage(spec, flow, term):
    """one element, its two faces: FillSeq(el, StoreFilled()) filled value by value; Sequence(el).run(flow)"""
    import lena.core
    import lena.flow
    store = lena.flow.StoreFilled()
    fs, err = _construct(lambda: lena.core.FillSeq(build(spec), store))
    if err:
        return err
    seq, err = _construct(lambda: lena.core.Sequence(build(spec)))
    if err:
        return err
    end = "ok"
    try:
        for v in failing_iter(flow, term):
            fs.fill(v)
    except lena.core.LenaStopFill:
        end = "stop"
    except Exception as e:
        end = exc_name(e)
    return {"fill": {"got": [enc(v) for v in store.group], "end": end},
            "run": observe(lambda: seq.run(failing_iter(flow, term)))}


def drive_splitfc(branches, flow):
    """a Split of fill_compute branches used through its own fill/compute (as a FillCompute element)"""
    import lena.core
    sp, err = _construct(lambda: lena.core.Split([tuple(build(s) for s in b) for b in branches]))
    if err:
        return err
    if not (callable(getattr(sp, "fill", None)) and callable(getattr(sp, "compute", None))):
        return {"skip": "no common type fill_compute"}

    def go():
        _fill_loop(sp, flow)
        return sp.compute()
    return observe(go)


def fills_normally(args, flow):
    """the FillComputeSeq of one branch, filled alone with the whole flow: True iff no LenaStopFill and no exception"""
    import lena.core
    seq, err = _construct(lambda: lena.core.FillComputeSeq(*[build(s) for s in args]))
    if err:
        return None
    try:
        for v in dec(flow):
            seq.fill(v)
    except Exception:
        return False
    return True


def drive_fillseq_init(args):
    import lena.core
    _, err = _construct(lambda: lena.core.FillSeq(*[build(s) for s in args]))
    return err or {"ok": True}


def split_point(args):
    """(pre, acc, post) by the Python-level rule, or None"""
    try:
        objs = [build(s) for s in args]
    except Exception:
        return None
    data = [(s, o) for s, o in zip(args, objs) if not hasattr(o, "_has_no_data")]
    ind = next((i for i, (s, o) in enumerate(data) if is_fc(o)), None)
    if ind is None:
        return None
    return [s for s, _ in data[:ind]], data[ind][0], [s for s, _ in data[ind + 1:]], [o for _, o in data]


def chain_facts(args):
    """Python-level facts about the chain: does an element constructor raise; is there a fill/compute element; are the
    elements before it convertible to FillInto and the ones after it to Run"""
    objs, err = _construct(lambda: [build(s) for s in args])
    if err:
        return {"ctor": err["e"]}
    data = [o for o in objs if not hasattr(o, "_has_no_data")]
    ind = next((i for i, o in enumerate(data) if is_fc(o)), None)
    facts = {"ctor": None, "seq_ok": all(run_convertible(o) for o in data), "has_fc": ind is not None}
    if ind is not None:
        facts["fill_ok"] = all(pre_convertible(o) for o in data[:ind]) and all(run_convertible(o) for o in data[ind + 1:])
        facts["npre"] = ind
    return facts


# ---- adapters ----------------------------------------------------------------------------

ADAPTER_NAMES = ["run", "fill", "compute", "fill_into", "request", "_can_break_flow", "__iter__", "__call__",
                 "my", "my_fill", "my_compute", "nc", "missing"]


def _canon_obs(thunk):
    try:
        r = thunk()
        if r is not None and hasattr(r, "__next__"):
            r = list(r)
        return {"v": enc_any(r)}
    except Exception as e:
        return {"x": exc_name(e)}


def enc_any(v):
    if v is None:
        return {"none": True}
    if isinstance(v, (list, tuple)):
        return [enc_any(x) for x in v]
    if isinstance(v, (int, str)):
        return v
    if isinstance(v, dict):
        return {"d": {str(k): enc_any(x) for k, x in v.items()}}
    return {"obj": type(v).__name__}


def _given_run(flow):
    for v in flow:
        yield ["given", v]


def adapter_observe(case):
    """construct the adapter on a fresh element; observe its public method on a sample; and, on further fresh elements,
    what each candidate binding would give when invoked directly"""
    import lena.core
    ad, name, name2 = case["adapter"], case.get("name"), case.get("name2")
    el0 = build(case["el"])
    names = sorted(set(ADAPTER_NAMES + [n for n in (name, name2) if n]))
    flags = {"attrs": {n: attr_state(el0, n) for n in names}, "callable": bool(callable(el0)),
             "split": isinstance(el0, lena.core.Split), "none": el0 is None}
    el = build(case["el"])
    kw = {}
    if ad == "FillCompute":
        if name is not None:
            kw["fill"] = name
        if name2 is not None:
            kw["compute"] = name2
    elif name is not None:
        kw[{"Call": "call", "SourceEl": "call", "Run": "run", "FillInto": "fill_into"}[ad]] = name
    given = None
    if ad == "Run" and el is None and name is not None:
        # Run(None, run=...): the argument is the run function itself — or, as generated here too, something that is not
        # callable (the string as it is, a number)
        given = {"func": _given_run, "str": name, "int": 5}[case.get("given", "func")]
        kw["run"] = given
    flags["given_callable"] = callable(given) if given is not None else None
    try:
        obj = getattr(lena.core, ad)(el, **kw)
    except Exception as e:
        return {"flags": flags, "e": exc_name(e)}

    def use(kind, f=None):
        """invoke a binding on the sample"""
        if ad in ("Call",):
            return _canon_obs(lambda: [f(7), f(8), f(9)])        # also the 2nd, 3rd invocation
        if ad == "SourceEl":
            def twice():
                a, b = f(), f()
                return [list(a) if hasattr(a, "__next__") else a, list(b) if hasattr(b, "__next__") else b]
            return _canon_obs(twice)
        if ad == "Run":
            return _canon_obs(lambda: f(iter([1, 2])))
        if ad == "FillInto":
            rec = _Recorder()

            def go():
                f(rec, 7)
                f(rec, 8)
                return rec.got
            return _canon_obs(go)
        raise ValueError(ad)

    res = {"flags": flags, "e": None}
    cands = {}
    if ad == "FillCompute":
        def fc(fill, compute):
            def go():
                fill(1)
                fill(2)
                return compute()
            return _canon_obs(go)
        res["obs"] = fc(obj.fill, obj.compute)
        for fn in names:
            for cn in names:
                e2 = build(case["el"])
                if attr_state(e2, fn) == 2 and attr_state(e2, cn) == 2:
                    cands[fn + "," + cn] = fc(getattr(e2, fn), getattr(e2, cn))
        res["cands"] = cands
        return res
    pub = {"Call": lambda: obj.__call__, "SourceEl": lambda: obj.__call__, "Run": lambda: obj.run,
           "FillInto": lambda: obj.fill_into}[ad]()
    res["obs"] = use("adapter", pub)
    for n in names:
        e2 = build(case["el"])
        if e2 is not None and attr_state(e2, n) == 2:
            cands["method:" + n] = use("m", getattr(e2, n))
    e2 = build(case["el"])
    if ad in ("Call", "SourceEl") and callable(e2):
        cands["self"] = use("self", e2)
    if ad == "SourceEl" and hasattr(e2, "__iter__"):
        cands["iter"] = use("iter", lambda: e2)
    if ad == "Run":
        if callable(e2):
            cands["callRun"] = use("callRun", lambda flow: (e2(v) for v in flow))
        e3 = build(case["el"])
        if is_fc(e3):
            def fcr(flow):
                for v in flow:
                    e3.fill(v)
                return e3.compute()
            cands["fcRun"] = use("fcRun", fcr)
        cands["given"] = use("given", given if given is not None else _given_run)
    if ad == "FillInto":
        if callable(e2):
            cands["callDefault"] = use("cd", lambda element, v: element.fill(e2(v)))
        e3 = build(case["el"])
        if attr_state(e3, "run") == 2:
            def rfi(element, v):
                for r in e3.run([v]):
                    element.fill(r)
            cands["runFillInto"] = use("rfi", rfi)
    res["cands"] = cands
    return res


def adapter_reference(case, flags):
    """the documented acceptance rule (docstrings of lena/core/adapters.py): expected mode or 'LenaTypeError'"""
    ad, name, name2 = case["adapter"], case.get("name"), case.get("name2")
    at = flags["attrs"]

    def meth(n):
        return at.get(n, 0) == 2
    if ad == "Call":
        if name is None:
            return "self" if flags["callable"] else "LenaTypeError"
        return "method:" + name if meth(name) else "LenaTypeError"
    if ad == "SourceEl":
        if name is None:
            if flags["callable"]:
                return "self"
            return "iter" if at.get("__iter__", 0) != 0 else "LenaTypeError"
        return "method:" + name if meth(name) else "LenaTypeError"
    if ad == "Run":
        if name is None:
            if meth("run"):
                return "method:run"
            if flags["callable"]:
                return "callRun"
            if meth("fill") and meth("compute"):
                return "fcRun"
            return "LenaTypeError"
        if flags["none"]:
            # "If run argument is supplied, el must be None or ..." with "Run(None, run=<my_function>)": a function
            return "given" if flags.get("given_callable") in (True, None) else "LenaTypeError"
        return "method:" + name if meth(name) else "LenaTypeError"
    if ad == "FillInto":
        if name is None:
            if meth("fill_into"):
                return "method:fill_into"
            if flags["callable"] and not flags["split"]:
                return "callDefault"
            if meth("run") and at.get("_can_break_flow", 0) != 0:
                return "runFillInto"
            return "LenaTypeError"
        return "method:" + name if meth(name) else "LenaTypeError"
    if ad == "FillCompute":
        f = name or "fill"
        c = name2 or "compute"
        if not meth(f):
            return "LenaTypeError"
        if meth(c):
            return f + "," + c
        if meth("request"):
            return f + ",request"
        return "LenaTypeError"
    raise ValueError(ad)


# ----------------------------------------------------------------------------------------

def run_impl(case):
    op = case["op"]
    if op == "chain":
        args, flow = case["args"], case["flow"]
        ff = case.get("flowform", "iter")
        res = {"seq": drive_seq(args, flow, ff), "fill": drive_fill(args, flow, ff), "fillseq": drive_fillseq(args, flow),
               "split": [drive_split([args], "default" if (b == 1000 and case.get("defaultbuf")) else b, flow, flowform=ff)
                         for b in case["bufsizes"]],
               "facts": chain_facts(args)}
        sp = split_point(args)
        res["safe"] = ref_safe(sp[0], flow) if sp else None
        if res["facts"].get("has_fc") and "e" not in res["fill"] and not oracle_only(args):
            res["ckpt"] = [[k, drive_fill_ckpt(args, flow, k)] for k in ckpt_points(args, len(flow))]
        return res
    if op == "caps":
        el, err = _construct(lambda: build(case["spec"]))
        if err:
            return err
        fl = {n: attr_state(el, n) for n in STD}
        fl["callable"] = bool(callable(el))
        fl["nodata"] = hasattr(el, "_has_no_data")
        return {"flags": fl}
    if op == "stage":
        return drive_stage(case["el"], case["flow"], case.get("term"))
    if op == "fillseq_init":
        objs, err = _construct(lambda: [build(s) for s in case["args"]])
        facts = {"ctor": err["e"]} if err else {
            "ctor": None, "n": len(objs),
            "data": [{"fill": attr_state(o, "fill") == 2, "pre_ok": pre_convertible(o)} for o in objs
                     if not hasattr(o, "_has_no_data")]}
        return {"res": drive_fillseq_init(case["args"]), "facts": facts}
    if op == "splitfc":
        bs, flow = case["branches"], case["flow"]
        return {"fc": drive_splitfc(bs, flow), "run": [drive_split(bs, b, flow) for b in (1, 3, None)],
                "normal": [fills_normally(b, flow) for b in bs], "facts": [chain_facts(b) for b in bs]}
    if op == "split":
        bs, flow = case["branches"], case["flow"]
        return {"split": drive_split(bs, case["bufsize"], flow, case.get("islist", True), case.get("form", "tuple"),
                                     case.get("flowform", "iter"), case.get("copy_buf", True)),
                "seq": [drive_seq(b, flow) for b in bs],
                "fill": [drive_fill(b, flow) for b in bs],
                "safe": [(lambda sp: ref_safe(sp[0], flow) if sp else None)(split_point(b)) for b in bs],
                "facts": [chain_facts(b) for b in bs]}
    if op == "msplit":
        bs, flow = case["branches"], case["flow"]
        res = {"split": drive_msplit(bs, case["bufsize"], flow, case.get("flowform", "iter"), case.get("copy_buf", True)),
               "br": []}
        for b in bs:
            if b["ty"] == "chain":
                sp = split_point(b["els"])
                res["br"].append({"seq": drive_seq(b["els"], flow), "fill": drive_fill(b["els"], flow),
                                  "safe": ref_safe(sp[0], flow) if sp else None, "facts": chain_facts(b["els"])})
            else:
                # the sibling alone in a Split of its own (fresh objects): does it construct, does it raise?
                alone = drive_msplit([b], case["bufsize"], flow)
                res["br"].append({"alone": {k: alone.get(k) for k in ("e", "phase", "t") if k in alone}})
        res["tyok"] = all(branch_type(b) == b["ty"] for b in bs)
        return res
    if op == "adapter":
        return adapter_observe(case)
    raise ValueError(op)


# ----------------------------------------------------------------------------------------
# model side

def _case_specs(case):
    op = case["op"]
    if op in ("chain", "fillseq_init"):
        return case["args"]
    if op in ("split", "splitfc"):
        return [x for b in case["branches"] for x in b]
    if op == "msplit":
        return [x for b in case["branches"] for x in b["els"]]
    if op == "stage":
        return [case["el"]]
    return []


def model_requests(case):
    op = case["op"]
    if op == "stage" and case["el"]["k"] == "filter" and "sel" in case["el"]:
        # the Selector layer is modelled at the element level (Model/C05Sel.lean: driveStageObj (selFilterObj x))
        return [{"op": "stage", "el": case["el"], "flow": case["flow"], "term": case.get("term")}]
    if oracle_only(_case_specs(case)):
        return []
    if op == "caps":
        return [{"op": "caps", "spec": case["spec"]}]
    if op == "chain":
        return [{"op": "chain", "args": case["args"], "flow": case["flow"], "bufsizes": case["bufsizes"]}]
    if op == "split":
        return [{"op": "split", "branches": case["branches"], "bufsize": case["bufsize"], "flow": case["flow"],
                 "islist": case.get("islist", True)}]
    if op == "splitfc":
        return [{"op": "splitfc", "branches": case["branches"], "flow": case["flow"]}]
    if op == "msplit":
        if not msplit_modelled(case):
            return []
        return [{"op": "msplit", "bufsize": case["bufsize"], "flow": case["flow"],
                 "branches": [{"ty": b["ty"], "els": b["els"], "vals": b.get("vals", [])} for b in case["branches"]]}]
    if op == "fillseq_init":
        return [{"op": "fillseq_init", "args": case["args"]}]
    if op == "stage":
        return [{"op": "stage", "el": case["el"], "flow": case["flow"], "term": case.get("term")}]
    if op == "adapter":
        # the capability flags are read from the real object: two requests are impossible here (model_requests has no
        # access to the impl result), so the flags are recomputed
        import lena.core
        el0 = build(case["el"])
        names = sorted(set(ADAPTER_NAMES + [n for n in (case.get("name"), case.get("name2")) if n]))
        return [{"op": "adapter", "adapter": case["adapter"], "attrs": {n: attr_state(el0, n) for n in names},
                 "callable": bool(callable(el0)), "split": isinstance(el0, lena.core.Split), "none": el0 is None,
                 "name": case.get("name"), "name2": case.get("name2"),
                 "given_callable": case.get("given", "func") == "func",
                 "el": case["el"] if case["el"]["k"] not in ("split", "sequence", "list", "genfun") else None}]
    raise ValueError(op)


SYN_FREQ = {"k": "syn", "attrs": {"fill": 2, "request": 2}, "call": False}


def msplit_modelled(case):
    """the model expresses the case: a sequence branch (run once per buffer) and the post-processing part of a
    fill_request branch (run once per request) must keep no state between two runs; the only fill/request element of
    the model's vocabulary is the synthetic class with `fill` and `request`"""
    for b in case["branches"]:
        els = b["els"]
        if b["ty"] == "seq" and not stateless_list(els):
            return False
        if b["ty"] == "freq":
            ix = [i for i, e in enumerate(els) if e["k"] == "syn"]
            if len(ix) != 1 or {k: v for k, v in els[ix[0]].items() if k != "nodata"} != SYN_FREQ \
                    or els[ix[0]].get("nodata") or not stateless_list(els[ix[0] + 1:]):
                return False
            if any(e["k"] in ("count", "acc") for e in els[:ix[0]]):
                return False
    return True


def _den_norm(j):
    """a model value in the encoding of `enc_any` (tuples as lists)"""
    if isinstance(j, list):
        return [_den_norm(x) for x in j]
    if isinstance(j, dict):
        if "t" in j:
            return [_den_norm(x) for x in j["t"]]
        if "q" in j:
            return {"obj": "float"}
        return {k: _den_norm(v) for k, v in j.items()}
    return j


def _canon_out(m):
    if m is None:
        return None
    if "r" in m:
        return {"r": model_value(m["r"]), "t": m["t"]}
    return m


def compare(case, res, replies):
    for m in replies:
        if "err" in m:
            return f"model driver error: {m['err']}"
    op = case["op"]
    m = replies[0]
    if op == "chain":
        for key in ("seq", "fill"):
            if _canon_out(m[key]) != res[key]:
                return f"{key}: impl {res[key]} vs model {_canon_out(m[key])}"
        if res["fillseq"] is not None and "phase" not in res["fill"] and _canon_out(m["fill"]) != res["fillseq"]:
            return f"fillseq: impl {res['fillseq']} vs model (fillRun) {_canon_out(m['fill'])}"
        for b, a, mm in zip(case["bufsizes"], res["split"], m["split"]):
            if not res["facts"].get("ctor") and not res["facts"].get("has_fc"):
                break           # no fill/compute element: Split makes a branch of type "sequence" (C03's model)
            if _canon_out(mm) != a:
                return f"split bufsize={b}: impl {a} vs model {_canon_out(mm)}"
        for k, o in res.get("ckpt", []):
            # correspondence only: /repo's copy.deepcopy of a partly filled chain continues where the original was
            if o is not None and o != _canon_out(m["fill"]):
                return (f"fill {k} values; copy.deepcopy; fill the rest into the copy; compute: impl {o} vs model "
                        f"(fillRun of the whole flow: the copy carries the state of every element) {_canon_out(m['fill'])}")
        if res["safe"] is not None and m["safe"] is not None and res["safe"] != m["safe"]:
            return f"PreSafe: Python reference {res['safe']} vs model preSafeB {m['safe']}"
        if m.get("seqchain") is not None and _canon_out(m["seqchain"]) != res["seq"]:
            return f"seqRun of the FillComputeSeq's chain {_canon_out(m['seqchain'])} vs the real Sequence {res['seq']}"
        if m.get("dual") is not None:
            d = m["dual"]
            if model_value(d["seq"]) != res["seq"].get("r") or res["seq"].get("t") is not None:
                return f"count_dual: countRunSpec {model_value(d['seq'])} vs the real Sequence {res['seq']}"
            if model_value(d["fill"]) != res["fill"].get("r") or res["fill"].get("t") is not None:
                return f"count_dual: fill side {model_value(d['fill'])} vs the real FillComputeSeq {res['fill']}"
        sp = split_point(case["args"])
        if m.get("inscope") is not None and sp is not None:
            ref = [model_in_scope(x) for x in sp[0]]
            if m["inscope"] != ref:
                return f"Spec.inScopeB {m['inscope']} vs Python model_in_scope {ref}"
        return None
    if op == "caps":
        if "e" in m or "e" in res:
            return None if m == res else f"impl {res} vs model {m}"
        for k in STD + ("callable", "nodata"):
            if m.get(k) != res["flags"].get(k):
                return f"capability table of Spec.toObj: {k} = {m.get(k)} but the real object has {res['flags'].get(k)}"
        if m["stateless"] != stateless(case["spec"]):
            return f"Spec.stateless {m['stateless']} vs Python twin {stateless(case['spec'])}"
        return None
    if op == "stage":
        if "e" in m or "e" in res:
            return None if m == res else f"impl {res} vs model {m}"
        mf, rf = m["fill"], res["fill"]
        if mf["end"] != rf["end"] or ("got" in mf and model_value(mf["got"]) != rf["got"]):
            return f"fill side: impl {rf} vs model {mf}"
        if _canon_out(m["run"]) != res["run"]:
            return f"run side: impl {res['run']} vs model {_canon_out(m['run'])}"
        return None
    if op == "fillseq_init":
        return None if m == res["res"] else f"impl {res['res']} vs model {m}"
    if op == "splitfc":
        if "skip" in res["fc"]:
            return None
        if "e" in m or "e" in res["fc"]:
            return None if m == res["fc"] else f"impl {res['fc']} vs model {m}"
        mv = {"r": [model_value(p[1]) for p in m["r"]], "t": m["t"]}
        return None if mv == res["fc"] else f"impl {res['fc']} vs model {mv}"
    if op == "split":
        if "e" in m or "e" in res["split"]:
            return None if m == res["split"] else f"impl {res['split']} vs model {m}"
        mv = {"r": [model_value(p[1]) for p in m["r"]], "t": m["t"]}
        if mv != res["split"]:
            return f"impl {res['split']} vs model {mv}"
        # the tagged model output, projected on each branch, against the real FillComputeSeq of that branch alone
        if m["t"] is None:
            for i, f in enumerate(res["fill"]):
                proj = [model_value(p[1]) for p in m["r"] if p[0] == i]
                if "r" in f and f["t"] is None and proj != f["r"]:
                    return f"branch {i}: model projection {proj} vs FillComputeSeq alone {f['r']}"
        return None
    if op == "msplit":
        sp = res["split"]
        if "e" in m or "e" in sp:
            return None if m == sp else f"impl {sp} vs model {m}"
        mv = {"r": [model_value(p[1]) for p in m["r"]], "t": m["t"]}
        if mv != sp:
            return f"impl {sp} vs model {mv}"
        # the model's own branch index of every value against the tag the real value carries
        for p, ev in zip(m["r"], sp["r"]):
            t = tag_of(ev)
            if t is not None and t < len(case["branches"]) and is_tagged(case["branches"][t], t) and t != p[0]:
                return f"the model attributes {ev} to branch {p[0]}, its tag says branch {t}"
        return None
    if op == "adapter":
        ref = adapter_reference(case, res["flags"])
        if m.get("spec_accepts") != (ref != "LenaTypeError"):
            return f"specification side: accepts={m.get('spec_accepts')} vs the documented rule {ref}"
        elif ref != "LenaTypeError" and m.get("spec_binding") != ref:
            return f"specification side: binding {m.get('spec_binding')} vs the documented rule {ref}"
        if res["e"] is not None or "e" in m:
            return None if res["e"] == m.get("e") else f"impl {res['e']} vs model {m}"
        if m.get("den") is not None and case.get("given", "func") == "func" and _den_norm(m["den"]) != res["obs"]:
            return (f"meaning: the adapter's method gives {res['obs']} but the model's denotation of the binding "
                    f"{m['mode']} gives {_den_norm(m['den'])}")
        mode = m["mode"]
        if mode not in res["cands"]:
            return f"model mode {mode} is not a possible binding ({sorted(res['cands'])})"
        if res["cands"][mode] != res["obs"]:
            return f"adapter behaves as {res['obs']} but the model's binding {mode} gives {res['cands'][mode]}"
        return None
    raise ValueError(op)


# ----------------------------------------------------------------------------------------
# oracle: the property statement on the real code's results


def _has_top_slice(pre):
    return any(s["k"] == "slice" for s in pre)


def _chain_agreement(args, flow, seq, fills, safe, what):
    """fills: list of (name, outcome) of the fill-side drivers (all must agree unconditionally);
    seq against them under the hypothesis"""
    name0, f0 = fills[0]
    for nm, f in fills[1:]:
        if f != f0:
            return f"{nm} gives {f} but {name0} gives {f0}; {what}"
    sp = split_point(args)
    pre = sp[0] if sp else []
    if not pre_in_scope(pre) or not sp or sp[1]["k"] != "acc":
        return None         # outside the property: other pre-processing kinds, or a dual-interface accumulator
    if safe is True or (not _has_top_slice(pre)):
        if seq != f0:
            why = "no pre-processing element raises on this flow" if safe is True else "no Slice before the accumulator"
            return f"Sequence.run gives {seq} but {name0} gives {f0} ({why}); {what}"
    else:
        if seq.get("t") is None and f0.get("t") is None and seq != f0:
            return f"Sequence.run gives {seq} but {name0} gives {f0} (both completed); {what}"
    return None


def _dual_count(args, res, what):
    """a bare Count at the accumulator position (dual interface): both drivers see the same delivered values — the
    Sequence yields them (the last one with the count in its context), the FillComputeSeq yields (count, context)"""
    sp = split_point(args)
    if not sp or sp[1]["k"] != "count" or sp[2] or not pre_in_scope(sp[0]) or res["safe"] is not True:
        return None
    seq, fill = res["seq"], res["fill"]
    if "e" in seq or "e" in fill:
        return None
    if seq["t"] is not None or fill["t"] is not None:
        return f"no pre-processing element raises, but Sequence gives {seq} and FillComputeSeq {fill}; {what}"
    f = fill["r"]
    if len(f) != 1 or not isinstance(f[0], dict) or "t" not in f[0]:
        return f"Count.compute must yield one (count, context) pair, got {f}; {what}"
    n, ctx = f[0]["t"][0], f[0]["t"][1]
    if len(seq["r"]) != n:
        return f"Count filled {n} values but Count.run passed {len(seq['r'])} values; {what}"
    if n > 0:
        last = seq["r"][-1]
        if not (isinstance(last, dict) and "t" in last and last["t"][1] == ctx):
            return f"Count.run's last value {last} does not carry the context {ctx} of Count.compute; {what}"
    return None


def oracle(case, res):
    op = case["op"]
    if op == "chain":
        args, flow = case["args"], case["flow"]
        what = f"chain {args} flow {flow}"
        facts = res["facts"]
        outs = [("Sequence", res["seq"]), ("FillComputeSeq", res["fill"])] + \
               [(f"Split(bufsize={b})", s) for b, s in zip(case["bufsizes"], res["split"])]
        if facts["ctor"]:
            for nm, o in outs:
                if o.get("phase") != "init":
                    return f"{nm}: an element constructor raises {facts['ctor']} but got {o}; {what}"
            return None
        # construction: accepted iff convertible, LenaTypeError at construction otherwise
        if not facts["seq_ok"]:
            if res["seq"] != {"e": "LenaTypeError", "phase": "init"}:
                return f"Sequence: an unconvertible element must give LenaTypeError at construction, got {res['seq']}; {what}"
        elif "e" in res["seq"]:
            return f"Sequence: every element is convertible but construction raised {res['seq']}; {what}"
        fill_side = [("FillComputeSeq", res["fill"])] + \
                    [(f"Split(bufsize={b})", s) for b, s in zip(case["bufsizes"], res["split"])]
        if res["fillseq"] is not None:
            fill_side.insert(1, ("FillSeq+compute", res["fillseq"]))
        if not facts["has_fc"]:
            if res["fill"] != {"e": "LenaTypeError", "phase": "init"}:
                return f"FillComputeSeq without a FillCompute element must give LenaTypeError, got {res['fill']}; {what}"
            return None
        if not facts["fill_ok"]:
            for nm, o in fill_side:
                if o != {"e": "LenaTypeError", "phase": "init"}:
                    return (f"{nm}: an element that cannot be converted to FillInto/Run must give LenaTypeError at "
                            f"construction, got {o}; {what}")
            return None
        for nm, o in fill_side:
            if "e" in o:
                return f"{nm}: every element is convertible but construction raised {o}; {what}"
            if o["t"] == "LenaTypeError":
                return f"{nm}: LenaTypeError raised while running, not at construction: {o}; {what}"
        if not facts["seq_ok"]:
            return None
        return (_chain_agreement(args, flow, res["seq"], fill_side, res["safe"], what)
                or _dual_count(args, res, what))
    if op == "caps":
        return None
    if op == "stage":
        spec = case["el"]
        if "e" in res or not pre_in_scope([spec]) or spec.get("bad"):
            return None
        if spec["k"] == "runif" and not stateless_list(spec["inner"]):
            return None         # a RunIf whose inner sequence keeps state between its one-value runs (ASSUMPTIONS)
        f, r = res["fill"], res["run"]
        what = f"element {spec} flow {case['flow']} term {case.get('term')}"
        if spec["k"] == "slice":
            if case.get("term"):
                return None         # islice may hide the end of the input: the lemma is for flows that end normally
            if f["end"] not in ("ok", "stop") or r["t"] is not None:
                return f"a Slice raised: fill side {f}, run side {r}; {what}"
        else:
            if (f["end"] == "ok") != (r["t"] is None) or (r["t"] is not None and f["end"] != r["t"]):
                return f"filling value by value ended with {f['end']} but run ended with {r['t']}; {what}"
        if f["got"] != r["r"]:
            return (f"fill_into value by value filled {f['got']} but run yields {r['r']} "
                    f"(driver-consistency of the element); {what}")
        return None
    if op == "fillseq_init":
        facts, r = res["facts"], res["res"]
        what = f"FillSeq(*{case['args']})"
        if facts["ctor"]:
            return None if r.get("phase") == "init" else f"an element constructor raises but got {r}; {what}"
        data = facts["data"]
        if facts["n"] > 0 and not data:
            return None             # only elements without data: IndexError (recorded observation, undocumented case)
        bad = facts["n"] == 0 or not data[-1]["fill"] or not all(d["pre_ok"] for d in data[:-1])
        if bad and r != {"e": "LenaTypeError", "phase": "init"}:
            return f"must raise LenaTypeError at construction, got {r}; {what}"
        if not bad and r != {"ok": True}:
            return f"every argument is convertible and the last one has fill, but got {r}; {what}"
        return None
    if op == "splitfc":
        fc = res["fc"]
        facts = res["facts"]
        what = f"branches {case['branches']} flow {case['flow']}"
        if "skip" in fc or any(f["ctor"] for f in facts) or not all(f.get("has_fc") and f.get("fill_ok") for f in facts):
            return None
        if "e" in fc:
            return f"every branch is a convertible FillCompute chain but Split raised {fc}; {what}"
        if all(n is True for n in res["normal"]):
            for b, r in zip((1, 3, None), res["run"]):
                if r != fc:
                    return (f"no branch stops or raises, but Split filled value by value and computed gives {fc} "
                            f"while Split(bufsize={b}).run gives {r}; {what}")
        return None
    if op == "split":
        what = f"branches {case['branches']} bufsize {case['bufsize']} flow {case['flow']}"
        sp = res["split"]
        facts = res["facts"]
        if any(f["ctor"] for f in facts):
            return None if sp.get("phase") == "init" else f"an element constructor raises but Split gave {sp}; {what}"
        if not case.get("islist", True):
            if sp != {"e": "LenaTypeError", "phase": "init"}:
                return f"seqs is not a list: LenaTypeError expected at construction, got {sp}; {what}"
            return None
        if case["bufsize"] is not None and case["bufsize"] < 1:
            if all(f.get("has_fc") and f.get("fill_ok") for f in facts) and sp != {"e": "LenaValueError", "phase": "init"}:
                return f"bufsize {case['bufsize']} is not a natural number: LenaValueError expected, got {sp}; {what}"
            return None
        if not all(f.get("has_fc") and f.get("fill_ok") for f in facts):
            return None                # branch types other than fill_compute: C03
        if "e" in sp:
            return f"Split: every branch is a convertible FillCompute chain but construction raised {sp}; {what}"
        fills = res["fill"]
        if any(f.get("t") is not None for f in fills):
            return None                # a raising branch ends the whole generator: no per-branch statement
        if sp["t"] is not None:
            return f"no branch raises when filled alone, but Split.run raised {sp['t']} after {sp['r']}; {what}"
        # every branch gives, inside the Split, what it gives alone: the output is the per-branch results in some
        # order of the branches
        parts = [f["r"] for f in fills]
        ok = False
        for perm in itertools.permutations(range(len(parts))):
            cat = [v for i in perm for v in parts[i]]
            if cat == sp["r"]:
                ok = True
                break
        if not ok:
            return (f"Split.run gives {sp['r']}, which is not the results of its branches filled alone {parts} "
                    f"in any order of the branches; {what}")
        for i, (b, f, s, safe) in enumerate(zip(case["branches"], fills, res["seq"], res["safe"])):
            spb = split_point(b)
            pre = spb[0] if spb else []
            if facts[i].get("seq_ok") and spb and spb[1]["k"] == "acc" and pre_in_scope(pre) and (safe is True or not _has_top_slice(pre)) and s != f:
                return f"branch {i}: Sequence.run gives {s} but filled it gives {f}; {what}"
        return None
    if op == "msplit":
        bs = case["branches"]
        what = f"branches {bs} bufsize {case['bufsize']} flow {case['flow']}"
        sp = res["split"]
        chains = [i for i, b in enumerate(bs) if b["ty"] == "chain"]
        if not res.get("tyok"):
            return None                # the generator's label of a branch is not the type Split gives it: no statement
        if any(r.get("alone", {}).get("phase") == "init" for r in res["br"]):
            return None                # a sibling that cannot be made a branch: not the chain's business
        if any(res["br"][i]["facts"]["ctor"] for i in chains):
            # an element constructor of a chain raises (all elements are built before the Split)
            return None if sp.get("phase") == "init" else \
                f"an element constructor of a chain raises but Split gave {sp}; {what}"
        if not all(res["br"][i]["facts"].get("has_fc") and res["br"][i]["facts"].get("fill_ok") for i in chains):
            return None if sp == {"e": "LenaTypeError", "phase": "init"} else \
                f"a chain that cannot be converted must give LenaTypeError at construction, got {sp}; {what}"
        if "e" in sp:
            return f"every branch can be constructed alone but Split raised {sp} at construction; {what}"
        for i, r in enumerate(res["br"]):
            if "fill" in r and r["fill"].get("t") is not None:
                return None            # a branch that raises ends the whole generator: no per-branch statement
            if "alone" in r and r["alone"].get("t") is not None:
                return None
        if sp["t"] is not None:
            return f"no branch raises when driven alone, but Split.run raised {sp['t']} after {sp['r']}; {what}"
        for i in chains:
            r, b = res["br"][i], bs[i]
            f = r["fill"]["r"]
            if is_tagged(b, i):
                proj = [v for v in sp["r"] if tag_of(v) == i]
                if proj != f:
                    return (f"branch {i} (the chain {b['els']}) yields {proj} inside the Split but {f} as a "
                            f"FillComputeSeq filled alone; Split.run gave {sp['r']}; {what}")
            else:
                it = iter(sp["r"])
                if not all(any(v == w for w in it) for v in f):
                    return (f"the results {f} of branch {i} (the chain {b['els']}) filled alone are not among the "
                            f"output {sp['r']} of the Split in this order; {what}")
            spb = split_point(b["els"])
            pre = spb[0] if spb else []
            if r["facts"].get("seq_ok") and spb and spb[1]["k"] == "acc" and pre_in_scope(pre) and \
                    (r["safe"] is True or not _has_top_slice(pre)) and r["seq"] != r["fill"]:
                return f"branch {i}: Sequence.run gives {r['seq']} but filled it gives {r['fill']}; {what}"
        return None
    if op == "adapter":
        exp = adapter_reference(case, res["flags"])
        what = f"{case['adapter']}({case['el']}, name={case.get('name')}, name2={case.get('name2')}) flags {res['flags']}"
        if exp == "LenaTypeError":
            if res["e"] != "LenaTypeError":
                got = res["e"] if res["e"] else f"an adapter that behaves as {res.get('obs')}"
                return f"must raise LenaTypeError at construction, got {got}; {what}"
            return None
        if res["e"] is not None:
            return f"documented as accepted (binding {exp}) but construction raised {res['e']}; {what}"
        if exp not in res["cands"]:
            return f"the documented binding {exp} could not be observed directly ({sorted(res['cands'])}); {what}"
        if res["cands"][exp] != res["obs"]:
            return (f"the adapter's method gives {res['obs']} but the wrapped method ({exp}) invoked directly gives "
                    f"{res['cands'][exp]}; {what}")
        return None
    raise ValueError(op)


# ----------------------------------------------------------------------------------------
# generators

INTS = [0, 1, 2, 3, 4, 5, 6, 7, -1, -2, 13, 10]
KEYS = ["a", "b", "c"]
COUNT_NAMES = ["count", "n", "a"]
NONNEG_SLICES = [[0], [1], [2], [3], [5], [None], [1, 4], [0, 5, 2], [0, 5, 3], [3, 1], [5, 2], [2, None], [1, None, 3],
                 [None, None, 2], [0, 0], [1, 6, 2], [2, 2], [0, 1], [1, 2, 4]]
NEG_SLICES = [[-1], [-2], [1, -1], [-3, None], [-2, None, 2], [-3, -1], [-3, 2], [None, -1, 3]]
BAD_SLICES = [[0, 5, 0], [1, -1, 0], [None, None, 0]]
PREDS = ["even", "pos", "lt5", "all", "none"]
CONSTS = [{"none": True}, 0, [], {"t": []}, 7, "s"]
WRAPS = [{"k": "wrap", "ad": "Call", "el": {"k": "call", "f": "inc"}}, {"k": "wrap", "ad": "Call", "el": {"k": "call", "f": "boom"}},
         {"k": "wrap", "ad": "Call", "el": {"k": "var", "name": "x", "f": "neg"}}, {"k": "wrap", "ad": "CallNamed"},
         {"k": "wrap", "ad": "FillInto", "el": {"k": "call", "f": "inc"}},
         {"k": "wrap", "ad": "FillInto", "el": {"k": "filter", "p": "even"}},
         {"k": "wrap", "ad": "Run", "el": {"k": "call", "f": "inc"}}]
ORACLE_ACCS = [{"k": "acc", "a": "fcnamed"}, {"k": "acc", "a": "dsum"}, {"k": "acc", "a": "vmc"}, {"k": "acc", "a": "hist"},
               {"k": "acc", "a": "nested", "chain": [{"k": "call", "f": "inc"}, {"k": "acc", "a": "sum"}]},
               {"k": "acc", "a": "nested", "chain": [{"k": "filter", "p": "even"}, {"k": "acc", "a": "store", "group": False},
                                                     {"k": "call", "f": "wrap"}]}]
FLOWFORMS = ["iter", "list", "tuple", "gen"]
FNS = ["inc", "neg", "mod3", "ident", "wrap", "boom"]
ACCS = [{"k": "acc", "a": "sum"}, {"k": "acc", "a": "mean"}, {"k": "acc", "a": "store", "group": True},
        {"k": "acc", "a": "store", "group": False}, {"k": "acc", "a": "count", "name": "n"}]


def gen_ctx(rng, depth=0):
    d = {}
    for k in rng.sample(KEYS, rng.randint(0, 2)):
        r = rng.random()
        if r < 0.6:
            d[k] = rng.choice(INTS)
        elif r < 0.8 or depth >= 1:
            d[k] = rng.choice(["x", "y"])
        else:
            d[k] = {"d": gen_ctx(rng, depth + 1)}
    return d


def gen_value(rng, kind):
    r = rng.random()
    if kind == "ints":
        return rng.choice(INTS)
    if kind == "pairs":
        return {"t": [rng.choice(INTS), {"d": gen_ctx(rng)}]}
    if r < 0.5:
        return rng.choice(INTS)
    if r < 0.8:
        return {"t": [rng.choice(INTS), {"d": gen_ctx(rng)}]}
    if r < 0.84:
        return rng.choice(["s", "tt", "", "12", "-3"])
    if r < 0.87:
        return {"none": True}
    if r < 0.92:
        return [rng.choice(INTS)]
    if r < 0.96:
        return {"t": [rng.choice(INTS), rng.choice(INTS)]}
    return {"t": [rng.choice(["s", [1]]), {"d": gen_ctx(rng)}]}


def gen_flow(rng, maxlen=8):
    kind = rng.choice(["ints", "ints", "ints", "pairs", "pairs", "mixed"])
    n = min(rng.choice([0, 1, 2, 3, 3, 4, 5, 6, 7, 8]), maxlen)
    return [gen_value(rng, kind) for _ in range(n)]


def bufsizes_for(n):
    return list(range(1, n + 2)) + [1000, None]


def bufsizes_sample(rng, n):
    """for the sampled chains: 1, n+1 (a buffer longer than the flow), 1000, None and two sizes in between"""
    bs = {1, n + 1}
    for _ in range(2):
        bs.add(rng.randint(1, n + 1))
    return sorted(bs) + [1000, None]


def gen_sel(rng, depth=0):
    """a selector of any documented form; predicates raise TypeError on data that is not an int"""
    r = rng.random()
    roe = rng.choice([False, False, True, None])
    if depth >= 2 or r < 0.3:
        q = rng.random()
        if q < 0.7:
            return {"s": "pred", "p": rng.choice(PREDS)}
        if q < 0.85:
            return {"s": "cls", "c": rng.choice(sorted(SEL_CLASSES))}
        return {"s": "str", "v": rng.choice(KEYS)}
    if r < 0.55:
        return {"s": "S", "x": gen_sel(rng, depth + 1), "roe": roe}
    if r < 0.65:
        return {"s": "Not", "x": gen_sel(rng, depth + 1), "roe": roe}
    xs = [gen_sel(rng, depth + 1) for _ in range(rng.choice([0, 1, 2, 2, 3]))]
    if r < 0.85:
        return {"s": rng.choice(["list", "tuple"]), "xs": xs}
    return {"s": rng.choice(["Or", "And"]), "xs": xs, "roe": roe}


def gen_filter(rng):
    """a Filter from a bare predicate (modelled), or from a selector of any form (oracle only)"""
    if rng.random() < 0.6:
        return gen_filter(rng)
    s = gen_sel(rng)
    if s["s"] == "pred":
        s = {"s": "S", "x": s, "roe": False}
    return {"k": "filter", "sel": s}


def _pr(p):
    return {"s": "pred", "p": p}


def _S(x, roe=False):
    return {"s": "S", "x": x, "roe": roe}


# representatives: every form, both values of raise_on_error, nested (the roe of a container reaches its raw items only)
SEL_REPS = [
    _S(_pr("even")), _S(_pr("even"), True), _S(_pr("lt5"), None), _S(_pr("none")),
    {"s": "cls", "c": "int"}, _S({"s": "cls", "c": "str"}), {"s": "str", "v": "a"}, _S({"s": "str", "v": "b"}),
    {"s": "list", "xs": [_pr("even"), {"s": "cls", "c": "str"}]}, {"s": "list", "xs": [{"s": "cls", "c": "str"}, _pr("even")]},
    {"s": "tuple", "xs": [_pr("pos"), _pr("lt5")]}, {"s": "tuple", "xs": [{"s": "cls", "c": "int"}, _pr("even")]},
    {"s": "list", "xs": []}, {"s": "tuple", "xs": []},
    _S({"s": "list", "xs": [_pr("even"), _pr("lt5")]}), _S({"s": "tuple", "xs": [_pr("pos"), _pr("lt5")]}),
    _S({"s": "list", "xs": [_pr("even"), _S(_pr("lt5"), True)]}), _S(_S(_pr("even"), True)), _S(_S(_pr("even")), True),
    {"s": "Not", "x": _pr("even"), "roe": False}, {"s": "Not", "x": _pr("even"), "roe": True},
    {"s": "Not", "x": _pr("lt5"), "roe": None}, {"s": "Not", "x": {"s": "list", "xs": [_pr("even"), _pr("lt5")]}, "roe": False},
    {"s": "Not", "x": _S(_pr("even")), "roe": True},
    {"s": "Or", "xs": [_pr("even"), _pr("lt5")], "roe": False}, {"s": "Or", "xs": [_pr("even"), _pr("lt5")], "roe": True},
    {"s": "Or", "xs": [_S(_pr("even")), _pr("lt5")], "roe": True}, {"s": "Or", "xs": [], "roe": False},
    {"s": "And", "xs": [_pr("pos"), _pr("lt5")], "roe": False}, {"s": "And", "xs": [_pr("pos"), _pr("lt5")], "roe": None},
    {"s": "And", "xs": [_S(_pr("pos")), {"s": "Not", "x": _pr("lt5"), "roe": False}], "roe": True},
    {"s": "And", "xs": [{"s": "cls", "c": "int"}, {"s": "str", "v": "a"}], "roe": False},
]
# values on which the predicates raise (a str, None, a list, a pair whose data is a str) among ints and (int, context) pairs
FLOW_R = [1, 4, "s", 2, {"none": True}, {"t": [6, {"d": {"a": 1}}]}, [3], 8, {"t": ["x", {"d": {"b": 2}}]}, 3,
          {"t": [7, {"d": {"a": 0, "b": "y"}}]}]
FLOW_R0 = ["s", 2, 4]                 # the first value already raises


def selfilter_cases(thorough):
    for sel in SEL_REPS:
        f = {"k": "filter", "sel": sel}
        for fl in (FLOW_R, FLOW_R0, FLOW_B):
            for acc in ((ACCS[3], ACCS[0]) if (thorough or fl is FLOW_R) else (ACCS[3],)):
                yield {"op": "chain", "args": [f, acc], "flow": fl, "bufsizes": bufsizes_for(len(fl)) if thorough or
                       fl is not FLOW_R else [1, 2, 5, len(fl), len(fl) + 1, 1000, None]}
            yield {"op": "stage", "el": f, "flow": fl, "term": None}
        yield {"op": "stage", "el": f, "flow": FLOW_R, "term": "Other:ValueError"}
        # after a callable, before a Slice, inside a RunIf, in the post-processing part; as one of two Split branches
        yield {"op": "chain", "args": [{"k": "call", "f": "ident"}, f, {"k": "slice", "args": [1, 5]}, ACCS[3],
                                       {"k": "call", "f": "wrap"}, f], "flow": FLOW_R, "bufsizes": [1, 3, None]}
        yield {"op": "chain", "args": [{"k": "runif", "p": "all", "inner": [f]}, ACCS[3]], "flow": FLOW_R,
               "bufsizes": [1, 4, None]}
        for b in (1, 3, None):
            yield {"op": "split", "branches": [[{"k": "slice", "args": [2]}, ACCS[0]], [f, ACCS[3]]], "bufsize": b,
                   "flow": FLOW_R}
        yield {"op": "msplit", "bufsize": 2, "flow": FLOW_R,
               "branches": [{"ty": "seq", "els": [f, tag_spec(0)]}, {"ty": "chain", "els": [f, ACCS[3], tag_spec(1)]}]}
        yield {"op": "fillseq_init", "args": [f, ACCS[0]]}


def gen_inner(rng, depth):
    """elements inside a RunIf: mostly stateless run/call elements; sometimes one that keeps state between the one-value
    runs (Count, an accumulator) — such chains are compared between the real drivers only"""
    out = []
    for _ in range(rng.choice([0, 1, 1, 2, 3])):
        r = rng.random()
        if rng.random() < 0.06:
            out.append(rng.choice([{"k": "count", "name": "n"}, {"k": "acc", "a": "sum"},
                                   {"k": "acc", "a": "store", "group": False}, {"k": "acc", "a": "count", "name": "c"}]))
            continue
        if r < 0.36:
            out.append(with_rand_form(rng, {"k": "call", "f": rng.choice(FNS)}, 0.3))
        elif r < 0.4:
            out.append({"k": "bcall", "b": rng.choice(BCALLS)})
        elif r < 0.5:
            out.append({"k": "var", "name": rng.choice(["x", "y"]), "f": rng.choice(["inc", "neg", "ident", "mod3"])})
        elif r < 0.65:
            out.append(gen_filter(rng))
        elif r < 0.8:
            out.append({"k": "slice", "args": rng.choice(NONNEG_SLICES + NEG_SLICES)})
        elif r < 0.85:
            out.append({"k": "reverse"})
        elif r < 0.88:
            out.append({"k": "end"} if rng.random() < 0.5 else {"k": "dup"})
        elif r < 0.9:
            out.append({"k": "junk", "v": "int"})
        elif depth < 2:
            out.append({"k": "runif", "p": rng.choice(PREDS), "inner": gen_inner(rng, depth + 1)})
    return out


def gen_pre_el(rng, in_scope=True):
    r = rng.random()
    if not in_scope and r < 0.12:
        return rng.choice([{"k": "reverse"}, {"k": "end"}, {"k": "junk", "v": rng.choice(list(JUNK))}, {"k": "setctx"},
                           {"k": "slice", "args": rng.choice(NEG_SLICES)}, {"k": "slice", "args": rng.choice(BAD_SLICES)},
                           gen_syn(rng)])
    if r < 0.26:
        return with_rand_form(rng, {"k": "call", "f": rng.choice(FNS)})
    if r < 0.32:
        return {"k": "bcall", "b": rng.choice(BCALLS)}
    if r < 0.42:
        return {"k": "var", "name": rng.choice(["x", "y"]), "f": rng.choice(["inc", "neg", "ident", "mod3"])}
    if r < 0.60:
        return gen_filter(rng)
    if r < 0.76:
        return {"k": "slice", "args": rng.choice(NONNEG_SLICES)}
    if r < 0.79:
        return {"k": "filtert", "q": rng.choice(["odd", "data"])}
    if r < 0.82:
        return with_rand_form(rng, {"k": "const", "v": rng.choice(CONSTS)})
    if r < 0.85:
        return {"k": "dup"}
    if r < 0.87:
        return rng.choice(WRAPS[:4])
    return gen_runif(rng, in_scope)


def gen_runif(rng, in_scope=True):
    e = {"k": "runif", "p": rng.choice(PREDS), "inner": gen_inner(rng, 1)}
    if rng.random() < 0.2:
        e["sel"] = True
    if rng.random() < 0.15:
        e["seqarg"] = True
    if not in_scope and rng.random() < 0.1:
        e["bad"] = True
    return e


def gen_syn(rng):
    attrs = {}
    for n in ("run", "fill", "compute", "fill_into"):
        attrs[n] = rng.choice([0, 0, 1, 2])
    attrs["_can_break_flow"] = rng.choice([0, 1])
    return {"k": "syn", "attrs": attrs, "call": rng.random() < 0.3, "nodata": rng.random() < 0.1}


def gen_post_el(rng, st, in_scope=True):
    r = rng.random()
    if not in_scope and r < 0.08:
        return rng.choice([{"k": "junk", "v": "int"}, {"k": "setctx"}, gen_syn(rng)])
    if r < 0.21:
        return with_rand_form(rng, {"k": "call", "f": rng.choice(FNS)})
    if r < 0.25:
        return {"k": "bcall", "b": rng.choice(BCALLS)}
    if r < 0.33:
        return {"k": "var", "name": rng.choice(["x", "y"]), "f": rng.choice(["inc", "neg", "ident", "mod3"])}
    if r < 0.45:
        return gen_filter(rng)
    if r < 0.60:
        return {"k": "slice", "args": rng.choice(NONNEG_SLICES + NEG_SLICES)}
    if r < 0.68:
        return {"k": "count", "name": rng.choice(COUNT_NAMES)}
    if r < 0.74:
        return {"k": "reverse"}
    if r < 0.77:
        return {"k": "end"}
    if r < 0.87:
        return gen_runif(rng, in_scope)
    # a further accumulator, used as a simple Run element
    a = rng.choice(["store", "store", "count", "sum"])
    if a == "sum" and st["floaty"]:
        a = "store"
    if a == "store":
        return {"k": "acc", "a": "store", "group": rng.random() < 0.5}
    if a == "count":
        return {"k": "acc", "a": "count", "name": rng.choice(COUNT_NAMES)}
    return {"k": "acc", "a": "sum"}


def gen_chain(rng, in_scope=True, maxpre=3, maxpost=3):
    pre = [gen_pre_el(rng, in_scope) for _ in range(rng.choice([0, 1, 1, 2, 2, 3][:maxpre + 3]))]
    acc = dict(rng.choice(ACCS))
    if acc["a"] == "count":
        acc["name"] = rng.choice(COUNT_NAMES)
    st = {"floaty": acc["a"] == "mean"}
    if rng.random() < 0.06:
        acc = {"k": "count", "name": rng.choice(COUNT_NAMES)}      # a bare Count: run and fill/compute (dual interface)
    elif rng.random() < 0.06:
        acc = rng.choice(ORACLE_ACCS)                               # other framework accumulators (oracle only)
        st["floaty"] = True
    post = [gen_post_el(rng, st, in_scope) for _ in range(rng.choice([0, 0, 1, 1, 2, 3][:maxpost + 3]))]
    return pre + [acc] + post


PRE_REPS = ([{"k": "call", "f": f} for f in ("inc", "boom", "wrap")]
            + [{"k": "var", "name": "x", "f": "neg"}]
            + [{"k": "filter", "p": p} for p in ("even", "lt5", "none")]
            + [{"k": "slice", "args": a} for a in ([2], [0], [1, 4], [0, 5, 3], [5, 2], [1, None, 2])]
            + [{"k": "runif", "p": "even", "inner": [{"k": "call", "f": "inc"}, {"k": "call", "f": "wrap"}]},
               {"k": "runif", "p": "pos", "inner": [{"k": "filter", "p": "lt5"}]},
               {"k": "runif", "p": "all", "inner": [{"k": "slice", "args": [0]}]},
               {"k": "dup"},
               {"k": "runif", "p": "lt5", "inner": [{"k": "dup"}, {"k": "slice", "args": [1, 2]}]}])
QUICK_REPS = [PRE_REPS[i] for i in (0, 1, 3, 4, 5, 7, 8, 9, 10, 11, 13, 16)]
FLOW_A = [1, 2, 3, 4, 13, 6, 7]
FLOW_B = [{"t": [3, {"d": {"a": 1}}]}, 4, {"t": [5, {"d": {"b": "x"}}]}, 8, {"t": [2, {"d": {}}]}]
FLOW_C = [2, 4, 6]


def adapter_cases():
    cases = []

    def syn(attrs, call):
        return {"k": "syn", "attrs": {k: v for k, v in attrs.items() if v}, "call": call}
    # Run
    for run, call, fill, comp, my in itertools.product((0, 1, 2), (False, True), (0, 1, 2), (0, 1, 2), (0, 2)):
        for name in (None, "run", "my", "missing", "nc", "fill"):
            cases.append({"op": "adapter", "adapter": "Run", "name": name,
                          "el": syn({"run": run, "fill": fill, "compute": comp, "my": my, "nc": 1}, call)})
    # FillInto
    for fi, call, run, cbf, my in itertools.product((0, 1, 2), (False, True), (0, 1, 2), (0, 1), (0, 2)):
        for name in (None, "fill_into", "my", "missing", "nc", "run"):
            cases.append({"op": "adapter", "adapter": "FillInto", "name": name,
                          "el": syn({"fill_into": fi, "run": run, "_can_break_flow": cbf, "my": my, "nc": 1}, call)})
    # Call, SourceEl
    for call, my, it in itertools.product((False, True), (0, 1, 2), (0, 1, 2)):
        for name in (None, "my", "missing", "nc", "__call__", "__iter__"):
            for ad in ("Call", "SourceEl"):
                cases.append({"op": "adapter", "adapter": ad, "name": name,
                              "el": syn({"my": my, "__iter__": it, "nc": 1}, call)})
    # FillCompute
    for fill, comp, req, myf, myc in itertools.product((0, 1, 2), (0, 1, 2), (0, 1, 2), (0, 2), (0, 2)):
        for name in (None, "my_fill", "missing", "nc"):
            for name2 in (None, "my_compute", "missing", "nc", "request"):
                cases.append({"op": "adapter", "adapter": "FillCompute", "name": name, "name2": name2,
                              "el": syn({"fill": fill, "compute": comp, "request": req, "my_fill": myf,
                                         "my_compute": myc, "nc": 1}, False)})
    # the real element kinds
    real = [{"k": "call", "f": "inc"}, {"k": "var", "name": "x", "f": "inc"}, {"k": "filter", "p": "even"},
            {"k": "slice", "args": [2]}, {"k": "slice", "args": [-2]},
            {"k": "runif", "p": "even", "inner": [{"k": "call", "f": "inc"}]}, {"k": "count", "name": "n"},
            {"k": "acc", "a": "sum"}, {"k": "acc", "a": "mean"}, {"k": "acc", "a": "store", "group": True},
            {"k": "acc", "a": "count", "name": "n"}, {"k": "reverse"}, {"k": "end"}, {"k": "split"}, {"k": "sequence"},
            {"k": "list"}, {"k": "genfun"}, {"k": "junk", "v": "int"}, {"k": "junk", "v": "none"}, {"k": "setctx"}]
    # every form of a callable; callables implemented in C
    real += [{"k": "call", "f": "inc", "form": form} for form in CALL_FORMS[1:]] + [{"k": "bcall", "b": b} for b in sorted(BUILTINS)]
    for name in ("run", "missing", "fill", "my"):
        for given in ("func", "str", "int"):
            cases.append({"op": "adapter", "adapter": "Run", "name": name, "given": given,
                          "el": {"k": "junk", "v": "none"}})
    for el in real:
        for ad in ("Call", "SourceEl", "Run", "FillInto"):
            for name in (None, "run", "fill_into", "fill", "missing", "__call__"):
                cases.append({"op": "adapter", "adapter": ad, "name": name, "el": el})
        for name in (None, "missing", "run"):
            for name2 in (None, "missing", "request", "compute"):
                cases.append({"op": "adapter", "adapter": "FillCompute", "name": name, "name2": name2, "el": el})
    return cases


def no_mutation(branches):
    """no element of the branches changes a value in place (Variable and Count update the context dictionary)"""
    def ok(x):
        if x["k"] in ("var", "count") or (x["k"] == "acc" and x["a"] == "count"):
            return False
        if x["k"] == "wrap" and "el" in x and not ok(x["el"]):
            return False
        return all(ok(y) for y in x.get("inner", []) + x.get("chain", []))
    return all(ok(x) for b in branches for x in b)


def gen_split_case(rng, in_scope=True):
    nb = rng.choice([2, 2, 3, 3, 4])
    flow = gen_flow(rng)
    branches = []
    for _ in range(nb):
        if rng.random() < 0.5:
            # an early-stopping sibling
            b = [{"k": "slice", "args": rng.choice([[0], [1], [2], [3], [1, 3], [0, 4, 2]])}]
            if rng.random() < 0.4:
                b.insert(rng.choice([0, 1]), gen_pre_el(rng))
            acc = dict(rng.choice(ACCS[:1] + ACCS[2:]))
            branches.append(b + [acc] + ([gen_post_el(rng, {"floaty": False})] if rng.random() < 0.3 else []))
        else:
            branches.append(gen_chain(rng, in_scope, maxpre=2, maxpost=1))
    return {"op": "split", "branches": branches, "bufsize": rng.choice(bufsizes_for(len(flow))), "flow": flow}


def rand_form(rng, p=0.5):
    return rng.choice(CALL_FORMS[1:]) if rng.random() < p else None


def with_rand_form(rng, e, p=0.5):
    f = rand_form(rng, p)
    return dict(e, form=f) if f else e


BCALLS = sorted(BUILTINS)


def gen_seq_el(rng):
    """an element of a branch of type "sequence" / of the tail of a Source: run/call elements without fill/compute"""
    r = rng.random()
    if r < 0.22:
        return with_rand_form(rng, {"k": "call", "f": rng.choice(FNS)})
    if r < 0.42:
        return {"k": "var", "name": rng.choice(["x", "y"]), "f": rng.choice(["inc", "neg", "ident", "mod3"])}
    if r < 0.54:
        return gen_filter(rng)
    if r < 0.66:
        return {"k": "slice", "args": rng.choice(NONNEG_SLICES + NEG_SLICES[:3])}
    if r < 0.72:
        return {"k": "reverse"}
    if r < 0.77:
        return {"k": "end"}
    if r < 0.81:
        return {"k": "dup"}
    if r < 0.85:
        return with_rand_form(rng, {"k": "const", "v": rng.choice(CONSTS)})
    if r < 0.90:
        return {"k": "bcall", "b": rng.choice(BCALLS)}
    if r < 0.93:
        # an accumulator hidden behind Run: a run element that yields also for an empty flow, and keeps state
        return {"k": "wrap", "ad": "Run", "el": rng.choice([{"k": "acc", "a": "sum"}, {"k": "acc", "a": "store", "group": False}])}
    return gen_runif(rng)


FREQ_ELS = [SYN_FREQ, SYN_FREQ, {"k": "freq", "a": "sum", "reset": True, "bufsize": 1},
            {"k": "freq", "a": "sum", "reset": False, "bufsize": 2}, {"k": "freq", "a": "store", "reset": False, "bufsize": 1}]


def gen_branch(rng, ty, in_scope=True):
    if ty == "chain":
        if rng.random() < 0.35:
            b = [{"k": "slice", "args": rng.choice([[0], [1], [2], [3], [1, 3], [0, 4, 2]])}]
            if rng.random() < 0.4:
                b.insert(rng.choice([0, 1]), gen_pre_el(rng))
            els = b + [dict(rng.choice(ACCS[:1] + ACCS[2:]))]
        else:
            els = gen_chain(rng, in_scope, maxpre=2, maxpost=1)
        return {"ty": "chain", "els": els}
    if ty == "seq":
        return {"ty": "seq", "els": [gen_seq_el(rng) for _ in range(rng.choice([0, 1, 1, 2, 3]))]}
    if ty == "source":
        return {"ty": "source", "vals": [gen_value(rng, rng.choice(["ints", "pairs", "mixed"])) for _ in range(rng.choice([0, 1, 2, 3]))],
                "srcform": rng.choice(["list", "genfun"]), "els": [gen_seq_el(rng) for _ in range(rng.choice([0, 0, 1, 2]))]}
    pre = [gen_pre_el(rng)] if rng.random() < 0.4 else []
    post = [gen_seq_el(rng)] if rng.random() < 0.4 else []
    return {"ty": "freq", "els": pre + [dict(rng.choice(FREQ_ELS))] + post}


def gen_msplit_case(rng, in_scope=True):
    """a Split with at least one chain pre* acc post* and sibling branches of any type, in any order"""
    nb = rng.choice([2, 2, 3, 3, 4])
    tys = [rng.choice(["chain", "chain", "seq", "seq", "seq", "source", "source", "freq"]) for _ in range(nb)]
    if "chain" not in tys:
        tys[rng.randrange(nb)] = "chain"
    flow = gen_flow(rng)
    bs = [gen_branch(rng, ty, in_scope) for ty in tys]
    case = {"op": "msplit", "branches": bs, "bufsize": rng.choice(bufsizes_for(len(flow))), "flow": flow}
    if rng.random() < 0.12 and no_mutation([b["els"] for b in bs]):
        case["copy_buf"] = False        # the branches see the same objects: no tags (a tag writes into the context)
    else:
        for i, b in enumerate(bs):
            if rng.random() < 0.85:
                b["els"] = b["els"] + [tag_spec(i)]
    for b in bs:
        r = rng.random()
        if b["ty"] in ("chain", "seq"):
            if r < 0.12:
                b["form"] = "prebuilt"
            elif r < 0.3 and len(b["els"]) == 1:
                b["form"] = "bare"
    if rng.random() < 0.3:
        case["flowform"] = rng.choice(FLOWFORMS[1:])
    return case


MS_SIBLINGS = [{"ty": "seq", "els": [{"k": "var", "name": "x", "f": "neg"}]},
               {"ty": "seq", "els": [{"k": "var", "name": "x", "f": "neg"}, {"k": "end"}]},
               {"ty": "seq", "els": [{"k": "filter", "p": "even"}]},
               {"ty": "seq", "els": []},
               {"ty": "seq", "els": [{"k": "call", "f": "inc", "form": "lambda"}, {"k": "slice", "args": [1]}]},
               {"ty": "source", "vals": [100, {"t": [101, {"d": {"a": 1}}]}], "srcform": "list", "els": []},
               {"ty": "source", "vals": [100, 101, 102], "srcform": "genfun", "els": [{"k": "slice", "args": [2]}]},
               {"ty": "freq", "els": [SYN_FREQ]},
               {"ty": "freq", "els": [{"k": "var", "name": "y", "f": "inc"}, {"k": "freq", "a": "sum", "reset": True, "bufsize": 1}]},
               {"ty": "seq", "els": [{"k": "wrap", "ad": "Run", "el": {"k": "acc", "a": "store", "group": False}}]},
               {"ty": "seq", "els": [{"k": "junk", "v": "int"}], "form": "bare"}]
MS_CHAINS = [[{"k": "call", "f": "ident"}, {"k": "acc", "a": "store", "group": False}],
             [{"k": "filter", "p": "even"}, {"k": "acc", "a": "sum"}],
             [{"k": "slice", "args": [2]}, {"k": "acc", "a": "store", "group": True}, {"k": "call", "f": "wrap"}]]
FLOW_D = [{"t": [1, {"d": {"run": 7}}]}, {"t": [2, {"d": {"run": 7}}]}, {"t": [3, {"d": {"run": 8}}]}, 4]


def msplit_pattern_cases(thorough):
    """every sibling type before / after / around an ordinary chain, every bufsize, tagged and untagged"""
    for sib in MS_SIBLINGS:
        for chain in MS_CHAINS:
            for order in (0, 1, 2):
                for tagged in ((True, False) if thorough or order == 0 else (True,)):
                    bs = [dict(sib), {"ty": "chain", "els": list(chain)}]
                    if order == 1:
                        bs.reverse()
                    if order == 2:
                        bs = [dict(sib), {"ty": "chain", "els": list(chain)}, dict(sib)]
                    if tagged:
                        bs = [dict(b, els=b["els"] + [tag_spec(i)]) if b.get("form") != "bare" else b
                              for i, b in enumerate(bs)]
                    for fl in ((FLOW_D, []) if order != 2 else (FLOW_D,)):
                        for b in (bufsizes_for(len(fl)) if thorough or order == 0 else [1, 2, len(fl) + 1, None]):
                            yield {"op": "msplit", "branches": bs, "bufsize": b, "flow": fl}


STAGE_FLOWS = [FLOW_A, FLOW_B, [], [2, "s", 4], [13, 13], [{"t": [6, {"d": {"a": 1}}]}, 6, 8, 10, 12, 14, 16]]
FILLSEQ_ELS = [{"k": "call", "f": "inc"}, {"k": "filter", "p": "even"}, {"k": "slice", "args": [2]},
               {"k": "runif", "p": "even", "inner": [{"k": "call", "f": "inc"}]}, {"k": "reverse"}, {"k": "junk", "v": "int"},
               {"k": "setctx"}, {"k": "acc", "a": "sum"}, {"k": "count", "name": "n"},
               {"k": "syn", "attrs": {"fill": 2}, "call": False}, {"k": "syn", "attrs": {"fill": 1}, "call": True},
               {"k": "syn", "attrs": {"fill_into": 2}, "call": False},
               {"k": "syn", "attrs": {"run": 2, "_can_break_flow": 1}, "call": False}, {"k": "slice", "args": [0, 5, 0]}]


def runif_variants(spec):
    yield spec
    yield dict(spec, sel=True)
    yield dict(spec, seqarg=True)
    yield dict(spec, sel=True, seqarg=True)


def gen_cases(ctx):
    """lazy: the cases are produced one by one (common.run_check may take a prefix of the thorough generator)"""
    rng = ctx.rng
    thorough = ctx.tier == "thorough"
    # ---- exhaustive scopes -------------------------------------------------------------------------
    yield from adapter_cases()
    reps = PRE_REPS if thorough else QUICK_REPS
    pres = [[]] + [[a] for a in PRE_REPS] + [[a, b] for a in reps for b in reps]
    flows = [FLOW_A, FLOW_B, FLOW_C, []] if thorough else [FLOW_A, FLOW_B]
    accs = ACCS if thorough else [ACCS[0], ACCS[3], ACCS[1]]
    for pre in pres:
        for acc in accs:
            for fl in flows:
                yield {"op": "chain", "args": pre + [acc], "flow": fl, "bufsizes": bufsizes_for(len(fl))}
    for acc in ACCS:
        for fl in ([], [5], FLOW_A, FLOW_B):
            yield {"op": "chain", "args": [acc], "flow": fl, "bufsizes": bufsizes_for(len(fl))}
            yield {"op": "chain", "args": [{"k": "filter", "p": "none"}, acc, {"k": "call", "f": "wrap"}],
                   "flow": fl, "bufsizes": bufsizes_for(len(fl))}
    # no fill/compute element at all; RunIf constructor variants; a bare Count as the accumulator (dual interface)
    for args in ([], [{"k": "call", "f": "inc"}], [{"k": "reverse"}, {"k": "filter", "p": "even"}], [{"k": "setctx"}]):
        yield {"op": "chain", "args": args, "flow": FLOW_C, "bufsizes": [1, None]}
    for rf in PRE_REPS:
        if rf["k"] == "runif":
            for v in runif_variants(rf):
                for acc in (ACCS[0], ACCS[3]):
                    yield {"op": "chain", "args": [v, acc], "flow": FLOW_A, "bufsizes": bufsizes_for(len(FLOW_A))}
            yield {"op": "chain", "args": [dict(rf, bad=True), ACCS[0]], "flow": FLOW_A, "bufsizes": [1, None]}
    for pre in [[]] + [[a] for a in PRE_REPS]:
        for fl in (FLOW_A, FLOW_B, []):
            yield {"op": "chain", "args": pre + [{"k": "count", "name": "n"}], "flow": fl, "bufsizes": bufsizes_for(len(fl))}
    # selectors that return non-bools, callables that return None / falsy values, None in the flow
    flow_n = [1, {"none": True}, 0, 2, "", {"t": [3, {"d": {"a": 1}}]}, [], 4]
    for e in ([{"k": "filtert", "q": q} for q in ("odd", "data")] + [{"k": "const", "v": c} for c in CONSTS]
              + [{"k": "call", "f": "ident"}, {"k": "call", "f": "wrap"}, {"k": "filter", "p": "all"}]):
        for acc in (ACCS[3], ACCS[2], ACCS[0], ACCS[4]):
            for fl in (FLOW_A, flow_n):
                yield {"op": "chain", "args": [e, acc], "flow": fl, "bufsizes": bufsizes_for(len(fl))}
                yield {"op": "chain", "args": [e, {"k": "slice", "args": [1, 6, 2]}, acc, {"k": "call", "f": "wrap"}],
                       "flow": fl, "bufsizes": [1, 3, None]}
        for fl in (FLOW_A, flow_n):
            yield {"op": "stage", "el": e, "flow": fl, "term": None}
    # every form of a callable, and callables implemented in C, as pre- and post-processing elements
    flow_s = ["12", [3, 1], {"t": [2, 5]}, "-3", 4, {"t": [6, {"d": {"a": 1}}]}, "", {"none": True}]
    call_els = [{"k": "call", "f": f, "form": form} for form in CALL_FORMS[1:] for f in ("inc", "boom")] + \
               [{"k": "const", "v": 7, "form": form} for form in CALL_FORMS[1:]] + [{"k": "bcall", "b": b} for b in BCALLS]
    for e in call_els:
        for fl in (FLOW_A, flow_s):
            yield {"op": "chain", "args": [e, ACCS[3]], "flow": fl, "bufsizes": bufsizes_for(len(fl))}
            yield {"op": "chain", "args": [{"k": "slice", "args": [1, 6]}, e, ACCS[0], e], "flow": fl, "bufsizes": [1, 3, None]}
            yield {"op": "stage", "el": e, "flow": fl, "term": None}
            yield {"op": "stage", "el": e, "flow": fl, "term": "Other:ValueError"}
        yield {"op": "chain", "args": [{"k": "runif", "p": "all", "inner": [e]}, ACCS[3]], "flow": FLOW_A,
               "bufsizes": [1, 2, None]}
        yield {"op": "fillseq_init", "args": [e, ACCS[0]]}
        yield {"op": "split", "branches": [[{"k": "slice", "args": [2]}, ACCS[0]], [e, ACCS[3]]], "bufsize": 2, "flow": FLOW_A}
        if e["k"] != "bcall":
            yield {"op": "caps", "spec": e}
    # Filters from selectors of every form, flows on which the predicates raise
    yield from selfilter_cases(thorough)
    # a Split whose other branches are of any type (sequence, source, fill_request), before and after the chain
    yield from msplit_pattern_cases(thorough)
    # the flow handed over as a list / tuple / generator instead of a list iterator
    for ff in FLOWFORMS[1:]:
        for args in ([ACCS[0]], [{"k": "call", "f": "inc"}, ACCS[3]], [{"k": "slice", "args": [2]}, ACCS[0]],
                     [{"k": "filter", "p": "even"}, ACCS[2], {"k": "call", "f": "wrap"}]):
            for fl in (FLOW_A, [], [5]):
                yield {"op": "chain", "args": args, "flow": fl, "bufsizes": bufsizes_for(len(fl)), "flowform": ff,
                       "defaultbuf": True}
        yield {"op": "split", "branches": [[{"k": "slice", "args": [2]}, ACCS[0]], [{"k": "call", "f": "inc"}, ACCS[0]]],
               "bufsize": 2, "flow": FLOW_A, "flowform": ff}
        yield {"op": "split", "branches": [[{"k": "slice", "args": [2]}, ACCS[0]], [{"k": "call", "f": "inc"}, ACCS[3]]],
               "bufsize": 3, "flow": FLOW_A, "flowform": ff, "copy_buf": False}
    # a RunIf whose inner sequence keeps state between its one-value runs; accumulators beyond the four modelled ones
    # (the real drivers are compared with each other; the model is not asked)
    for inner in ([{"k": "count", "name": "n"}], [{"k": "acc", "a": "sum"}], [{"k": "call", "f": "inc"}, {"k": "acc", "a": "store", "group": False}],
                  [{"k": "acc", "a": "count", "name": "c"}, {"k": "call", "f": "wrap"}]):
        for p in ("all", "even"):
            for acc in (ACCS[3], ACCS[2]):
                for fl in (FLOW_C, FLOW_B, [1, 2, 3]):
                    yield {"op": "chain", "args": [{"k": "runif", "p": p, "inner": inner}, acc], "flow": fl,
                           "bufsizes": bufsizes_for(len(fl))}
    for w in WRAPS:
        for acc in (ACCS[0], ACCS[3], ORACLE_ACCS[0]):
            for fl in (FLOW_A, FLOW_B):
                yield {"op": "chain", "args": [w, acc], "flow": fl, "bufsizes": bufsizes_for(len(fl))}
                yield {"op": "chain", "args": [{"k": "slice", "args": [1, 5]}, w, acc, {"k": "wrap", "ad": "Run", "el": {"k": "call", "f": "wrap"}}],
                       "flow": fl, "bufsizes": [1, 2, None]}
    for acc in ORACLE_ACCS:
        for pre in ([], [{"k": "call", "f": "inc"}], [{"k": "filter", "p": "even"}, {"k": "slice", "args": [1, 4]}]):
            for fl in (FLOW_A, FLOW_C, []):
                yield {"op": "chain", "args": pre + [acc], "flow": fl, "bufsizes": bufsizes_for(len(fl))}
    # the hand-written capability tables of the model against the real objects
    for sp in (PRE_REPS + ACCS + [{"k": "count", "name": "n"}, {"k": "reverse"}, {"k": "end"}, {"k": "junk", "v": "int"},
                                  {"k": "setctx"}, {"k": "slice", "args": [-2]}, {"k": "filtert", "q": "odd"},
                                  {"k": "const", "v": 0}, {"k": "var", "name": "y", "f": "inc"},
                                  {"k": "runif", "p": "all", "inner": [{"k": "count", "name": "n"}]}]):
        yield {"op": "caps", "spec": sp}
    # the seeded sibling pattern: a branch that stops early before an ordinary chain, every bufsize
    for sl in ([2], [0], [1, 3]):
        for chain in ([{"k": "call", "f": "inc"}, ACCS[0]], [{"k": "filter", "p": "even"}, ACCS[3]], [ACCS[4]]):
            for order in (0, 1):
                bs = [[{"k": "slice", "args": sl}, ACCS[0]], chain]
                if order:
                    bs.reverse()
                for b in bufsizes_for(len(FLOW_A)):
                    yield {"op": "split", "branches": bs, "bufsize": b, "flow": FLOW_A}
                for form in ("prebuilt", "bare"):
                    yield {"op": "split", "branches": bs, "bufsize": 2, "flow": FLOW_A, "form": form}
                yield {"op": "splitfc", "branches": bs, "flow": FLOW_A}
            yield {"op": "splitfc", "branches": [chain, [{"k": "filter", "p": "lt5"}, ACCS[2]]], "flow": FLOW_A}
    # Split.__init__: seqs must be a list, bufsize a natural number or None
    one = [[{"k": "call", "f": "inc"}, ACCS[0]]]
    for b in (0, -1, -5):
        yield {"op": "split", "branches": one, "bufsize": b, "flow": FLOW_C}
    yield {"op": "split", "branches": one, "bufsize": 2, "flow": FLOW_C, "islist": False}
    yield {"op": "split", "branches": [[{"k": "junk"}, ACCS[0]]], "bufsize": 0, "flow": FLOW_C}
    # one element, its two faces (the driver-consistency lemmas), also for input flows that end in an exception
    stage_els = []
    for e in PRE_REPS + [{"k": "call", "f": f} for f in ("neg", "mod3", "ident")] + \
            [{"k": "slice", "args": a} for a in NONNEG_SLICES]:
        stage_els.extend(runif_variants(e) if e["k"] == "runif" else [e])
    for e in stage_els:
        for fl in STAGE_FLOWS:
            for term in (None, "Other:ValueError"):
                yield {"op": "stage", "el": e, "flow": fl, "term": term}
    # FillSeq.__init__
    yield {"op": "fillseq_init", "args": []}
    for a in FILLSEQ_ELS:
        yield {"op": "fillseq_init", "args": [a]}
        yield {"op": "fillseq_init", "args": [{"k": "setctx"}, a]}
        for b in FILLSEQ_ELS:
            yield {"op": "fillseq_init", "args": [a, b]}
    # ---- sampled ------------------------------------------------------------------------------------
    n_rand = 3200 if not thorough else 100000
    for _ in range(n_rand):
        in_scope = rng.random() < 0.8
        fl = gen_flow(rng)
        c = {"op": "chain", "args": gen_chain(rng, in_scope), "flow": fl, "bufsizes": bufsizes_sample(rng, len(fl))}
        if rng.random() < 0.4:
            c["flowform"] = rng.choice(FLOWFORMS[1:])
        if rng.random() < 0.3:
            c["defaultbuf"] = True
        yield c
    n_split = 1000 if not thorough else 45000
    for _ in range(n_split):
        c = gen_split_case(rng, rng.random() < 0.9)
        r = rng.random()
        if r < 0.15:
            c["form"] = "prebuilt"
        elif r < 0.3:
            c["form"] = "bare"
        if rng.random() < 0.3:
            c["flowform"] = rng.choice(FLOWFORMS[1:])
        if rng.random() < 0.25 and no_mutation(c["branches"]):
            c["copy_buf"] = False      # the branches see the same objects: only for branches that do not change them
        yield c
        if rng.random() < 0.3:
            yield {"op": "splitfc", "branches": c["branches"], "flow": c["flow"]}
    n_msplit = 1500 if not thorough else 45000
    for _ in range(n_msplit):
        yield gen_msplit_case(rng, rng.random() < 0.9)
    n_stage = 500 if not thorough else 20000
    for _ in range(n_stage):
        yield {"op": "stage", "el": gen_pre_el(rng, rng.random() < 0.9), "flow": gen_flow(rng),
               "term": rng.choice([None, None, "Other:ValueError", "Other:TypeError"])}


def search_cases(ctx):
    return gen_cases(ctx)


# ----------------------------------------------------------------------------------------

def _kinds(spec, out, fine=True):
    """fine: with the form of a callable / the name of a C callable (labels); coarse: the kind only (signatures: one
    failing input is minimised per signature)"""
    k = spec["k"]
    if k == "acc":
        out.append("acc:" + spec["a"])
    elif k == "slice":
        a = spec["args"]
        out.append("slice:" + ("neg" if any(x is not None and x < 0 for x in a) else "islice"))
    elif fine and k in ("call", "const") and spec.get("form"):
        out.append(k + ":" + spec["form"])
    elif fine and k == "bcall":
        out.append("bcall:" + spec["b"])
    elif k == "filter" and "sel" in spec:
        out.append("filter:" + spec["sel"]["s"] if fine else "filter:sel")
    else:
        out.append(k)
    for s in spec.get("inner", []):
        _kinds(s, out, fine)


def nontrivial(case, res):
    op = case["op"]
    if op == "adapter":
        return res.get("e") is None
    if op == "chain":
        return len(case["args"]) >= 2 and "r" in res["seq"] and bool(res["seq"]["r"])
    if op in ("split", "msplit"):
        return "r" in res["split"] and bool(res["split"]["r"])
    if op == "stage":
        return "fill" in res and bool(res["fill"]["got"])
    if op == "splitfc":
        return "r" in res["fc"] and bool(res["fc"]["r"])
    return False


def classify(case, res):
    """few, coarse labels (the evidence keeps the 60 most frequent ones)"""
    op = case["op"]
    labels = ["op:" + op]
    if op == "adapter":
        labels.append("adapter:" + case["adapter"] + ":" + ("rejected" if res.get("e") else "accepted"))
        return labels
    if op == "stage":
        if "fill" in res:
            labels.append("stage-end:" + res["fill"]["end"] + (":input-raises" if case.get("term") else ""))
        return labels
    if op == "fillseq_init":
        labels.append("fillseq_init:" + ("ok" if res["res"].get("ok") else res["res"].get("e", "?")))
        return labels
    if op == "caps":
        return labels
    if op == "splitfc":
        labels.append("splitfc:" + ("skip" if "skip" in res["fc"] else "init" if "e" in res["fc"] else
                                    "all-normal" if all(n is True for n in res["normal"]) else "a-branch-stops"))
        return labels
    ks = []
    for s in _case_specs(case):
        _kinds(s, ks)
    labels += ["el:" + k for k in sorted(set(ks))]
    if op == "msplit":
        labels += ["branch:" + t for t in sorted(set(b["ty"] for b in case["branches"]))]
        labels.append("msplit-order:" + ",".join(b["ty"][:2] for b in case["branches"][:3]))
        if not msplit_modelled(case):
            labels.append("oracle-only")
    if oracle_only(_case_specs(case)):
        labels.append("oracle-only")
    if case.get("flowform"):
        labels.append("flowform:" + case["flowform"])
    if op == "chain":
        v = res["seq"]
        labels.append("seq:" + ("init" if "e" in v else ("ok" if v["t"] is None else "raises")))
        labels.append("safe:" + str(res["safe"]))
        f = res["fill"]
        if "r" in v and "r" in f and v != f:
            labels.append("lookahead-divergence")
    else:
        sp = res["split"]
        labels.append("split:" + ("init" if "e" in sp else ("ok" if sp["t"] is None else "raises")))
        if case.get("copy_buf") is False:
            labels.append("copy_buf=False")
    return labels


def signature(case, failure):
    op = case["op"]
    if op in ("chain", "split", "stage", "fillseq_init") and "Other:AttributeError" in str(failure) and \
            any(x.get("k") == "wrap" and x.get("ad") == "FillInto" for x in _case_specs(case)):
        return "chain:FillInto.__repr__ raises AttributeError"           # notes/C05_defect_2.md
    if op == "adapter":
        if case.get("given") in ("str", "int"):
            return "adapter:Run(None, run=<not callable>)"
        return f"adapter:{case['adapter']}:{case['el']['k']}:{case.get('name')}:{case.get('name2')}"
    ks = []
    els = (case["args"] if op in ("chain", "fillseq_init") else [case["el"]] if op == "stage"
           else _case_specs(case))
    if op == "msplit":
        # the types of the branches and whether the failure is about a chain's values or about an exception
        what = "raised" if "raised" in str(failure) else "values"
        return "msplit:" + "/".join(b["ty"] for b in case["branches"]) + ":" + what
    for s in els:
        _kinds(s, ks, fine=False)
    return op + ":" + ",".join(ks) + ":" + str(len(case.get("flow", [])))


def shrink(case):
    op = case["op"]
    if op == "chain":
        args = case["args"]
        for i in range(len(case["flow"])):
            fl = case["flow"][:i] + case["flow"][i + 1:]
            yield dict(case, flow=fl, bufsizes=bufsizes_for(len(fl)))
        for i, e in enumerate(args):
            if e["k"] != "acc" or sum(1 for x in args if x["k"] == "acc") > 1:
                yield dict(case, args=args[:i] + args[i + 1:])
            if e.get("inner"):
                for j in range(len(e["inner"])):
                    e2 = dict(e, inner=e["inner"][:j] + e["inner"][j + 1:])
                    yield dict(case, args=args[:i] + [e2] + args[i + 1:])
            if e["k"] == "filter" and "sel" in e:
                for y in sel_shrinks(e["sel"]):
                    yield dict(case, args=args[:i] + [dict(e, sel=y)] + args[i + 1:])
        if len(case["bufsizes"]) > 1:
            for b in case["bufsizes"]:
                yield dict(case, bufsizes=[b])
    elif op == "stage":
        for i in range(len(case["flow"])):
            yield dict(case, flow=case["flow"][:i] + case["flow"][i + 1:])
        if case.get("term"):
            yield dict(case, term=None)
        if case["el"]["k"] == "filter" and "sel" in case["el"]:
            for y in sel_shrinks(case["el"]["sel"]):
                yield dict(case, el=dict(case["el"], sel=y))
    elif op == "fillseq_init":
        for i in range(len(case["args"])):
            yield dict(case, args=case["args"][:i] + case["args"][i + 1:])
    elif op == "msplit":
        bs = case["branches"]
        nchain = sum(1 for b in bs if b["ty"] == "chain")

        def retag(bl):
            """after a branch was dropped the indices change: the tags follow"""
            out = []
            for i, b in enumerate(bl):
                els = [e for e in b["els"] if not (e.get("k") == "var" and str(e.get("name", ""))[:1] == "B"
                                                   and str(e.get("name"))[1:].isdigit())]
                if len(els) != len(b["els"]):
                    els = els + [tag_spec(i)]
                out.append(dict(b, els=els))
            return out
        for i in range(len(bs)):
            if len(bs) > 1 and (bs[i]["ty"] != "chain" or nchain > 1):
                yield dict(case, branches=retag(bs[:i] + bs[i + 1:]))
        for i in range(len(case["flow"])):
            yield dict(case, flow=case["flow"][:i] + case["flow"][i + 1:])
        for i, b in enumerate(bs):
            for j, e in enumerate(b["els"]):
                if e["k"] != "acc" and e != tag_spec(i):
                    yield dict(case, branches=bs[:i] + [dict(b, els=b["els"][:j] + b["els"][j + 1:])] + bs[i + 1:])
            if b["ty"] == "source" and b["vals"]:
                yield dict(case, branches=bs[:i] + [dict(b, vals=b["vals"][:-1])] + bs[i + 1:])
            if b.get("form"):
                yield dict(case, branches=bs[:i] + [{k: v for k, v in b.items() if k != "form"}] + bs[i + 1:])
        for k in ("flowform",):
            if k in case:
                yield {kk: v for kk, v in case.items() if kk != k}
    elif op in ("split", "splitfc"):
        bs = case["branches"]
        for i in range(len(bs)):
            if len(bs) > 1:
                yield dict(case, branches=bs[:i] + bs[i + 1:])
        for i in range(len(case["flow"])):
            yield dict(case, flow=case["flow"][:i] + case["flow"][i + 1:])
        for i, b in enumerate(bs):
            for j, e in enumerate(b):
                if e["k"] != "acc":
                    yield dict(case, branches=bs[:i] + [b[:j] + b[j + 1:]] + bs[i + 1:])


# ---- MANIFEST texts ------------------------------------------------------------------------
LEVEL_TEXT = ("Lean 4 theorems about a transcribed model of the three drivers of a chain pre* acc post* (Sequence.run over "
              "lazily evaluated streams; the _Fill chain of FillSeq/FillComputeSeq filled value by value until LenaStopFill; "
              "Split.run with branches of all four types, any bufsize, any number of sibling branches in any order; "
              "Split.fill/compute), for "
              "ALL chains of callables, Filters, non-negative Slices and stateless flow-breaking Run elements, all "
              "accumulators that are state machines, all post-processing stages, finite flows and bufsizes. Sentence 1 as "
              "written is refuted (three_drivers_agree_full_false: look-ahead value of Slice.fill_into); proved are the "
              "statement under the hypothesis PreSafe (sound and complete executable check), the statement without a Slice, "
              "and the unconditional equality FillComputeSeq = Split branch; per-element driver-consistency lemmas; what "
              "holds outside the property's kinds. Sentence 2 (adapters) is checked by a complete enumeration against the "
              "real adapters, with Lean dispatch tables and denotations of the bound methods as the model. Tied to /repo by "
              "a correspondence check that executes every executable definition the theorems mention, and a direct oracle "
              "comparing the real drivers (also for stateful RunIf bodies, further accumulators, explicit adapter objects, "
              "None values, non-bool selectors, list/tuple/generator flows, which the model does not express).")
LEVEL_NOTE = ("Trusted: Lean kernel (+ propext, Classical.choice, Quot.sound), the hand transcription validated by the "
              "correspondence run, generator/islice semantics as transcribed, the JSON protocol. Not proved: sentence 1 "
              "without PreSafe (false), chains with a Slice in which an element raises on a value both drivers evaluate, "
              "RunIf with a stateful inner sequence, sentence 2 beyond dispatch tables.")
TECHNIQUE = "Lean 4 proof over hand-written model + correspondence check (exhaustive small scopes, seeded sampling)"
DESIGN_REF = "DESIGN.md section 3, C05"
