"""C10 — selective elements pass the values they do not select through unchanged.

Real code: lena.output.ToCSV / Write / RenderLaTeX / LaTeXToPDF / PDFToPNG, lena.structures.HistToGraph /
MapBins / IterateBins, lena.flow.RunIf, lena.flow.MapGroup(map_scalars=False).
Model: lean/LenaModel/Model/C10.lean, theorems lean/LenaModel/Props/C10.lean, driver lean/drivers/C10.lean.

A case is one element, a list A of values the element selects, a list B of values it does not, and an
interleaving pattern.  The real element is run twice, on merge(pat, A, B) and on A alone, each time on freshly
built values in a freshly prepared temporary directory, behind an instrumented input iterator (which gives
the blocks of outputs per consumed value and the directory snapshots around every unselected value).
The converters are stubbed in the harness only (a fake `subprocess` module object is put into
lena.output.latex_to_pdf / pdf_to_png for the duration of a run; /repo is never touched).
"""
import copy
import inspect
import itertools
import os
import shutil
import tempfile
import types
import warnings

from harness.common import exc_name

PID = "C10"
TITLE = "Elements pass values they do not select through unchanged"
LEAN_MODULES = ["LenaModel.Props.C10"]
LEAN_SOURCES = ["LenaModel/Model/C10.lean", "LenaModel/Lemmas/C10.lean", "LenaModel/Props/C10.lean"]
DRIVER = "drivers/C10.lean"
# the theorems that carry the property (Props/C10.lean; the numbers are the sections of that file)
THEOREMS = [
    # 1. the generic law for `for val in flow: <body>` with a body that passes what `sel` rejects
    "Lena.C10.interleave_law",
    "Lena.C10.selected_independent",
    "Lena.C10.selected_independent_of_pattern",
    "Lena.C10.unselected_same_objects_in_order",
    "Lena.C10.unselected_sublist_of_out",
    "Lena.C10.state_untouched_by_unselected",
    "Lena.C10.every_flow_is_an_interleaving",
    "Lena.C10.run_determined_by_selected",
    # 2. the transcribed loop bodies pass what the DOCUMENTED selection rule (…Doc, written over docGet) rejects
    "Lena.C10.toCSV_passes_doc",
    "Lena.C10.write_passes_doc",
    "Lena.C10.render_passes_doc",
    "Lena.C10.png_passes_doc",
    "Lena.C10.histToGraph_passes_doc",
    "Lena.C10.mapGroup_passes_doc",
    "Lena.C10.iterateBins_passes",
    "Lena.C10.mapBins_passes",
    "Lena.C10.runIf_passes",
    # 3. recorded behaviour of Write's "already written" branch
    "Lena.C10.write_already_written",
    "Lena.C10.write_already_written_adds_output",
    # 4. LaTeXToPDF (process pool): identity/order, file system, exception, multiset; a used object
    "Lena.C10.pdf_unselected_same_objects_in_order",
    "Lena.C10.pdf_unselected_touches_only_pool_files",
    "Lena.C10.pdf_fs_untouched_elsewhere",
    "Lena.C10.pdf_fs_untouched_of_unselected",
    "Lena.C10.pdf_loop_spec",
    "Lena.C10.pdf_loop_err",
    "Lena.C10.pdf_err_determined",
    "Lena.C10.pdf_err_independent",
    "Lena.C10.pdf_selected_multiset",
    "Lena.C10.pdf_selected_independent",
    "Lena.C10.pdf_failing_run_independent_full_false",
    "Lena.C10.pdf_from_unselected_same_objects_in_order",
    "Lena.C10.pdf_from_err_determined",
    "Lena.C10.pdf_from_selected_multiset",
    # 4b/4c. pipelines, loops with a tail (GroupPlots)
    "Lena.C10.pipe_passes",
    "Lena.C10.pipeAll_passes",
    "Lena.C10.insert_invisible_before",
    "Lena.C10.insert_invisible_after",
    "Lena.C10.pipeline_interleave",
    "Lena.C10.interleave_law_tail",
    # 4d. locality: reference semantics = value-passing semantics
    "Lena.C10.shared_eq_loop_of_local",
    # 4e. (adversary round) the selection by output.filetype is exact — a dictionary / list containing the word, another
    # spelling, the word elsewhere in the context do not select; reference semantics: an unselected value changes no
    # context object
    "Lena.C10.filetype_sel_iff",
    "Lena.C10.png_passes_unless_filetype_is_pdf",
    "Lena.C10.render_passes_unless_filetype_is_csv",
    "Lena.C10.pdf_passes_unless_filetype_is_tex",
    "Lena.C10.shared_unselected_untouched",
    # 4f. (seed round I/J) the bin `select_bins` is shown — get_example_bin(hist) — is the WHOLE bin with zero index on
    # every axis, also when it is a list: histograms whose bins hold containers are selected by the class of the
    # container only
    "Lena.C10.exampleOfHist_wellShaped",
    "Lena.C10.iterateBinsStepE_eq",
    "Lena.C10.mapBinsStepE_eq",
    "Lena.C10.iterateBinsE_passes",
    "Lena.C10.mapBinsE_passes",
    "Lena.C10.iterateBins_container_bins_pass",
    "Lena.C10.mapBins_container_bins_pass",
]
# instances, unfoldings, glue and free theorems: audited, not counted as proof obligations of the property
AUX_THEOREMS = [
    "Lena.C10.interleave_out",
    "Lena.C10.toCSV_passes", "Lena.C10.write_passes", "Lena.C10.render_passes", "Lena.C10.png_passes",
    "Lena.C10.histToGraph_passes", "Lena.C10.mapGroup_passes", "Lena.C10.groupPlots_passes",
    "Lena.C10.docGet_eq_getRec", "Lena.C10.toCSVSel_eq_doc", "Lena.C10.writeSel_eq_doc", "Lena.C10.isCsv_eq_doc",
    "Lena.C10.pngSel_eq_doc", "Lena.C10.pdfSel_eq_doc", "Lena.C10.histToGraphSel_eq_doc", "Lena.C10.mapGroupSel_eq_doc",
    "Lena.C10.toCSV_interleave", "Lena.C10.write_interleave", "Lena.C10.render_interleave", "Lena.C10.png_interleave",
    "Lena.C10.histToGraph_interleave", "Lena.C10.iterateBins_interleave", "Lena.C10.mapBins_interleave",
    "Lena.C10.runIf_interleave", "Lena.C10.mapGroup_interleave", "Lena.C10.groupPlots_interleave",
    # free theorems of "this loop body is polymorphic in the state" (the clause "without touching the file system"
    # for these five elements rests on the harness's directory snapshots)
    "Lena.C10.toCSV_state_untouched", "Lena.C10.render_state_untouched", "Lena.C10.histToGraph_state_untouched",
    "Lena.C10.iterateBins_state_untouched", "Lena.C10.mapBins_state_untouched",
    # true of any model whose new objects are made with `mk` / `Tok.made`
    "Lena.C10.toCSV_same_object_iff", "Lena.C10.render_same_object_iff", "Lena.C10.png_same_object_iff",
    "Lena.C10.histToGraph_same_object_iff", "Lena.C10.iterateBins_same_object_iff", "Lena.C10.mapBins_same_object_iff",
    "Lena.C10.mapGroup_same_object_iff",
    "Lena.C10.pdf_unselected_step", "Lena.C10.keysOK_of_keysOKb", "Lena.C10.liftFS_passes", "Lena.C10.local_of_localB",
    "Lena.C10.pdfRun_eq_from", "Lena.C10.pdf_from_pool_after",
    "Lena.C10.toCSV_ctxLocal", "Lena.C10.write_ctxLocal", "Lena.C10.render_ctxLocal", "Lena.C10.png_ctxLocal",
    "Lena.C10.histToGraph_ctxLocal", "Lena.C10.iterateBins_ctxLocal", "Lena.C10.mapBins_ctxLocal",
    "Lena.C10.runIf_ctxLocal", "Lena.C10.write_shared_interleave", "Lena.C10.Heap.get_set",
    "Lena.C10.kindOfPyV_binVal", "Lena.C10.getBinOnIndex_nestBins", "Lena.C10.exampleOfArray_nestBins",
    "Lena.C10.exampleOfArray_eq_exampleOfHist_of_not_list", "Lena.C10.arrayDescent_differs",
]
TRUSTED = [
    "Lean 4.33.0 kernel; axioms limited to propext, Classical.choice, Quot.sound (audited by #print axioms on every run)",
    "hand transcription of the run loops of ToCSV, Write, RenderLaTeX, LaTeXToPDF, PDFToPNG, HistToGraph, MapBins, "
    "IterateBins, RunIf, MapGroup, GroupPlots into LenaModel/Model/C10.lean, validated — not proved — by this "
    "correspondence check on the generated cases",
    "the documented selection rules: written twice, independently of the loops — in Lean (`toCSVDoc`, `writeDoc`, "
    "`renderDoc`, `pdfDoc`, `pngDoc`, `histToGraphDoc`, `mapGroupDoc` over `docGet`; proved equal to the guards "
    "transcribed from the code) and in Python (ref_selected, used to sort generated values into A and B); the two are "
    "compared on every generated value.  For IterateBins / MapBins / RunIf / GroupPlots the rule is the user's "
    "selector itself",
    "the stand-ins for user-supplied callables (Model/C10.lean: SelSpec/evalSel for lena.flow.Selector, "
    "InnerKind/innerApply, CellInnerKind, KeyKind, SelTemplateKind) and their Python twins in this module "
    "(_make_selector, _Id, _Dup, …): a second hand transcription, of the harness's own classes; no theorem depends "
    "on them (the theorems quantify over all functions in these places)",
    "JSON line protocol encoders (harness/props/c10.py, drivers/C10.lean)",
]
ASSUMPTIONS = [
    "selection predicates, select_template, group_by and inner sequences are functions of the value (and, for inner "
    "sequences, of an explicit state) in the model; a real Selector that raises or keeps hidden state is outside",
    "payload shape: a produced CSV text is modelled by its number of lines (that is where duplicate_last_bin and the "
    "header show); its characters are compared between the two real runs by the oracle only",
    "payload abstraction: the text of a produced CSV/LaTeX value, the points of a produced graph, and the context "
    "entries histogram/value/bins/bin/group are uninterpreted in the model (compared between the two real runs by "
    "the oracle, not with the model); `intact` sees foreign objects through their class and `id` attribute and "
    "graphs through repr only",
    "locality (hypothesis `Local` of the token model, Props/C10.lean section 4d): distinct flow values do not share "
    "mutable context objects.  It is needed: on flows that violate it the real code fails the property (aliasing "
    "cases, labels alias:ctx-shared:property-fails) exactly as the model's reference semantics predicts; under "
    "Local the reference semantics and the value-passing loops coincide (shared_eq_loop_of_local; CtxLocal proved "
    "for ToCSV, Write, RenderLaTeX, PDFToPNG, HistToGraph, IterateBins, MapBins, for RunIf under the same hypothesis "
    "on its inner sequence; MapGroup and LaTeXToPDF: correspondence only)",
    "the file system for ToCSV, RenderLaTeX, HistToGraph, IterateBins, MapBins: their transcribed loop bodies are "
    "polymorphic in the state, so `…_state_untouched` are free theorems; that the real elements do not touch the "
    "directory rests on the per-value directory snapshots of the oracle",
    "pipelines: every modelled element finishes the side effects of a step before its first yield, so a Sequence is "
    "modelled at the granularity of blocks (pipeStep); validated by the correspondence on 10 pipelines.  Pipelines "
    "that contain LaTeXToPDF or GroupPlots (a pool / a tail: inserting LaTeXToPDF delays and reorders what the next "
    "element receives) are NOT covered by pipeStep, insert_invisible_* and pipeline_interleave",
    "LaTeXToPDF: weaker claim than for the other elements, by necessity — results of selected values are compared as "
    "multisets and only for runs that end normally (pdf_failing_run_independent_full_false: for failing runs the "
    "statement is false of the code, the timing of the external processes decides); selected values of one flow "
    "(and of the flows one object is used for) have pairwise different file names and no tex name is a pdf name "
    "(KeysOK); the final file system is characterised by where it may differ (pdf_fs_untouched_elsewhere), not by a "
    "full equality; converters (pdflatex, pdftoppm) are stubs that write the expected output file into an existing "
    "directory, with content independent of the source; when a process terminates is an explicit schedule (per "
    "process: the iteration of the current run from which poll() reports termination, and the return code)",
    "Write: an object that writes itself (`data.write(path)`) opens the file without creating directories (lena does "
    "not create them in that branch); an existing path that is a directory is outside the model",
    "modification times: a logical clock in the model, os.utime'd values below the wall clock in the harness (new "
    "files get `now`)",
    "mutation of DATA objects is not in the model (flow values are immutable there; only context dictionaries have "
    "reference semantics, sharedStep / shared_unselected_untouched): that an unselected value's data — a one-shot "
    "iterable, the bins of a histogram, lists / dictionaries inside the data, the attributes of a foreign object — "
    "is left as it was is judged by the oracle alone (content before / after the run, what is left in an iterator)",
    "constructors (`__init__`) and anything outside the output directory are not in the model: that constructing and "
    "running an element which selects nothing leaves the output directory, the temporary directory, the current "
    "directory, HOME and the template directory as they were is judged by the oracle's snapshots (other places of "
    "the machine are not watched)",
    "adversary candidates judged (notes/adversary_C10.md): 1 (MapGroup reads unselected generators), 2 (PDFToPNG "
    "selects by `contains`), 3 (HistToGraph touches the bins before the to_graph test), 4 (LaTeXToPDF yields failed "
    "conversions), 5 (RenderLaTeX creates a byte-code cache directory) are all inside the statement and quantifier",
    "seed C10-J (IterateBins tests get_example_bin(data.bins): the descent into a list-valued bin 0 raises IndexError "
    "on / takes apart a histogram it does not select) is inside the statement and quantifier (notes/adversary_C10.md, "
    "seed round I/J)",
    "histograms whose bins hold containers (lists — empty, of numbers, of histograms, of pairs, nested — tuples, "
    "dictionaries; what SplitIntoBins(StoreFilled(), …) makes) are generated as UNSELECTED values only (for every "
    "element; sorted by the class of the container for IterateBins / MapBins, so tuples are left out where "
    "select_bins names tuple, and all of them for MapBins without select_bins).  As SELECTED values they are outside "
    "the modelled fragment: `cell` gives a placeholder for them and MapBins' md_map would descend into lists in bins.  "
    "In the model all bins of a histogram are alike (one PyV per kind); the Python objects differ per bin (for "
    "list:empty bin 0 is empty and the others hold entries)",
    "`Exc.unmodelled`: the model declines; a generated case that reaches it is reported as a disagreement, so the "
    "theorems speak about lena only for the cases the correspondence accepts",
]
RULE = ("per element configuration (the 10 elements of the statement plus GroupPlots, each with several constructor "
        "settings / selectors / inner sequences — RenderLaTeX with string and callable select_template, select_data, "
        "from_data; HistToGraph with make_value / get_coordinate / field_names / scale; Write with a static-context "
        "output directory; MapGroup on groups made by the real group_plots — 10 pipelines Sequence(E1,...,En), and "
        "LaTeXToPDF / PDFToPNG once more with real converter processes): lists A (values the element's documented rule selects, error-raising ones included) and B (values "
        "it does not select: numbers, strings, None, floats, tuples, lists, bytes, bare dicts, foreign objects, pairs "
        "with unrelated context, pairs with disabling context such as output.write/to_csv False, histograms of the "
        "wrong kind — since seed round I/J also histograms whose BINS HOLD CONTAINERS: a list per bin (empty in bin 0, "
        "of numbers, of histograms, of (data, context) pairs, nested, nested with an empty first list), a tuple "
        "(empty, starting with a histogram), a dictionary (also with a histogram under the key 0), 1 to 3 dimensions, "
        "bare and with context, for IterateBins / MapBins in every B palette and switched off through the context "
        "for every other element; for IterateBins / MapBins the bin get_example_bin(hist) returns is compared with "
        "the model's exampleOfHist on every histogram of the flow — and unselected values whose context carries the settings the element reads for selected ones: "
        "output.duplicate_last_bin/to_csv/write/filename/dirname/fileext/filetype/template/changed; since the "
        "adversary round also: one-shot iterables — a generator, a list iterator, an iterator object, bare and in "
        "pairs with enabling contexts — which must still hold all their items afterwards; values with (data, "
        "context) pairs / dictionaries / lists inside their data, histograms of (data, context) bins; per element "
        "contexts CLOSE to its selection rule: the entry the rule reads holds a dictionary or list containing the "
        "word, another spelling, a number, every falsy / truthy value of another type, or the word / the switch "
        "stands at another place of the context — on data the element would act on; and the element's own selected "
        "palette values, the error-raising ones included, switched off through the context) are drawn from "
        "fixed palettes with ctx.rng; while an element is constructed and run, the temporary directory (TMPDIR, "
        "tempfile.tempdir), the current directory and HOME are fresh directories of the case and are watched like "
        "the output directory, as is the directory of the templates; flows without any selected value (the empty flow included) over not yet "
        "existing output directories are part of every size sweep; (1) every palette value once with a value of the "
        "other kind, both orders (the values added in the adversary round: one of the two orders in quick); (2) for drawn (A, B) with |A|,|B| <= 3 (1 draw per size pair in quick, 10 in "
        "thorough) ALL interleaving patterns are enumerated (exhaustive up to 3+3); (3) thorough adds random "
        "patterns with |A|,|B| <= 6.  Quick keeps a cross of the 54 RunIf selector x inner-sequence settings. "
        "Besides: the same element object used for a second flow (also after a flow of unselected values only), and "
        "flows whose values share objects (one context dictionary in two pairs, one object at two positions) — the "
        "latter are outside the property (locality); they are compared with the model's reference semantics "
        "(sharedStep/finalView) and counted (labels alias:*), not judged. "
        "Non-trivial: at least one value of A and one of B in the flow.")
CASE_TIMEOUT = 20

OPAQUE_KEYS = ("histogram", "value", "bins", "bin", "group")

# ----------------------------------------------------------------------------------------------------
# value specs -> Python objects / model items


class Foreign(object):
    def __init__(self, id):
        self.id = id


class BadWrite(object):
    """has an attribute `write` that is not callable"""
    write = 5

    def __init__(self, id):
        self.id = id


class Writable(object):
    """an object that writes itself; like most, it does not create the directory"""
    def __init__(self, id):
        self.id = id

    def write(self, filepath):
        with open(filepath, "w") as f:
            f.write("OBJ%d" % self.id)


class LookAlike(object):
    """a foreign object that has the attributes of a histogram — not a histogram"""
    def __init__(self, id):
        self.id = id
        self.bins, self.edges, self.dim, self.nbins, self.ranges = [1, 2], [0, 1, 2], 1, [2], [(0, 2)]


class OneShot(object):
    """an iterator object (`__iter__` returns itself): iterating over it uses it up; `pos` shows how far it was read"""
    def __init__(self, id):
        self.id, self.pos = id, 0

    def __iter__(self):
        return self

    def __next__(self):
        if self.pos >= 2:
            raise StopIteration
        self.pos += 1
        return (self.id, 2)[self.pos - 1]


ITER_KINDS = ("gen", "iter", "oneshot")          # one-shot iterables: `_iter_items` is what they hold


def _iter_items(d):
    return [d["id"], 2]


class Rows(object):
    def __init__(self, id, rk):
        self.id, self.rk = id, rk

    def rows(self):
        if self.rk == "ok":
            return [(1, self.id), (3, 4)]
        if self.rk == "empty":
            return []
        return 5


class RowsUpd(Rows):
    def _update_context(self, context):
        context["value"] = {"rows": self.id}


class BadRows(Rows):
    """an attribute `rows` that is not a method (a table object holding its rows)"""
    rows = [(1, 2), (3, 4)]


class Inner1(Exception):
    pass


class Inner2(Exception):
    pass


def _subst(o, root):
    if isinstance(o, str):
        return o.replace("$R", root)
    if isinstance(o, list):
        return [_subst(x, root) for x in o]
    if isinstance(o, dict):
        return {k: _subst(v, root) for k, v in o.items()}
    return o


def _canon_str(s, root):
    return s.replace(root, "$R")


# bins that hold CONTAINERS (seed round I/J): "<class>:<what stands at index 0>" — a list / tuple / dictionary per bin.
# `SplitIntoBins(StoreFilled(), …)` makes histograms of lists (an empty list for a bin without entries); MapBins
# documents `select_bins=[vector3, list]`.  A container in a bin is the bin: no element may look inside it to decide.
CONT_BINS = ("list:empty", "list:num", "list:hist", "list:pair", "list:list", "list:elist",
             "tuple:empty", "tuple:hist", "dict:empty", "dict:hist")


def _cont_items(first, i):
    import lena.structures
    inner = lambda k: lena.structures.histogram([0, 1], [k])
    if first == "empty":
        return []
    if first == "num":
        return [i, i + 1]
    if first == "hist":
        return [inner(i), inner(i + 1)]
    if first == "pair":
        return [(i, {"a": 1})]
    if first == "list":
        return [[i], []]
    if first == "elist":
        return [[], i]
    raise ValueError(first)


def _cell(kind, hid, i):
    import lena.structures
    if kind == "num":
        return i
    if kind == "hist":
        return lena.structures.histogram([0, 1], [i])
    if kind == "vec":
        return (i, 0, 0)
    if kind == "pair":
        return (i, {"a": 1})
    cls, first = kind.split(":")
    items = _cont_items(first, i)
    if cls == "list":
        # "list:empty": the first bin has no entries, the others have (what StoreFilled leaves)
        return items if items or i == 0 else [i] * i
    if cls == "tuple":
        return tuple(items)
    if cls == "dict":
        return {0: items[0], "h": i} if items else {"h": i}       # `first`: what stands under the key 0
    raise ValueError(kind)


def kind_of_bin(o):
    """the kind (vocabulary of `_cell`) of an object found in a bin — for comparing `get_example_bin` with the model"""
    import lena.structures
    hist = lena.structures.histogram

    def first_of(items):
        if not items:
            return "empty"
        x = items[0]
        if isinstance(x, hist):
            return "hist"
        if isinstance(x, tuple) and len(x) == 2 and isinstance(x[1], dict):
            return "pair"
        if isinstance(x, list):
            return "list" if x else "elist"
        return "num"
    if isinstance(o, bool):
        return "?bool"
    if isinstance(o, int):
        return "num"
    if isinstance(o, hist):
        return "hist"
    if isinstance(o, list):
        return "list:" + first_of(o)
    if isinstance(o, tuple):
        if len(o) == 2 and isinstance(o[1], dict):
            return "pair"
        if len(o) == 3 and all(isinstance(x, int) for x in o):
            return "vec"
        return "tuple:" + first_of(o)
    if isinstance(o, dict):
        return "dict:" + first_of([o[0]] if 0 in o else [])
    return "?" + type(o).__name__


def _nest(shape, it):
    if len(shape) == 1:
        return [next(it) for _ in range(shape[0])]
    return [_nest(shape[1:], it) for _ in range(shape[0])]


def build_data(d, root):
    import lena.structures
    k = d["k"]
    if k == "int":
        return int(str(d["v"]))
    if k == "str":
        return "".join(list(_subst(d["v"], root)))
    if k == "none":
        return None
    if k == "float":
        return float(d["v"])
    if k == "obj":
        return Foreign(d["id"])
    if k == "bytes":
        return bytes(bytearray(b"bytes%d" % d["id"]))
    if k == "baredict":
        return _subst(copy.deepcopy(d["v"]), root)
    if k == "seq":
        items = [build_data(x, root) for x in d["items"]]
        return tuple(items) if d["tuple"] else items
    if k == "writable":
        return Writable(d["id"])
    if k == "badwrite":
        return BadWrite(d["id"])
    if k == "rows":
        if d["rk"] == "notcallable":
            return BadRows(d["id"], d["rk"])
        return (RowsUpd if d["upd"] else Rows)(d["id"], d["rk"])
    if k == "lookalike":
        return LookAlike(d["id"])
    if k == "bool":
        return True
    if k == "set":
        return {d["id"], -1}
    if k == "gen":
        return (x for x in (d["id"], 2))
    if k == "iter":
        return iter([d["id"], 2])
    if k == "oneshot":
        return OneShot(d["id"])
    if k == "hist":
        shape = d["shape"]
        cells = iter([_cell(d["bin"], d["id"], i) for i in range(_prod(shape))])
        bins = _nest(shape, cells)
        edges = [list(range(n + 1)) for n in shape]
        if d["dim"] == 1:
            edges = edges[0]
        return lena.structures.histogram(edges, bins)
    raise ValueError(k)


def _prod(shape):
    p = 1
    for n in shape:
        p *= n
    return p


def build_value(spec, root):
    if spec["d"]["k"] == "gplots":
        # a group made by the real lena.flow.group_plots from its members: ([data, …], context with `group`)
        from lena.flow.group_plots import group_plots
        return group_plots([build_value(m, root) for m in spec["d"]["members"]])
    data = build_data(spec["d"], root)
    if spec.get("c") is None:
        return data
    return (data, _subst(copy.deepcopy(spec["c"]), root))


def model_cv(o):
    if isinstance(o, dict):
        return {"d": [[k, model_cv(v)] for k, v in o.items()]}
    if isinstance(o, list):
        return {"l": [model_cv(v) for v in o]}
    return o


def model_data(d):
    k = d["k"]
    if k in ("int", "str"):
        return {"k": k, "v": d["v"]}
    if k == "none":
        return {"k": "other", "cls": "NoneType", "id": 0, "iter": False}
    if k == "float":
        return {"k": "other", "cls": "float", "id": 0, "iter": False}
    if k == "obj":
        return {"k": "other", "cls": "Foreign", "id": d["id"], "iter": False}
    if k == "bytes":
        return {"k": "other", "cls": "bytes", "id": 0, "iter": True}
    if k == "baredict":
        return {"k": "other", "cls": "dict", "id": 0, "iter": True}
    if k == "badwrite":
        return {"k": "other", "cls": "BadWrite", "id": d["id"], "iter": False}
    if k == "lookalike":
        return {"k": "other", "cls": "LookAlike", "id": d["id"], "iter": False}
    if k == "bool":
        return {"k": "other", "cls": "bool", "id": 0, "iter": False}
    if k == "set":
        return {"k": "other", "cls": "set", "id": 0, "iter": True}
    if k == "gen":
        return {"k": "other", "cls": "generator", "id": 0, "iter": True}
    if k == "iter":
        return {"k": "other", "cls": "list_iterator", "id": 0, "iter": True}
    if k == "oneshot":
        return {"k": "other", "cls": "OneShot", "id": 0, "iter": True}
    if k == "seq":
        return {"k": "seq", "tuple": d["tuple"], "items": [model_data(x) for x in d["items"]]}
    if k == "writable":
        return {"k": "writable", "id": d["id"]}
    if k == "rows":
        return {"k": "rows", "id": d["id"], "rk": d["rk"], "upd": d["upd"]}
    if k == "hist":
        return {"k": "hist", "id": d["id"], "dim": d["dim"], "shape": d["shape"], "bin": d["bin"]}
    raise ValueError(k)


def _gplots_ctx(spec):
    """the context the real group_plots gives to a group (plain JSON, `$R` kept)"""
    return _plain(build_value(spec, "$R")[1], "$R")


def model_item(spec, idx):
    if spec["d"]["k"] == "gplots":
        return {"t": 2 * idx, "d": {"k": "seq", "tuple": False, "items": [model_data(m["d"]) for m in spec["d"]["members"]]},
                "c": {"t": 2 * idx + 1, "v": model_cv(_gplots_ctx(spec))}}
    c = spec.get("c")
    return {"t": 2 * idx, "d": model_data(spec["d"]),
            "c": None if c is None else {"t": 2 * idx + 1, "v": model_cv(c)}}


def merge(pat, A, B):
    ia, ib, out = iter(A), iter(B), []
    for p in pat:
        out.append(next(ia) if p else next(ib))
    return out


# ----------------------------------------------------------------------------------------------------
# the harness's reference of the documented selection rules (independent of the Lean model)

def _ctx(spec):
    if spec["d"]["k"] == "gplots":
        return _gplots_ctx(spec)
    c = spec.get("c")
    return c if c is not None else {}


def _get(ctx, path, default):
    """lena.context.get_recursively for a dotted path, as documented"""
    d = ctx
    keys = path.split(".")
    for k in keys[:-1]:
        if isinstance(d, dict) and k in d and isinstance(d[k], dict):
            d = d[k]
        else:
            return default
    return d[keys[-1]] if keys[-1] in d else default


_CLS = {"int": ("int", "bool"), "str": ("str",), "histogram": ("hist",), "tuple": ("seq:t",), "list": ("seq:l",),
        "Foreign": ("obj",), "float": ("float",), "NoneType": ("none",), "dict": ("baredict",), "bytes": ("bytes",),
        "Writable": ("writable",), "Rows": ("rows",)}


def _kind(d):
    if d["k"] == "gplots":
        return "seq:l"
    if d["k"] == "seq":
        return "seq:t" if d["tuple"] else "seq:l"
    return d["k"]


def eval_sel(sel, spec):
    if "cls" in sel:
        return _kind(spec["d"]) in _CLS[sel["cls"]]
    if "key" in sel:
        return sel["key"] in _ctx(spec)
    if "or" in sel:
        return any(eval_sel(s, spec) for s in sel["or"])
    if "and" in sel:
        return all(eval_sel(s, spec) for s in sel["and"])
    return sel["const"]


def _has_iter(d):
    return d["k"] in ("str", "seq", "bytes", "baredict", "gplots", "set", "gen", "iter", "oneshot")


def ref_selected(el, spec):
    """does the element, by its documentation, act on this value?"""
    k, d, c = el["k"], spec["d"], _ctx(spec)
    if k == "tocsv":
        if not _get(c, "output.to_csv", True):
            return False
        # "those that implement a method rows()": an attribute rows that is not callable does not count
        return (d["k"] == "hist" and d["dim"] in (1, 2)) or (d["k"] == "rows" and d["rk"] != "notcallable")
    if k == "write":
        if _get(c, "output.write", True) is False:
            return False
        return d["k"] in ("str", "writable")
    if k == "render":
        if el.get("sel") is not None:
            return eval_sel(el["sel"], spec)
        return _get(c, "output.filetype", None) == "csv"
    if k == "pdf":
        return _get(c, "output.filetype", None) == "tex"
    if k == "png":
        return _get(c, "output.filetype", "") == "pdf"
    if k == "h2g":
        return d["k"] == "hist" and bool(_get(c, "histogram.to_graph", True))
    if k in ("iterbins", "mapbins"):
        # `select_bins` is given classes: the histogram is selected when its bins (the data part of a bin: the bin
        # itself, be it a list, a tuple or a dictionary — never what is inside) are instances of one of them;
        # MapBins without `select_bins` takes every histogram
        if d["k"] != "hist":
            return False
        if k == "mapbins" and el.get("default"):
            return True
        return _BIN_CLASSES[d["bin"]] in {_BIN_CLASSES[b] for b in el["bins"]}
    if k == "runif":
        return eval_sel(el["sel"], spec)
    if k == "mapgroup":
        return "group" in c and _has_iter(d)
    if k == "pipe":
        return any(ref_selected(st, spec) for st in el["stages"])
    if k == "groupplots":
        return True if el.get("sel") is None else eval_sel(el["sel"], spec)
    raise ValueError(k)


# ----------------------------------------------------------------------------------------------------
# elements

class _Clock(object):
    def __init__(self):
        self.iter = 0
        self.stub_writes = []


class _FakeProc(object):
    def __init__(self, owner, command, pid):
        self.owner, self.command, self.pid = owner, command, pid
        self.returncode = None
        self.stdout = self.stderr = b""
        self._done = False

    def _finish(self):
        if not self._done:
            self._done = True
            self.returncode = self.owner.rc(self.pid)
            if self.returncode == 0 and not self.owner.produce(self.command):
                self.returncode = 1       # like the real converter: it fails when it cannot write its output
        return self.returncode

    def poll(self):
        if self._done or self.owner.finish_at(self.pid) <= self.owner.clock.iter:
            return self._finish()
        return None

    def communicate(self, *a, **kw):
        self._finish()
        return (b"", b"")

    def terminate(self):
        pass


class _FakeSubprocess(object):
    """stands for the module `subprocess` inside latex_to_pdf / pdf_to_png during one run"""
    PIPE = -1

    def __init__(self, mode, clock, sched, root):
        self.mode, self.clock, self.sched, self.root = mode, clock, sched, root
        self.n = 0

    def finish_at(self, pid):
        return self.sched[pid][0] if pid < len(self.sched) else 10 ** 6

    def rc(self, pid):
        return self.sched[pid][1] if pid < len(self.sched) else 0

    def produce(self, command):
        if self.mode == "pdf":
            if command[0] == "pdflatex":       # the default command of LaTeXToPDF
                # the stub writes the file LaTeXToPDF expects (for a name ending in .tex that is pdflatex's
                # <output-directory>/<jobname>.pdf)
                tex = command[-1]
                out = tex[:-4] + ".pdf" if tex.endswith(".tex") else tex.replace(".tex", ".pdf")
            else:
                _, tex, out = command
            content = "CONV:pdf:" + _canon_str(tex, self.root)
        else:
            # ["pdftoppm", pdf_name, data, "-png", "-singlefile"]
            out = command[2] + "." + command[3].lstrip("-")
            content = "CONV:" + command[3].lstrip("-") + ":" + _canon_str(command[1], self.root)
        if not os.path.isdir(os.path.dirname(out) or "."):
            return False              # no such directory: the converter fails, it does not raise into lena
        with open(out, "w") as f:
            f.write(content)
        self.clock.stub_writes.append(out)
        return True

    def Popen(self, command, **kw):
        p = _FakeProc(self, command, self.n)
        self.n += 1
        if self.mode == "png":
            p._finish()       # synchronous converter: `_run_command` waits for it
        return p


class _Id(object):
    def run(self, flow):
        for v in flow:
            yield v


class _Dup(object):
    def run(self, flow):
        for v in flow:
            yield v
            yield v


class _Drop(object):
    def run(self, flow):
        for v in flow:
            pass
        return
        yield


class _Number(object):
    def run(self, flow):
        import lena.flow
        for i, v in enumerate(flow):
            yield [i, lena.flow.get_data(v)]


class _Count(object):
    def __init__(self):
        self.n = 0

    def run(self, flow):
        import lena.flow
        for v in flow:
            yield [self.n, lena.flow.get_data(v)]
            self.n += 1


class _Raise(object):
    def run(self, flow):
        raise Inner1()
        yield


class _YieldRaise(object):
    def run(self, flow):
        for v in flow:
            yield v
            break
        raise Inner2()


class _DupEven(object):
    """two results for an even integer, one for everything else (members of a group get different numbers)"""
    def run(self, flow):
        import lena.flow
        for v in flow:
            d = lena.flow.get_data(v)
            yield v
            if isinstance(d, int) and not isinstance(d, bool) and d % 2 == 0:
                yield v


class _Last(object):
    def run(self, flow):
        import lena.flow
        n, last = 0, None
        for v in flow:
            n, last = n + 1, v
        if n:
            yield [n, lena.flow.get_data(last)]


class _DupFirst(object):
    """two results for the first cell of a histogram (content 0), one for the others"""
    def run(self, flow):
        import lena.flow
        import lena.structures
        for v in flow:
            d = lena.flow.get_data(v)
            first = (d == 0 if isinstance(d, int) else
                     d.bins[0] == 0 if isinstance(d, lena.structures.histogram) else
                     isinstance(d, tuple) and d[0] == 0)
            yield v
            if first:
                yield v


class _WithCtx(object):
    def run(self, flow):
        import lena.flow
        for v in flow:
            yield (lena.flow.get_data(v), {"k": 1})


def _make_inner(spec, root):
    import lena.flow
    import lena.output
    if isinstance(spec, dict):
        w = spec["write"]
        return lena.output.Write(_subst(w["outdir"], root), w["defname"], verbose=False,
                                 existing_unchanged=w["eu"], overwrite=w["ow"])
    return {"id": _Id, "dup": _Dup, "drop": _Drop, "number": _Number, "first": lambda: lena.flow.Slice(1),
            "count": _Count, "raise": _Raise, "yieldraise": _YieldRaise, "last": _Last, "dupfirst": _DupFirst,
            "dupeven": _DupEven,
            "ctx": _WithCtx}[spec]()


def _py_classes():
    import lena.structures
    return {"int": int, "str": str, "histogram": lena.structures.histogram, "tuple": tuple, "list": list,
            "Foreign": Foreign, "float": float, "NoneType": type(None), "dict": dict, "bytes": bytes,
            "Writable": Writable, "Rows": Rows}


def _make_selector(sel):
    """the argument given to lena.flow.Selector / RunIf / select_data"""
    if "cls" in sel:
        return _py_classes()[sel["cls"]]
    if "key" in sel:
        return sel["key"]
    if "or" in sel:
        return [_make_selector(s) for s in sel["or"]]
    if "and" in sel:
        return tuple(_make_selector(s) for s in sel["and"])
    b = sel["const"]
    return lambda val: b


_BIN_CLASSES = {"num": "int", "pair": "int", "hist": "histogram", "vec": "tuple"}
_BIN_CLASSES.update({b: b.split(":")[0] for b in CONT_BINS})


_PDFTOPPM_STUB = """#!/bin/sh
# stands for pdftoppm: pdftoppm <pdf> <base> -<format> -singlefile
fmt="${3#-}"
{ printf 'picture of %s' "$(basename "$1")" > "$2.$fmt"; } 2>/dev/null || exit 1
"""


def make_element(el, root, tdir, clock):
    """the real lena element of a case; returns (element, cleanup)"""
    import lena.core
    import lena.flow
    import lena.output
    import lena.output.latex_to_pdf
    import lena.output.pdf_to_png
    import lena.structures
    k = el["k"]
    nothing = lambda: None
    if k == "tocsv":
        return lena.output.ToCSV(separator=el.get("sep", ","), header="x,y" if el.get("header") else None,
                                 duplicate_last_bin=el.get("dup", True)), nothing
    if k == "write":
        w = lena.output.Write(_subst(el.get("outdir_fmt", el["outdir"]), root), el["defname"],
                              verbose=bool(el.get("verbose")), existing_unchanged=el["eu"], overwrite=el["ow"])
        if "static" in el:
            # the output directory is a format string filled from the static context (Write._set_context);
            # el["outdir"] is what it must become
            w._set_context(copy.deepcopy(el["static"]))
        return w, nothing
    if k == "render":
        sel = el.get("sel")
        sd = None if sel is None else lena.flow.Selector(_make_selector(sel))
        st = el.get("seltemplate")
        if st is not None:
            def raising(val):
                raise Inner1()
            gd = lena.flow.get_data
            select_template = {"t2": lambda val: "t2.tex", "missing": lambda val: "missing.tex", "raise": raising,
                               "bycls": lambda val: "t1.tex" if type(gd(val)) is int else "t2.tex"}[st]
        else:
            select_template = el["def"]
        return lena.output.RenderLaTeX(select_template=select_template, template_dir=tdir, select_data=sd,
                                       from_data=bool(el.get("fromdata")),
                                       verbose=2 if el.get("verbose") else 0), nothing
    if k == "groupplots":
        import lena.flow
        gd, gc = lena.flow.get_data, lena.flow.get_context
        key = {"parity": lambda v: "k%d" % (gd(v) % 2), "cls": lambda v: type(gd(v)).__name__,
               "ctxn": lambda v: str(gc(v)["n"]), "const": lambda v: "all"}[el["key"]]
        sel = None if el.get("sel") is None else _make_selector(el["sel"])
        return lena.flow.GroupPlots(key, select=sel, yield_selected=el["ys"]), nothing
    if k == "pipe":
        els, cleanups = [], []
        for st in el["stages"]:
            e, c = make_element(st, root, tdir, clock)
            els.append(e)
            cleanups.append(c)
        def cleanup_all():
            for c in cleanups:
                c()
        return lena.core.Sequence(*els), cleanup_all
    if k == "png" and el.get("real"):
        # a real process: the stub `pdftoppm` is found through PATH
        bindir = os.path.join(tdir, "bin")
        os.makedirs(bindir, exist_ok=True)
        stub = os.path.join(bindir, "pdftoppm")
        with open(stub, "w") as f:
            f.write(_PDFTOPPM_STUB)
        os.chmod(stub, 0o755)
        old_path = os.environ.get("PATH", "")
        os.environ["PATH"] = bindir + os.pathsep + old_path
        def restore_path():
            os.environ["PATH"] = old_path
        return lena.output.PDFToPNG(format=el["format"], overwrite=el["ow"], verbose=False), restore_path
    if k == "pdf" and el.get("real"):
        # real processes: `cp tex pdf` stands for pdflatex
        return lena.output.LaTeXToPDF(
            overwrite=el["ow"], verbose=0,
            create_command=lambda tex, out, outdir, ctx: ["/bin/sh", "-c", 'cp "$0" "$1"', tex, out]), nothing
    if k == "png":
        mod = lena.output.pdf_to_png
        old = mod.subprocess
        mod.subprocess = _FakeSubprocess("png", clock, [], root)
        def restore():
            mod.subprocess = old
        return lena.output.PDFToPNG(format=el["format"], overwrite=el["ow"], verbose=bool(el.get("verbose"))), restore
    if k == "pdf":
        mod = lena.output.latex_to_pdf
        old = mod.subprocess
        mod.subprocess = _FakeSubprocess("pdf", clock, el["sched"], root)
        def restore():
            mod.subprocess = old
        return lena.output.LaTeXToPDF(
            overwrite=el["ow"], verbose=2 if el.get("verbose") else 0,
            create_command=None if el.get("default_cmd") else
            (lambda tex, out, outdir, ctx: ["stub-pdflatex", tex, out])), restore
    if k == "h2g":
        import lena.variables
        mv = {"first": lambda: lena.variables.Variable("first", lambda b: b[0]),
              "witherr": lambda: lena.variables.Variable("witherr", lambda b: (b, 1))}.get(el.get("mv"))
        nf = el.get("nfields", 2)
        return lena.structures.HistToGraph(
            make_value=mv() if mv else None, get_coordinate=el.get("coord", "left"),
            field_names=tuple("xyzuvw"[:nf]), scale=True if el.get("scale") else el.get("scalenum")), nothing
    classes = _py_classes()
    if k == "iterbins":
        if el.get("default"):
            return lena.structures.IterateBins(), nothing
        return lena.structures.IterateBins(
            select_bins=[classes[c] for c in sorted({_BIN_CLASSES[b] for b in el["bins"]})]), nothing
    if k == "mapbins":
        inner = _make_inner(el["inner"], root)
        if el.get("default"):
            return lena.structures.MapBins(inner), nothing
        return lena.structures.MapBins(
            inner, select_bins=[classes[c] for c in sorted({_BIN_CLASSES[b] for b in el["bins"]})],
            drop_bins_context=el.get("drop", True)), nothing
    if k == "runif":
        sel, inner = _make_selector(el["sel"]), _make_inner(el["inner"], root)
        if el.get("init") == "selector":        # the other branches of RunIf.__init__
            return lena.flow.RunIf(lena.flow.Selector(sel), lena.core.Sequence(inner)), nothing
        if el.get("init") == "two":
            return lena.flow.RunIf(sel, _Id(), inner), nothing
        return lena.flow.RunIf(sel, inner), nothing
    if k == "mapgroup":
        return lena.flow.MapGroup(_make_inner(el["inner"], root), map_scalars=False), nothing
    raise ValueError(k)


# ----------------------------------------------------------------------------------------------------
# file system

TEMPLATES = {"t1.tex": r"T1 \VAR{ a }|\VAR{ output }|\VAR{ n }", "t2.tex": r"T2 \VAR{ a }|\VAR{ n }"}


def prepare_fs(fs, root):
    for d in fs.get("dirs", []):
        os.makedirs(os.path.join(root, d), exist_ok=True)
    for rel, content, mtime in fs.get("files", []):
        p = os.path.join(root, rel)
        os.makedirs(os.path.dirname(p), exist_ok=True)
        with open(p, "w") as f:
            f.write(content)
        os.utime(p, (mtime, mtime))


# "Without touching the file system" is not only about the output directory: while an element is constructed and run,
# the temporary directory (TMPDIR / tempfile.tempdir), the current directory and HOME are fresh directories of the
# case, and the directory of the templates is watched too; `snapshot` lists them under "outside".
_SIDE = {"dirs": None}


def _listing(top, skip=()):
    out = []
    for dp, dns, fns in os.walk(top):
        dns[:] = [d for d in dns if os.path.join(dp, d) not in skip]
        for n in dns:
            out.append(os.path.relpath(os.path.join(dp, n), top) + "/")
        for n in fns:
            p = os.path.join(dp, n)
            try:
                out.append("%s [%d bytes]" % (os.path.relpath(p, top), os.stat(p).st_size))
            except OSError:
                out.append(os.path.relpath(p, top))
    return sorted(out)


def snapshot(root):
    files, dirs = {}, []
    for dp, dns, fns in os.walk(root):
        rel = os.path.relpath(dp, root)
        dirs.append("$R" if rel == "." else "$R/" + rel)
        for fn in fns:
            p = os.path.join(dp, fn)
            with open(p) as f:
                files[_canon_str(p, root)] = _canon_str(f.read(), root)
    snap = {"files": files, "dirs": sorted(dirs)}
    if _SIDE["dirs"]:
        snap["outside"] = {name: _listing(top, skip) for name, top, skip in _SIDE["dirs"]}
    return snap


class _Sandbox(object):
    """fresh temporary / current / home directories for one case (restored on exit)"""
    def __init__(self, tdir):
        self.tdir = tdir

    def __enter__(self):
        self.side = tempfile.mkdtemp(prefix="c10s_", dir="/dev/shm" if os.path.isdir("/dev/shm") else None)
        self.old = (os.getcwd(), tempfile.tempdir, {k: os.environ.get(k) for k in ("TMPDIR", "HOME")})
        for sub in ("tmp", "cwd", "home"):
            os.mkdir(os.path.join(self.side, sub))
        os.environ["TMPDIR"] = os.path.join(self.side, "tmp")
        os.environ["HOME"] = os.path.join(self.side, "home")
        tempfile.tempdir = os.path.join(self.side, "tmp")
        os.chdir(os.path.join(self.side, "cwd"))
        # (the converter stub of the "real" PDFToPNG cases lives in <tdir>/bin: put there by the harness)
        _SIDE["dirs"] = [("side", self.side, ()), ("templates", self.tdir, (os.path.join(self.tdir, "bin"),))]
        return self

    def __exit__(self, *exc):
        _SIDE["dirs"] = None
        cwd, tmpd, env = self.old
        os.chdir(cwd)
        tempfile.tempdir = tmpd
        for k, v in env.items():
            if v is None:
                os.environ.pop(k, None)
            else:
                os.environ[k] = v
        shutil.rmtree(self.side, ignore_errors=True)
        return False


def model_fs(fs):
    dirs = {"$R"}
    files = []
    for d in fs.get("dirs", []):
        parts = d.split("/")
        for i in range(1, len(parts) + 1):
            dirs.add("$R/" + "/".join(parts[:i]))
    for rel, content, mtime in fs.get("files", []):
        parts = rel.split("/")
        for i in range(1, len(parts)):
            dirs.add("$R/" + "/".join(parts[:i]))
        files.append(["$R/" + rel, {"lit": content}, mtime])
    return {"files": files, "dirs": sorted(dirs), "clock": 10 ** 9}


def _content_str(c):
    if "lit" in c:
        return c["lit"]
    if "obj" in c:
        return "OBJ%d" % c["obj"]
    if "conv" in c:
        return "CONV:%s:%s" % (c["conv"], c["src"])
    return "TEXT:%s" % c["text"]


def canon_model_fs(fs):
    return {"files": {p: _content_str(c) for p, c, _ in fs["files"]}, "dirs": sorted(fs["dirs"])}


# ----------------------------------------------------------------------------------------------------
# encoding of what the real element yields

def _plain(o, root, depth=0):
    """a context (or part of it) as plain JSON (a self-referential dictionary — aliasing cases — is cut off)"""
    if depth > 30:
        return "<deep>"
    if isinstance(o, dict):
        return {str(k): _plain(v, root, depth + 1) for k, v in o.items()}
    if isinstance(o, (list, tuple)):
        return [_plain(v, root, depth + 1) for v in o]
    if isinstance(o, str):
        return _canon_str(o, root)
    if isinstance(o, (int, bool)) or o is None:
        return o
    if isinstance(o, float):
        return {"float": repr(o)}
    return {"obj": type(o).__name__}


def _mask(d):
    return {k: ("<opaque>" if k in OPAQUE_KEYS else v) for k, v in d.items()}


def _hist_shape(h):
    shape, b = [], h.bins
    for _ in range(h.dim):
        shape.append(len(b))
        b = b[0]
    return shape


def enc_data(o, root, text_kind=None):
    """the data part of a yielded value in the vocabulary of the model (payloads abstracted)"""
    import lena.structures
    if isinstance(o, bool):
        return {"k": "other", "cls": "bool"}
    if isinstance(o, int):
        return {"k": "int", "v": o}
    if isinstance(o, str):
        if text_kind == "*":
            # a pipeline: a new string is a path below the root (made by Write) or a produced text
            c = _canon_str(o, root)
            return {"k": "str", "v": c} if c.startswith("$R") else {"k": "text", "kind": "*"}
        if text_kind:
            # the number of lines of a CSV text shows duplicate_last_bin and the header
            lines = (o.count("\n") + 1 if o else 0) if text_kind == "csv" else 0
            return {"k": "text", "kind": text_kind, "lines": lines}
        return {"k": "str", "v": _canon_str(o, root)}
    if isinstance(o, lena.structures.histogram):
        return {"k": "hist", "dim": o.dim, "shape": _hist_shape(o)}
    if isinstance(o, lena.structures.graph):
        return {"k": "graph"}
    if isinstance(o, (list, tuple)):
        return {"k": "seq", "tuple": isinstance(o, tuple), "items": [enc_data(x, root) for x in o]}
    if isinstance(o, Writable):
        return {"k": "writable", "id": o.id}
    if isinstance(o, Rows):
        return {"k": "rows", "id": o.id}
    if isinstance(o, (Foreign, BadWrite, LookAlike)):
        return {"k": "other", "cls": type(o).__name__, "id": o.id}
    return {"k": "other", "cls": type(o).__name__}


def norm_model_data(d, pipe=False):
    """a model DATA object reduced to what enc_data shows"""
    k = d["k"]
    if k == "text":
        if pipe:
            return {"k": "text", "kind": "*"}
        return {"k": "text", "kind": d["kind"], "lines": d["lines"] if d["kind"] == "csv" else 0}
    if k == "str" and pipe and not d["v"].startswith("$R"):
        return {"k": "text", "kind": "*"}
    if k == "graph":
        return {"k": "graph"}
    if k == "hist":
        return {"k": "hist", "dim": d["dim"], "shape": d["shape"]}
    if k == "seq":
        return {"k": "seq", "tuple": d["tuple"], "items": [norm_model_data(x) for x in d["items"]]}
    if k == "rows":
        return {"k": "rows", "id": d["id"]}
    if k == "other":
        if d["cls"] in ("Foreign", "BadWrite", "LookAlike"):
            return {"k": "other", "cls": d["cls"], "id": d["id"]}
        return {"k": "other", "cls": d["cls"]}
    return d


def _plain_cv(o):
    if isinstance(o, dict):
        if "d" in o:
            return {k: _plain_cv(v) for k, v in o["d"]}
        if "l" in o:
            return [_plain_cv(v) for v in o["l"]]
        return "<opaque>"
    return o


def norm_model_item(it, pipe=False, full=False):
    t = it["t"]
    if not isinstance(t, int):
        t = "new"
    out = {"t": t}
    if t == "new":
        out["d"] = norm_model_data(it["d"], pipe)
    c = it["c"]
    if c is None:
        out["c"] = None
    else:
        ct = c["t"] if isinstance(c["t"], int) else "new"
        out["c"] = {"t": ct}
        if t == "new" or full:
            out["c"]["v"] = _mask(_plain_cv(c["v"]))
    if "pass" in it:
        out["pass"] = it["pass"]
    return out


def enc_deep(o, root, depth=0):
    """full canonical content of a value (for comparing the two real runs with each other)"""
    import lena.structures
    if depth > 30:
        return "<deep>"
    if isinstance(o, dict):
        return {"dict": sorted(([str(k), enc_deep(v, root, depth + 1)] for k, v in o.items()), key=lambda kv: kv[0])}
    if isinstance(o, (list, tuple)):
        return {type(o).__name__: [enc_deep(v, root, depth + 1) for v in o]}
    if isinstance(o, str):
        return _canon_str(o, root)
    if isinstance(o, (int, bool)) or o is None:
        return o
    if isinstance(o, float):
        return {"float": repr(o)}
    if isinstance(o, lena.structures.histogram):
        return {"histogram": [enc_deep(o.edges, root, depth + 1), enc_deep(o.bins, root, depth + 1)]}
    if isinstance(o, lena.structures.graph):
        return {"graph": repr(o)}
    if isinstance(o, types.GeneratorType):
        # how far a one-shot iterable was read is part of its content (looked at without reading from it)
        return {"obj": "generator", "state": inspect.getgeneratorstate(o)}
    if isinstance(o, OneShot):
        return {"obj": "OneShot", "id": o.id, "pos": o.pos}
    if type(o).__name__ == "list_iterator":
        return {"obj": "list_iterator", "left": o.__length_hint__()}
    if isinstance(o, (set, frozenset)):
        return {"set": sorted(repr(x) for x in o)}
    if isinstance(o, (bytes, bytearray)):
        return {"bytes": repr(bytes(o))}
    if hasattr(o, "__dict__") and type(o).__module__ == __name__:
        # the harness's own foreign classes: all their attributes (a LookAlike holds lists)
        return {"obj": type(o).__name__, "attrs": enc_deep(dict(vars(o)), root, depth + 1)}
    if hasattr(o, "id"):
        return {"obj": type(o).__name__, "id": o.id}
    return {"obj": type(o).__name__}


# ----------------------------------------------------------------------------------------------------
# running the real element

def _reduce_gp(d):
    """the context of a value made by group_plots, as far as the model interprets it"""
    out = d.get("output")
    return {"output": {"changed": out.get("changed")} if isinstance(out, dict) else out, "group": "<opaque>"}


def _apply_alias(flow, alias):
    """make flow values share objects: [i, j, "ctx"]: value j gets the context object of value i;
    [i, j, "same"]: position j holds the very object of position i"""
    import lena.flow
    for i, j, kind in alias:
        if kind == "same":
            flow[j] = flow[i]
        elif lena.flow.functions._has_context(flow[i]) and lena.flow.functions._has_context(flow[j]):
            flow[j] = (flow[j][0], flow[i][1])
    return flow


def _example_kind(v):
    """the kind of `get_example_bin(hist)` for a flow value that holds a histogram (None for other values)"""
    import lena.flow
    import lena.structures
    data = lena.flow.get_data(v)
    if not isinstance(data, lena.structures.histogram):
        return None
    try:
        return kind_of_bin(lena.structures.get_example_bin(data))
    except Exception as e:
        return "err:" + exc_name(e)


def _run_flow(el, element, clock, root, specs, idxs, is_b, alias, earlier):
    """one run of the (possibly already used) element object over the values built from `specs`"""
    import contextlib
    import io
    import lena.flow
    has_ctx = lena.flow.functions._has_context
    flow = _apply_alias([build_value(s, root) for s in specs], alias)
    before = [enc_deep(v, root) for v in flow]
    # IterateBins / MapBins: the bin `select_bins` is shown (the public lena.structures.get_example_bin), for the model
    exbins = [_example_kind(v) for v in flow] if el["k"] in ("iterbins", "mapbins") else None
    ids, cids = {}, {}
    for i, v in enumerate(flow):
        ids.setdefault(id(v), i)
        if has_ctx(v):
            cids.setdefault(id(v[1]), i)
    outs, marks, snaps = [], [], []
    # per-value directory snapshots; for LaTeXToPDF the files the converter stubs write (when a process of an earlier
    # value ends) are left out of the comparison; real converter processes end when they like: no snapshots
    fs_check = not (el["k"] == "pdf" and el.get("real"))

    def feed():
        for i, v in enumerate(flow):
            marks.append(len(outs))
            if fs_check:
                snaps.append(snapshot(root))
            clock.iter = i
            yield v
        marks.append(len(outs))
        if fs_check:
            snaps.append(snapshot(root))

    err = None
    with warnings.catch_warnings(), contextlib.redirect_stdout(io.StringIO()):   # verbose elements print
        warnings.simplefilter("ignore")
        try:
            for o in element.run(feed()):
                outs.append(o)
        except Exception as e:      # the watchdog's CaseTimeout is a BaseException and passes
            err = exc_name(e)
    pulled = min(len(marks), len(flow))
    exhausted = len(marks) == len(flow) + 1
    text_kind = {"tocsv": "csv", "render": "tex", "pipe": "*"}.get(el["k"])
    gp = el["k"] == "groupplots"

    def enc(o):
        i = ids.get(id(o))
        if i is not None and flow[i] is o:
            r = {"t": 2 * idxs[i]}
            if has_ctx(o):
                j = cids.get(id(o[1]))
                r["c"] = {"t": 2 * idxs[j] + 1}
                if alias:
                    r["c"]["v"] = _mask(_plain(o[1], root))      # aliasing: what the shared object holds now
            else:
                r["c"] = None
            return r
        r = {"t": "new"}
        if has_ctx(o):
            r["d"] = enc_data(o[0], root, text_kind)
            j = cids.get(id(o[1]))
            # (a context object of an earlier flow of the same element object: LaTeXToPDF's pool keeps them)
            ct = (2 * idxs[j] + 1 if j is not None and flow[j][1] is o[1] else
                  earlier["ctx"].get(id(o[1]), "new"))
            plain = _plain(o[1], root)
            r["c"] = {"t": ct, "v": _reduce_gp(plain) if gp and "group" in plain else _mask(plain)}
        else:
            r["d"] = enc_data(o, root, text_kind)
            r["c"] = None
        return r

    encs = [enc(o) for o in outs]
    blocks = []
    for i in range(pulled):
        hi = marks[i + 1] if i + 1 < len(marks) else len(outs)
        blocks.append(encs[marks[i]:hi])
    tail = encs[marks[len(flow)]:] if exhausted else []
    # identity, order, integrity of the B values
    positions = {}
    for pos, o in enumerate(outs):
        i = ids.get(id(o))
        if i is not None and flow[i] is o:
            positions.setdefault(i, []).append(pos)
    after = [enc_deep(v, root) for v in flow]
    b_report = []
    drained = {}
    for i, v in enumerate(flow):
        if not is_b[i]:
            continue
        rep = {"idx": idxs[i], "pulled": i < pulled, "pos": positions.get(ids[id(v)], []),
               "intact": before[i] == after[i]}
        if specs[i]["d"]["k"] in ITER_KINDS and not alias:
            # a one-shot iterable must still hold all its items after it has passed (read now, once per object)
            data = v[0] if has_ctx(v) else v
            if id(data) not in drained:
                drained[id(data)] = list(data)
            if drained[id(data)] != _iter_items(specs[i]["d"]):
                rep["intact"] = False
                rep["left"] = repr(drained[id(data)])
        if fs_check and i + 1 < len(snaps):
            stub = set(_canon_str(p, root) for p in clock.stub_writes)
            strip = lambda sn: dict(sn, files={p: c for p, c in sn["files"].items() if p not in stub})
            rep["fs_untouched"] = strip(snaps[i]) == strip(snaps[i + 1])
        b_report.append(rep)
    # everything that is not a passed B value, in full detail
    b_pos = set(p for i, ps in positions.items() if is_b[i] for p in ps)
    produced = [enc_deep(o, root) for pos, o in enumerate(outs) if pos not in b_pos]
    prod_blocks = []
    for i in range(pulled):
        hi = marks[i + 1] if i + 1 < len(marks) else len(outs)
        prod_blocks.append([enc_deep(outs[p], root) for p in range(marks[i], hi)])
    for i, v in enumerate(flow):
        if has_ctx(v):
            earlier["ctx"].setdefault(id(v[1]), 2 * idxs[i] + 1)
    earlier["alive"].append(flow)
    return {"blocks": blocks, "tail": tail, "err": err, "fs": snapshot(root), "b": b_report, "exbins": exbins,
            "produced": produced, "deep_blocks": prod_blocks,
            "deep_tail": [enc_deep(o, root) for o in outs[marks[len(flow)]:]] if exhausted else [],
            "npulled": pulled}


def _run_once(case, runs):
    """Construct the element of the case in a freshly prepared directory and run it over each of `runs` in turn
    (one element object; `runs` = [(specs, idxs, is_b, alias), …]: `idxs[i]` is the identity number of value i,
    `is_b[i]` says whether it is a B value)."""
    el = case["el"]
    root = tempfile.mkdtemp(prefix="c10_", dir="/dev/shm" if os.path.isdir("/dev/shm") else None)
    tdir = tempfile.mkdtemp(prefix="c10t_", dir="/dev/shm" if os.path.isdir("/dev/shm") else None)
    clock = _Clock()
    cleanup = lambda: None
    try:
        prepare_fs(case.get("fs", {}), root)
        tnames = set(el.get("templates", []))
        for st in el.get("stages", []):
            tnames.update(st.get("templates", []))
        for name in sorted(tnames):
            with open(os.path.join(tdir, name), "w") as f:
                f.write(TEMPLATES[name])
        with _Sandbox(tdir):
            fs0 = snapshot(root)          # the directories before the element is even constructed
            with warnings.catch_warnings():
                warnings.simplefilter("ignore")
                element, cleanup = make_element(el, root, tdir, clock)
            results = []
            earlier = {"ctx": {}, "alive": []}
            for specs, idxs, is_b, alias in runs:
                results.append(_run_flow(el, element, clock, root, specs, idxs, is_b, alias, earlier))
            results[0]["fs0"] = fs0
            return results
    finally:
        cleanup()
        shutil.rmtree(root, ignore_errors=True)
        shutil.rmtree(tdir, ignore_errors=True)


def _flow_specs(case):
    pat, A, B = case["pat"], case["A"], case["B"]
    specs = merge(pat, A, B)
    a_idx = [i for i, p in enumerate(pat) if p]
    return specs, a_idx


SECOND_OFFSET = 500        # identity numbers of the values of a second flow


def _alias_in_a(alias, a_idx):
    """the sharing that remains when only the A values are run"""
    pos = {i: n for n, i in enumerate(a_idx)}
    return [[pos[i], pos[j], kind] for i, j, kind in alias if i in pos and j in pos]


def run_impl(case):
    specs, a_idx = _flow_specs(case)
    alias = case.get("alias", [])
    full_runs = [(specs, list(range(len(specs))), [not p for p in case["pat"]], alias)]
    a_runs = [(case["A"], a_idx, [False] * len(case["A"]), _alias_in_a(alias, a_idx))]
    sec = case.get("second")
    if sec:
        specs2 = merge(sec["pat"], sec["A"], sec["B"])
        a_idx2 = [i for i, p in enumerate(sec["pat"]) if p]
        full_runs.append((specs2, [SECOND_OFFSET + i for i in range(len(specs2))], [not p for p in sec["pat"]], []))
        a_runs.append((sec["A"], [SECOND_OFFSET + i for i in a_idx2], [False] * len(sec["A"]), []))
    full = _run_once(case, full_runs)
    aonly = _run_once(case, a_runs)
    res = {"full": full[0], "a": aonly[0]}
    if sec:
        res["full2"], res["a2"] = full[1], aonly[1]
    if alias:
        # does the property hold on this flow, whose values share objects?  (recorded, not demanded)
        res["law"] = _oracle(dict(case, alias=[]), res)
    return res


# ----------------------------------------------------------------------------------------------------
# model side

def _model_items(specs, idxs, alias):
    items = [model_item(s, i) for s, i in zip(specs, idxs)]
    for i, j, kind in alias:          # positions in this list
        if kind == "same":
            items[j] = items[i]
        elif items[i]["c"] is not None and items[j]["c"] is not None:
            items[j] = dict(items[j], c=items[i]["c"])
    return items


def model_requests(case):
    pat, A, B = case["pat"], case["A"], case["B"]
    el = dict(case["el"])
    if el.get("real"):
        return []          # real converter processes: the oracle alone (their timing is not under control)
    specs, a_idx = _flow_specs(case)
    alias = case.get("alias", [])
    flow_items = _model_items(specs, list(range(len(specs))), alias)
    req = {"el": el, "fs": model_fs(case.get("fs", {})),
           "A": [flow_items[i] for i, p in enumerate(pat) if p],
           "B": [flow_items[i] for i, p in enumerate(pat) if not p], "pat": pat}
    if alias:
        req["shared"] = True
    sec = case.get("second")
    if sec:
        specs2 = merge(sec["pat"], sec["A"], sec["B"])
        items2 = _model_items(specs2, [SECOND_OFFSET + i for i in range(len(specs2))], [])
        req["second"] = {"A": [items2[i] for i, p in enumerate(sec["pat"]) if p],
                         "B": [items2[i] for i, p in enumerate(sec["pat"]) if not p], "pat": sec["pat"]}
    return [req]


def _cmp_run(name, impl, mod, is_pdf, pipe=False, full=False):
    mb = [[norm_model_item(x, pipe, full) for x in blk] for blk in mod["blocks"]]
    ib = impl["blocks"]
    if not full:
        # contents of passed values are compared in aliasing cases only
        ib = [[(dict(x, c={"t": x["c"]["t"]}) if isinstance(x["t"], int) and x["c"] is not None else x) for x in blk]
              for blk in ib]
    if is_pdf:
        ib = [[dict(x, **{"pass": isinstance(x["t"], int)}) for x in blk] for blk in ib]
        it = [dict(x, **{"pass": isinstance(x["t"], int)}) for x in impl["tail"]]
    else:
        it = impl["tail"]
    if mod["err"] == "unmodelled":
        return f"{name}: the model declines (unmodelled) — the generator left the modelled fragment"
    if impl["err"] != mod["err"]:
        return f"{name}: impl exception {impl['err']} vs model {mod['err']}"
    if ib != mb:
        for i, (x, y) in enumerate(zip(ib, mb)):
            if x != y:
                return f"{name}: block {i}: impl {x} vs model {y}"
        return f"{name}: impl has {len(ib)} blocks, model {len(mb)}"
    mt = [norm_model_item(x) for x in mod["tail"]]
    if it != mt:
        return f"{name}: tail impl {it} vs model {mt}"
    mfs = canon_model_fs(mod["fs"])
    ifs = {"files": impl["fs"]["files"], "dirs": impl["fs"]["dirs"]}       # ("outside": the oracle's business)
    if pipe:
        # a produced text written to a file: the model does not know its characters
        ifs = {"dirs": ifs["dirs"], "files": {p: ("TEXT" if mfs["files"].get(p, "").startswith("TEXT:") else c)
                                              for p, c in ifs["files"].items()}}
        mfs = {"dirs": mfs["dirs"], "files": {p: ("TEXT" if c.startswith("TEXT:") else c)
                                              for p, c in mfs["files"].items()}}
    if ifs != mfs:
        return f"{name}: file system impl {ifs} vs model {mfs}"
    return None


def _really_shared(case):
    specs, _ = _flow_specs(case)
    return any(k == "ctx" and specs[i].get("c") is not None and specs[j].get("c") is not None
               for i, j, k in case["alias"])


def compare(case, res, replies):
    m = replies[0]
    if "err" in m and "run" not in m:
        return f"model driver error: {m['err']}"
    is_pdf = case["el"]["k"] == "pdf"
    specs, a_idx = _flow_specs(case)
    toks = [2 * i for i in range(len(specs))]
    for i, j, kind in case.get("alias", []):       # shared objects: the flow as it really is
        if kind == "same":
            specs[j], toks[j] = specs[i], toks[i]
        elif specs[i].get("c") is not None and specs[j].get("c") is not None:
            specs[j] = dict(specs[j], c=specs[i]["c"])
    if m["flow"] != toks:
        return f"Lean merge gives the flow {m['flow']}, Python gives {toks}"
    ref_sel = [ref_selected(case["el"], s) for s in specs]
    if m["sel"] != ref_sel:
        return f"selection predicate: model {m['sel']} vs documented rule {ref_sel}"
    pipe = case["el"]["k"] == "pipe"
    alias = bool(case.get("alias"))
    # (a context mutated before an exception is not in the model: contents of passed values only for normal ends)
    msg = (_cmp_run("interleaved flow", res["full"], m["run"], is_pdf, pipe, alias and res["full"]["err"] is None)
           or (None if alias else _cmp_run("A alone", res["a"], m["a"], is_pdf, pipe)))
    if msg:
        return msg
    if alias:
        # reference semantics (sharedStep/finalView) agreed with the real code; `localB` must say "not local"
        # whenever two positions really share an object
        if m["local"] and any(k == "ctx" for _, _, k in case["alias"]) and _really_shared(case):
            return "model: localB holds for a flow whose values share a context object"
        if m["local"] and not m["plain_equal"]:
            return "model: a Local flow on which sharedStep and the value-passing loop differ (shared_eq_loop_of_local)"
        return None
    if case.get("second"):
        sec = case["second"]
        specs2 = merge(sec["pat"], sec["A"], sec["B"])
        if m["sel2"] != [ref_selected(case["el"], x) for x in specs2]:
            return f"selection predicate (second flow): model {m['sel2']}"
        msg = (_cmp_run("second flow, interleaved", res["full2"], m["run2"], is_pdf, pipe)
               or _cmp_run("second flow, A alone", res["a2"], m["a2"], is_pdf, pipe))
        if msg:
            return msg
        if not is_pdf and not m["pred2_ok"]:
            return f"model: mergeBlocks differs from the blocks of the second run {m['run2']['blocks']}"
    if not is_pdf and m.get("ispattern") is False:
        return "model: IsPattern is false for the pattern of the case"
    if m.get("exbin") is not None:
        # IterateBins / MapBins: the example bin as the model computes it on the nested lists (`exampleOfHist`) is the
        # bin the real get_example_bin returns, and the loop body that tests it (`…StepE`) is the transcribed one
        if m["exbin"] != res["full"]["exbins"]:
            return f"get_example_bin: model (exampleOfHist) {m['exbin']} vs lena {res['full']['exbins']}"
        if not m["exE_ok"]:
            return "model: the loop body with the example bin computed on the nested lists (…StepE) differs from the transcribed one"
    if m.get("seldoc") is not None and m["seldoc"] != ref_sel:
        return f"documented selection rule: the model's …Doc predicate {m['seldoc']} vs the harness's {ref_sel}"
    if not is_pdf:
        if not m["pred_ok"]:
            return f"model: mergeBlocks differs from the blocks of the interleaved run {m['run']['blocks']}"
        if not m["pickA_ok"]:
            return f"model: pick true differs from the blocks of the run on A {m['a']['blocks']}"
        # at the positions of B stand the B values themselves, as far as the run got
        b_idx = [i for i, pp in enumerate(case["pat"]) if not pp]
        got = m["pickB"]
        if got != [[2 * i] for i in b_idx[:len(got)]]:
            return f"model: pick false {got} is not a prefix of the B values {[2 * i for i in b_idx]}"
        if m["run"]["err"] is None and len(got) != len(b_idx):
            return f"model: pick false has {len(got)} blocks for {len(b_idx)} B values"
        # `consumedB`: exactly the unselected values standing before the failing one get through — in the model and
        # in the real run
        passed_impl = sum(1 for blk in res["full"]["blocks"] for x in blk
                          if isinstance(x["t"], int) and x["t"] // 2 in set(b_idx))
        if "consumed" in m and not (m["consumed"] == len(got) == passed_impl):
            return (f"consumedB = {m['consumed']}, pick false has {len(got)} blocks, the real element passed "
                    f"{passed_impl} unselected values")
    else:
        # the reference notions of the LaTeXToPDF theorems against the real run
        if m["passed"] != [2 * i for i, pp in enumerate(case["pat"]) if not pp][:len(m["passed"])]:
            return f"model: passedOf {m['passed']} is not a prefix of the B values"
        if m["run"]["err"] is None and [norm_model_item(x) for x in m["pending"]] != \
                [norm_model_item({k: v for k, v in x.items() if k != "pass"}) for x in m["run"]["tail"]]:
            return f"model: pending {m['pending']} is not what is yielded after the flow {m['run']['tail']}"
        if m["keysok"] and m["specerr"] != res["full"]["err"]:
            return f"pdfSpecErr {m['specerr']} is not the exception of the real run {res['full']['err']}"
        if m.get("from_ok") is False:
            return "model: pdfRunFrom from the fresh state differs from pdfRun"
        if m["run"]["err"] is None and res["full"]["err"] is None:
            key = lambda x: repr(sorted(x.items(), key=lambda kv: kv[0]))
            norm = lambda it: {"d": norm_model_data(it["d"]), "c": None if it["c"] is None else
                               {"t": it["c"]["t"] if isinstance(it["c"]["t"], int) else "new",
                                "v": _mask(_plain_cv(it["c"]["v"]))}}
            prods_model = sorted((norm(x) for x in m["prods"]), key=key)
            if m["keysok"]:
                spec = sorted((norm(x) for x in m["spec"]), key=key)
                if spec != prods_model:
                    return f"model: pdfSpec {spec} is not the multiset of produced values {prods_model}"
                impl = [x for blk in res["full"]["blocks"] for x in blk] + res["full"]["tail"]
                impl = sorted(({"d": x["d"], "c": x["c"]} for x in impl if x["t"] == "new"), key=key)
                if impl != spec:
                    return f"pdfSpec {spec} is not the multiset the real element produced {impl}"
    return None


# ----------------------------------------------------------------------------------------------------
# the property itself, on the real code

def oracle(case, res):
    try:
        if case.get("alias"):
            # flow values share objects: outside the property's quantifier (locality); what happens is recorded in
            # res["law"] and compared with the reference semantics of the model, not demanded
            return None
        msg = _oracle(case, res)
        if msg is None and case.get("second"):
            # the same element object used for a second flow
            sec = case["second"]
            res["full2"]["fs0"] = res["full"]["fs"]
            # LaTeXToPDF keeps the processes of a run that raised: which of them are still in the pool depends on
            # their timing, so what the second run yields for them is not compared then (the unselected values are)
            loose = case["el"]["k"] == "pdf" and res["full"]["err"] is not None
            msg = _oracle(dict(case, A=sec["A"], B=sec["B"], pat=sec["pat"]),
                          {"full": res["full2"], "a": res["a2"]}, SECOND_OFFSET, loose)
            if msg:
                msg = "second use of the element object (after the flow " + \
                      f"A={case['A']} B={case['B']} pattern {case['pat']}): " + msg
        return msg
    finally:
        # the full-detail encodings are needed by the oracle only: drop them before the result travels to the main
        # process (memory: ~100 k cases in the thorough tier)
        for run in ("full", "a", "full2", "a2"):
            for k in ("deep_blocks", "deep_tail", "produced", "fs0", "b"):
                if run in res:
                    res[run].pop(k, None)


def _oracle(case, res, offset=0, loose=False):
    el, pat = case["el"], case["pat"]
    full, a = res["full"], res["a"]
    is_pdf = el["k"] == "pdf"
    what = f"{el['k']} {dict((k, v) for k, v in el.items() if k != 'k')}"
    specs, a_idx = _flow_specs(case)
    full = dict(full, b=[dict(r, idx=r["idx"] - offset) for r in full["b"]])
    # 1. every unselected value that was consumed is yielded exactly once, as the very same object, intact, in order,
    #    and the directory is the same before and after it
    last = -1
    for rep in full["b"]:
        v = specs[rep["idx"]]
        if not rep["pulled"]:
            continue
        if rep["idx"] == full["npulled"] - 1 and full["err"] is not None and not rep["pos"]:
            return (f"{what}: the unselected value {v} (position {rep['idx']} of the flow) made the element raise "
                    f"{full['err']}")
        if len(rep["pos"]) != 1:
            if full["err"] is not None and not rep["pos"] and rep["idx"] >= full["npulled"] - 1:
                continue
            return (f"{what}: the unselected value {v} (position {rep['idx']} of the flow) is yielded "
                    f"{len(rep['pos'])} times as the same object (expected once); outputs {full['blocks']}")
        if rep["pos"][0] <= last:
            return f"{what}: the unselected values change their relative order (value {v} at output {rep['pos'][0]})"
        last = rep["pos"][0]
        if not rep["intact"]:
            if "left" in rep:
                return (f"{what}: the unselected value {v} (a one-shot iterable) was read from while passing: "
                        f"{rep['left']} is left of {_iter_items(v['d'])}")
            return f"{what}: the unselected value {v} was modified while passing"
        if rep.get("fs_untouched") is False:
            return f"{what}: the file system changed while the unselected value {v} was processed"
    if loose:
        return None
    # 1b. an element that selects nothing of the flow (all values unselected, or the empty flow) leaves the
    #     directory tree exactly as it was before the element was constructed and run
    if not case["A"] and full["fs"] != full["fs0"]:
        return (f"{what}: no value of the flow {case['B']} is selected, yet the directory changed from "
                f"{full['fs0']} to {full['fs']}")
    # 2. what is produced for the selected values does not depend on the interleaved unselected ones
    if full["err"] != a["err"]:
        return (f"{what}: with the unselected values interleaved the run ends with {full['err']}, on the selected "
                f"values alone with {a['err']} (A={case['A']}, B={case['B']}, pattern {pat})")
    key = lambda x: repr(x)
    if is_pdf and full["err"] is not None:
        # which results of the process pool are out before the exception depends on when the processes end
        return None
    if is_pdf:
        if sorted(full["produced"], key=key) != sorted(a["produced"], key=key):
            return (f"{what}: the values produced for the selected values differ (as multisets): interleaved "
                    f"{full['produced']} vs alone {a['produced']}")
    else:
        if full["produced"] != a["produced"]:
            return (f"{what}: the values produced for the selected values depend on the interleaved unselected values: "
                    f"interleaved {full['produced']} vs alone {a['produced']} (pattern {pat})")
        # run(interleave(A, B)) = interleave(run(A), B): every selected value's results stand where it stood
        ia = 0
        for i, p in enumerate(pat):
            if i >= len(full["deep_blocks"]):
                break
            if p:
                if ia >= len(a["deep_blocks"]) or full["deep_blocks"][i] != a["deep_blocks"][ia]:
                    return (f"{what}: the results for the selected value at position {i} are "
                            f"{full['deep_blocks'][i]} in the interleaved flow, "
                            f"{a['deep_blocks'][ia] if ia < len(a['deep_blocks']) else None} for A alone")
                ia += 1
        if full["deep_tail"] != a["deep_tail"]:
            return f"{what}: after the flow the element yields {full['deep_tail']} vs {a['deep_tail']} for A alone"
    if full["fs"] != a["fs"]:
        return f"{what}: the directory after the interleaved run {full['fs']} differs from the one after A alone {a['fs']}"
    return None


def nontrivial(case, res):
    return bool(case["A"]) and bool(case["B"])


def classify(case, res):
    el = case["el"]
    labels = [el["k"], f"{el['k']}:|A|={len(case['A'])},|B|={len(case['B'])}"]
    if res["full"]["err"]:
        labels.append(f"{el['k']}:err:{res['full']['err']}")
    if case.get("alias"):
        # the locality hypothesis is needed: on how many flows with shared objects does the property fail?
        kind = "ctx-shared" if any(k == "ctx" for _, _, k in case["alias"]) else "same-object-twice"
        labels.append(f"alias:{kind}:" + ("property-holds" if res.get("law") is None else "property-fails"))
    if case.get("second"):
        labels.append("second-use")
    for s in case["B"]:
        labels.append("B:" + s["d"]["k"] + ("+ctx" if s.get("c") is not None else ""))
    for s in case["A"]:
        labels.append("A:" + s["d"]["k"] + ("+ctx" if s.get("c") is not None else ""))
    return labels


def signature(case, failure):
    import re
    return case["el"]["k"] + ":" + re.sub(r"[0-9]+", "#", failure.split(":", 1)[-1])[:70]


def shrink(case):
    """smaller cases that are still cases: every value of A selected, every value of B unselected"""
    for c in _shrink(case):
        if all(not ref_selected(c["el"], b) for b in c["B"]) and all(ref_selected(c["el"], a) for a in c["A"]):
            yield c


def _shrink(case):
    pat, A, B = case["pat"], case["A"], case["B"]
    if case.get("alias"):
        return                      # positions are fixed by the sharing
    if case.get("second"):
        # first try the second flow alone on a fresh element, then without it, then with an empty first flow
        sec = case["second"]
        plain = {k: v for k, v in case.items() if k != "second"}
        yield dict(plain, A=sec["A"], B=sec["B"], pat=sec["pat"])
        yield plain
        if pat:
            yield dict(case, A=[], B=[], pat=[])
        return
    # drop one value (and its pattern entry)
    for which, lst in ((True, A), (False, B)):
        for j in range(len(lst)):
            n, newpat = -1, []
            for p in pat:
                if p == which:
                    n += 1
                    if n == j:
                        continue
                newpat.append(p)
            c = dict(case, pat=newpat)
            c["A" if which else "B"] = lst[:j] + lst[j + 1:]
            yield c
    # drop the initial files
    if case.get("fs", {}).get("files"):
        yield dict(case, fs={"files": [], "dirs": case["fs"].get("dirs", [])})
    # drop contexts of B values
    for j, s in enumerate(B):
        if s.get("c"):
            yield dict(case, B=B[:j] + [dict(s, c=None)] + B[j + 1:])


# ----------------------------------------------------------------------------------------------------
# generation

def _patterns(na, nb):
    for pos in itertools.combinations(range(na + nb), na):
        yield [i in pos for i in range(na + nb)]


class _Ids(object):
    """unique payloads, so that no two values of a flow are the same Python object"""
    def __init__(self):
        self.n = 0

    def next(self):
        self.n += 1
        return self.n


def _hist(ids, dim, bin_, shape=None):
    shape = shape or {1: [2], 2: [2, 1], 3: [1, 1, 2]}[dim]
    return {"k": "hist", "id": ids.next(), "dim": dim, "shape": shape, "bin": bin_}


def common_b(ids, rng, allow_str=True):
    """foreign values: bare numbers, strings, None, floats, tuples, lists, bytes, bare dicts, foreign objects, pairs
    with unrelated context"""
    n = lambda: 1000 + ids.next()
    vals = [
        {"d": {"k": "int", "v": n()}},
        {"d": {"k": "float", "v": "%d.5" % n()}},
        {"d": {"k": "none"}},
        {"d": {"k": "obj", "id": n()}},
        {"d": {"k": "seq", "tuple": True, "items": [{"k": "int", "v": n()}, {"k": "int", "v": 2}, {"k": "int", "v": 3}]}},
        {"d": {"k": "seq", "tuple": True, "items": [{"k": "int", "v": n()}, {"k": "int", "v": 2}]}},
        {"d": {"k": "seq", "tuple": True, "items": [{"k": "int", "v": n()}]}},
        {"d": {"k": "seq", "tuple": False, "items": [{"k": "int", "v": n()}, {"k": "str", "v": "x"}]}},
        {"d": {"k": "bytes", "id": n()}},
        {"d": {"k": "baredict", "v": {"output": {"filetype": "tex", "to_csv": True}, "n": n()}}},
        {"d": {"k": "int", "v": n()}, "c": {}},
        {"d": {"k": "int", "v": n()}, "c": {"foo": {"bar": n()}}},
        {"d": {"k": "obj", "id": n()}, "c": {"variable": {"name": "x"}, "n": n()}},
        {"d": {"k": "float", "v": "%d.25" % n()}, "c": {"output": {"unrelated": True}}},
        {"d": {"k": "none"}, "c": {"foo": n()}},
        {"d": {"k": "badwrite", "id": n()}},
    ]
    if allow_str:
        vals += [{"d": {"k": "str", "v": "plain string %d" % n()}},
                 {"d": {"k": "str", "v": "s%d" % n()}, "c": {"foo": "bar"}}]
    return vals


def settings_vals(ids):
    """values whose context carries output settings (and nothing that makes an output element select them, unless
    the data does): duplicate_last_bin, to_csv, write, filename, dirname, fileext, filetype, template, changed"""
    n = ids.next
    i = lambda: {"k": "int", "v": 5000 + n()}
    return [
        {"d": i(), "c": {"output": {"duplicate_last_bin": False}}},
        {"d": i(), "c": {"output": {"duplicate_last_bin": True, "to_csv": True}}},
        {"d": _hist(ids, 1, "num"), "c": {"output": {"to_csv": False, "duplicate_last_bin": False}}},
        {"d": _hist(ids, 2, "num"), "c": {"output": {"to_csv": False, "duplicate_last_bin": True}}},
        {"d": _hist(ids, 3, "num"), "c": {"output": {"duplicate_last_bin": False}}},
        {"d": i(), "c": {"output": {"filename": "leak", "dirname": "leakdir", "fileext": "lk", "changed": True,
                                    "write": True}}},
        {"d": {"k": "str", "v": "not written %d" % n()},
         "c": {"output": {"write": False, "filename": "leak2", "dirname": "leak/dir", "fileext": "x", "changed": True}}},
        {"d": {"k": "obj", "id": n()}, "c": {"output": {"template": "t2.tex", "filetype": "other", "fileext": "zz"}}},
        {"d": {"k": "float", "v": "%d.5" % n()}, "c": {"output": {"changed": True}}},
        {"d": {"k": "none"}, "c": {"output": {"changed": False, "filetype": "txt", "template": "missing.tex"}}},
        {"d": _hist(ids, 1, "num"), "c": {"histogram": {"to_graph": False}, "output": {"to_csv": 0, "changed": True},
                                          "variable": {"name": "leak"}, "group": 5}},
        # entries the elements look into that are not dictionaries ("unrelated context")
        {"d": i(), "c": {"output": 5}},
        {"d": i(), "c": {"output": "csv", "histogram": "x"}},
        {"d": {"k": "obj", "id": n()}, "c": {"output": ["a"], "histogram": 7, "variable": 3}},
        {"d": {"k": "float", "v": "%d.5" % n()}, "c": {"histogram": None, "group": 5, "output": None}},
        {"d": _hist(ids, 3, "num"), "c": {"output": 5, "histogram": 0}},
        # strings that name files below directories that do not exist (nothing may create them)
        {"d": {"k": "str", "v": "$R/nodir%d/plots/a.csv" % n()}, "c": {"output": {"filetype": "csv"}}},
        {"d": {"k": "str", "v": "$R/nodir%d/b/c.png" % n()}, "c": {"output": {"filetype": "png", "changed": True}}},
        {"d": {"k": "str", "v": "$R/nodir%d/sub/d.txt" % n()}},
    ]


def exotic_vals(ids):
    """foreign values of further kinds: look-alike objects, a bool, a set, a generator, the empty tuple and string"""
    n = ids.next
    return [
        {"d": {"k": "lookalike", "id": n()}},
        {"d": {"k": "lookalike", "id": n()}, "c": {"histogram": {"to_graph": True}, "n": n()}},
        {"d": {"k": "rows", "id": n(), "rk": "notcallable", "upd": False}},
        {"d": {"k": "rows", "id": n(), "rk": "notcallable", "upd": False}, "c": {"output": {"to_csv": True}}},
        {"d": {"k": "bool"}},
        {"d": {"k": "set", "id": n()}},
        {"d": {"k": "gen", "id": n()}},
        {"d": {"k": "seq", "tuple": True, "items": []}},
        {"d": {"k": "str", "v": ""}},
        {"d": {"k": "bool"}, "c": {"foo": n()}},
    ]



def oneshot_vals(ids):
    """one-shot iterables (a generator, a list iterator, an iterator object), bare and in pairs whose context enables
    the elements: passing through an element must not read from them"""
    n = ids.next
    out = []
    for k in ITER_KINDS:
        out.append({"d": {"k": k, "id": n()}})
        out.append({"d": {"k": k, "id": n()}, "c": {"foo": n()}})
    out += [
        {"d": {"k": "gen", "id": n()}, "c": {"output": {"to_csv": True, "write": True}, "histogram": {"to_graph": True}}},
        {"d": {"k": "iter", "id": n()}, "c": {"output": {"filetype": "txt", "changed": True}, "variable": {"name": "x"}}},
        {"d": {"k": "oneshot", "id": n()}, "c": {"output": {"write": True, "filename": "it"}, "groups": [1, 2]}},
        {"d": {"k": "gen", "id": n()}, "c": {"output": {"group": [{}, {}]}, "bins": 2}},
    ]
    return out


def container_vals(ids):
    """unselected values that hold (data, context) pairs or dictionaries inside their data: nothing inside may change"""
    n = ids.next
    i = lambda: {"k": "int", "v": 7000 + n()}
    pair = lambda: {"k": "seq", "tuple": True, "items": [i(), {"k": "baredict", "v": {"a": 1, "n": n()}}]}
    return [
        {"d": {"k": "seq", "tuple": False, "items": [pair(), pair()]}},
        {"d": {"k": "seq", "tuple": False, "items": [pair(), pair()]}, "c": {"groups": [{}, {}], "n": n()}},
        {"d": {"k": "seq", "tuple": True, "items": [pair(), pair(), pair()]}},
        {"d": _hist(ids, 3, "pair")},
        {"d": _hist(ids, 3, "pair"), "c": {"output": {"to_csv": False, "write": False}, "histogram": {"to_graph": False}}},
        {"d": _hist(ids, 3, "hist"), "c": {"histogram": {"to_graph": 0}, "output": {"to_csv": 0}, "n": n()}},
        {"d": {"k": "lookalike", "id": n()}, "c": {"output": {"to_csv": True}, "histogram": {"to_graph": True, "dim": 1}}},
        # histograms whose bins hold containers (seed round I/J), switched off for the elements that act on histograms
        {"d": _hist(ids, 1, "list:hist"), "c": {"output": {"to_csv": False}, "histogram": {"to_graph": False}}},
        {"d": _hist(ids, 2, "list:empty"), "c": {"output": {"to_csv": 0, "write": False}, "histogram": {"to_graph": None}}},
        {"d": _hist(ids, 3, "tuple:hist"), "c": {"histogram": {"to_graph": False}, "n": n()}},
        {"d": _hist(ids, 1, "dict:hist"), "c": {"output": {"to_csv": False}, "histogram": {"to_graph": 0}, "variable": {"name": "x"}}},
    ]


# the dotted keys the selection rules of the elements read, with the words they compare with
_RULE_PATHS = {"tocsv": [("output.to_csv", None)], "write": [("output.write", None)],
               "render": [("output.filetype", "csv")], "pdf": [("output.filetype", "tex")],
               "png": [("output.filetype", "pdf")], "h2g": [("histogram.to_graph", None)], "mapgroup": [("group", None)]}


def _rule_paths(el):
    if el["k"] == "pipe":
        out = []
        for st in el["stages"]:
            out += [p for p in _rule_paths(st) if p not in out]
        return out
    if el["k"] == "render" and el.get("sel") is not None:
        return []
    return _RULE_PATHS.get(el["k"], [])


def _nest_ctx(path, v):
    keys = path.split(".")
    for k in reversed(keys):
        v = {k: v}
    return v


def nearmiss_vals(ids, el, rng):
    """"unrelated context" close to the selection rule of the element: the entry the rule reads holds a value of
    another type (a dictionary or a list that contains the word, another spelling, a number …), or the word / the
    switch stands at another place of the context.  Data: what the element would act on (existing files, a
    histogram, a string), so that a wrong selection shows."""
    n = ids.next
    datas = {"csv": [{"k": "str", "v": "$R/x.csv"}], "tex": [{"k": "str", "v": "$R/t1.tex"}, {"k": "str", "v": "$R/t2.tex"}],
             "pdf": [{"k": "str", "v": "$R/p1.pdf"}, {"k": "str", "v": "$R/p2.pdf"}]}
    out = []
    for path, word in _rule_paths(el):
        last = path.split(".")[-1]
        if word is not None:
            odd = [{word: True, "png": True}, {word: {"pages": 3}}, {word: word}, [word], [word, "x"], (word.upper()),
                   word + "x", " " + word, word[:-1], "", 0, 1, True, False, None, {last: word}, {}]
            ctxs = [_nest_ctx(path, o) for o in odd]
            ctxs += [{last: word}, {path: word}, {"output": {word: True}}, {word: True}, {"output": [{last: word}]},
                     {"outputs": {last: word}}, {"output": {"output": {last: word}}}, {"output": {last.upper(): word}},
                     {"output": {"filetypes": word, "fileext": word}}, {"context": _nest_ctx(path, word)}]
            for c in ctxs:
                d = copy.deepcopy(rng.choice(datas[word] + [{"k": "int", "v": 6000 + n()}]))
                c = copy.deepcopy(c)
                if rng.random() < 0.3:
                    c["n"] = n()
                out.append({"d": d, "c": c})
        else:
            # switches (to_csv / write / to_graph) and `group`: all falsy and truthy values of other types, and the
            # switch at other places; data of every kind the element acts on
            odd = [False, 0, None, "", [], {}, True, 1, "False", [0], {last: False}, [False]]
            ctxs = [_nest_ctx(path, o) for o in odd]
            ctxs += [{last: False}, {path: False}, {"output": {"output": {last: False}}}, {last.upper(): False},
                     {"context": _nest_ctx(path, False)}, {path.split(".")[0]: [{last: False}]}]
            kinds = [lambda: _hist(ids, 1, "num"), lambda: _hist(ids, 2, "num"), lambda: _hist(ids, 1, "pair"),
                     lambda: {"k": "str", "v": "text %d" % n()}, lambda: {"k": "rows", "id": n(), "rk": "ok", "upd": True},
                     lambda: {"k": "writable", "id": n()}, lambda: {"k": "int", "v": 6000 + n()},
                     lambda: {"k": "seq", "tuple": False, "items": [{"k": "int", "v": 1}, {"k": "int", "v": 2}]}]
            for c in ctxs:
                for mk in rng.sample(kinds, 3):
                    out.append({"d": mk(), "c": copy.deepcopy(c)})
    return out


def _set_path(c, path, v):
    """a copy of the context `c` with `v` at the dotted `path` (None if an entry on the way is not a dictionary)"""
    c = copy.deepcopy(c) if c is not None else {}
    d = c
    keys = path.split(".")
    for k in keys[:-1]:
        if k not in d:
            d[k] = {}
        if not isinstance(d[k], dict):
            return None
        d = d[k]
    d[keys[-1]] = v
    return c


def twin_vals(ids, el, pal_a, rng):
    """the selected values of the element's own palette (the error-raising ones too), switched off: same data, same
    context, but the entry the selection rule reads disables / does not name them"""
    out = []
    for path, word in _rule_paths(el):
        if path == "group":
            offs = ["<del>"]
        elif word is not None:
            offs = ["other", {word: True}, [word], None]
        elif path == "output.write":
            offs = [False]
        else:
            offs = [False, 0, None, "", {}]
        for v in pal_a:
            if v["d"]["k"] == "gplots":
                continue
            for off in rng.sample(offs, min(2, len(offs))):
                if off == "<del>":
                    c = {("groups" if k == "group" else k): x for k, x in copy.deepcopy(v.get("c") or {}).items()}
                else:
                    c = _set_path(v.get("c"), path, off)
                if c is None:
                    continue
                w = {"d": copy.deepcopy(v["d"]), "c": c}
                _refresh_data(w["d"], ids)
                out.append(w)
    return out


def _configs(tier):
    """(element spec, fs spec, A palette maker, B palette maker)"""
    W = lambda od, eu, ow: {"k": "write", "outdir": od, "defname": "output", "eu": eu, "ow": ow}
    out = []

    # ---- ToCSV
    def a_tocsv(ids, rng):
        n = ids.next
        return [
            {"d": _hist(ids, 1, "num")},
            {"d": _hist(ids, 2, "num")},
            {"d": _hist(ids, 1, "num", [3]), "c": {"n": n()}},
            {"d": _hist(ids, 1, "num"), "c": {"output": {"to_csv": True, "duplicate_last_bin": False}}},
            {"d": _hist(ids, 2, "num", [2, 2]), "c": {"output": {"duplicate_last_bin": True}}},
            {"d": _hist(ids, 1, "num", [3]), "c": {"output": {"duplicate_last_bin": 0}}},
            {"d": _hist(ids, 2, "num", [1, 2]), "c": {"histogram": {"to_graph": False}, "output": 5}},
            {"d": {"k": "rows", "id": n(), "rk": "ok", "upd": False}},
            {"d": {"k": "rows", "id": n(), "rk": "ok", "upd": True}, "c": {"n": n()}},
            {"d": {"k": "rows", "id": n(), "rk": "empty", "upd": False}, "c": {"output": {"to_csv": 1}}},
            {"_e": 1, "d": _hist(ids, 1, "vec")},                        # LenaTypeError
            {"_e": 1, "d": _hist(ids, 2, "vec"), "c": {"n": n()}},        # TypeError
            {"_e": 1, "d": _hist(ids, 1, "hist")},                        # LenaTypeError
            {"_e": 1, "d": {"k": "rows", "id": n(), "rk": "notiter", "upd": False}},   # TypeError
        ]

    def b_tocsv(ids, rng):
        n = ids.next
        return common_b(ids, rng) + [
            {"d": _hist(ids, 3, "num")},
            {"d": _hist(ids, 3, "num"), "c": {"n": n()}},
            {"d": _hist(ids, 1, "num"), "c": {"output": {"to_csv": False}}},
            {"d": _hist(ids, 2, "num"), "c": {"output": {"to_csv": 0}, "n": n()}},
            {"d": _hist(ids, 1, "num"), "c": {"output": {"to_csv": None}}},
            {"d": {"k": "rows", "id": n(), "rk": "ok", "upd": True}, "c": {"output": {"to_csv": False}}},
            {"d": {"k": "writable", "id": n()}},
            {"d": {"k": "str", "v": "a,b\n1,%d" % n()}, "c": {"output": {"filetype": "csv"}}},
        ]
    out.append(({"k": "tocsv"}, {}, a_tocsv, b_tocsv))
    out.append(({"k": "tocsv", "dup": False}, {}, a_tocsv, b_tocsv))
    out.append(({"k": "tocsv", "dup": True, "header": True, "sep": ";"}, {}, a_tocsv, b_tocsv))

    # ---- Write
    def a_write(ids, rng):
        n = ids.next
        return [
            {"d": {"k": "str", "v": "text %d" % n()}},
            {"d": {"k": "str", "v": "same content"}, "c": {"output": {"filename": "same"}}},
            {"d": {"k": "str", "v": "new content %d" % n()}, "c": {"output": {"filename": "same", "changed": True}}},
            {"d": {"k": "str", "v": "t%d" % n()}, "c": {"output": {"filename": "f%d" % n(), "dirname": "d1/d2"}}},
            {"d": {"k": "str", "v": "t%d" % n()}, "c": {"output": {"filename": "g%d" % n(), "filetype": "csv"}, "n": 1}},
            {"d": {"k": "str", "v": "t%d" % n()}, "c": {"output": {"filename": "h%d" % n(), "fileext": "", "write": True}}},
            {"d": {"k": "str", "v": "t%d" % n()}, "c": {"output": {"filename": "k%d" % n(), "dirname": "/abs", "write": 0}}},
            {"d": {"k": "writable", "id": n()}, "c": {"output": {"filename": "w%d" % n(), "fileext": "bin"}}},
            {"d": {"k": "writable", "id": n()}, "c": {"output": {"filename": "w%d" % n(), "dirname": "wd"}}},
            {"d": {"k": "str", "v": "$R/sub/already.txt"}, "c": {"output": {"filename": "already"}}},
            {"d": {"k": "str", "v": "$R/already.txt"}, "c": {"output": {"filename": "already"}, "n": n()}},
            {"d": {"k": "str", "v": "$R/output.txt"}, "c": {"n": n()}},
            {"_e": 1, "d": {"k": "str", "v": "t%d" % n()}, "c": {"output": {"filename": ""}}},        # LenaRuntimeError
            {"_e": 1, "d": {"k": "str", "v": "t%d" % n()}, "c": {"output": 5}},                      # AttributeError
        ]

    def b_write(ids, rng):
        n = ids.next
        return common_b(ids, rng, allow_str=False) + [
            {"d": {"k": "str", "v": "not to be written %d" % n()}, "c": {"output": {"write": False}}},
            {"d": {"k": "str", "v": "x%d" % n()}, "c": {"output": {"write": False, "filename": "nw"}, "n": 1}},
            {"d": {"k": "writable", "id": n()}, "c": {"output": {"write": False}}},
            {"d": _hist(ids, 1, "num")},
            {"d": {"k": "rows", "id": n(), "rk": "ok", "upd": False}, "c": {"output": {"filename": "r"}}},
            {"d": {"k": "int", "v": 1000 + n()}, "c": {"output": {"filename": "same", "fileext": "txt"}}},
        ]
    wfs = {"files": [["same.txt", "same content", 1000], ["sub/same.txt", "same content", 1000],
                     ["sub/already.txt", "whatever", 1000]], "dirs": ["sub"]}
    for od, eu, ow in (("$R", False, False), ("$R/sub", False, False), ("$R", True, False), ("$R/sub", False, True),
                       ("$R/new/dir", False, False)):
        out.append((W(od, eu, ow), wfs, a_write, b_write))
    out.append((dict(W("$R/ctxdir", False, False), outdir_fmt="$R/{{name}}", static={"name": "ctxdir"}), wfs,
                a_write, b_write))
    out.append((dict(W("$R/{{name}}", False, False), outdir_fmt="$R/{{name}}", static={"other": 1}), wfs,
                a_write, b_write))
    out.append((dict(W("$R", True, False), verbose=True), wfs, a_write, b_write))
    out.append((dict(W("$R/fresh", False, False), verbose=True), wfs, a_write, b_write))

    # ---- RenderLaTeX
    def a_render(ids, rng):
        n = ids.next
        return [
            {"d": {"k": "str", "v": "$R/x%d.csv" % n()}, "c": {"output": {"filetype": "csv"}}},
            {"d": {"k": "str", "v": "$R/y%d.csv" % n()}, "c": {"output": {"filetype": "csv", "template": "t2.tex"}, "a": n()}},
            {"d": {"k": "int", "v": 1000 + n()}, "c": {"output": {"filetype": "csv", "fileext": "csv", "template": ""}}},
            {"_e": 1, "d": {"k": "obj", "id": n()}, "c": {"output": {"filetype": "csv", "template": "missing.tex"}}},   # TemplateNotFound
        ]

    def b_render(ids, rng):
        n = ids.next
        return common_b(ids, rng) + [
            {"d": {"k": "str", "v": "$R/z%d.tex" % n()}, "c": {"output": {"filetype": "tex"}}},
            {"d": {"k": "str", "v": "$R/z%d.pdf" % n()}, "c": {"output": {"filetype": "pdf", "template": "t1.tex"}}},
            {"d": {"k": "str", "v": "csv"}, "c": {"output": "csv"}},
            {"d": {"k": "str", "v": "c%d" % n()}, "c": {"output": {"filetype": ["csv"]}}},
            {"d": {"k": "str", "v": "c%d" % n()}, "c": {"filetype": "csv"}},
            {"d": _hist(ids, 1, "num")},
        ]
    out.append(({"k": "render", "def": "t1.tex", "templates": ["t1.tex", "t2.tex"], "sel": None}, {}, a_render, b_render))
    out.append(({"k": "render", "def": "", "templates": ["t1.tex", "t2.tex"], "sel": None}, {}, a_render, b_render))
    out.append(({"k": "render", "def": "t2.tex", "templates": ["t1.tex", "t2.tex"], "sel": None, "verbose": True}, {},
                a_render, b_render))

    Rbase = {"k": "render", "def": "t1.tex", "templates": ["t1.tex", "t2.tex"], "sel": None}
    for st in ("t2", "bycls", "missing", "raise"):           # select_template given as a callable
        out.append((dict(Rbase, seltemplate=st), {}, a_render, b_render))

    def a_render_data(ids, rng):                             # from_data=True: the data part is rendered
        n = ids.next
        csv = lambda **kw: {"output": dict({"filetype": "csv"}, **kw)}
        return [
            {"d": {"k": "baredict", "v": {"a": n(), "output": {"filetype": "x"}}}, "c": csv()},
            {"d": {"k": "seq", "tuple": False, "items": []}, "c": csv(template="t2.tex")},
            {"d": {"k": "str", "v": ""}, "c": csv()},
            {"_e": 1, "d": {"k": "str", "v": "text %d" % n()}, "c": csv()},                            # ValueError
            {"_e": 1, "d": {"k": "int", "v": 1000 + n()}, "c": csv()},                                 # TypeError
            {"_e": 1, "d": {"k": "seq", "tuple": True, "items": [{"k": "int", "v": 1}, {"k": "int", "v": 2}]},
             "c": csv()},                                                                              # TypeError
            {"_e": 1, "d": _hist(ids, 1, "num"), "c": csv()},                                          # TypeError
            {"_e": 1, "d": {"k": "baredict", "v": {"a": 1}}, "c": csv(template="missing.tex")},        # TemplateNotFound
        ]
    out.append((dict(Rbase, fromdata=True), {}, a_render_data, b_render))
    out.append((dict(Rbase, fromdata=True, seltemplate="t2"), {}, a_render_data, b_render))

    def a_render_int(ids, rng):
        n = ids.next
        return [{"d": {"k": "int", "v": 1000 + n()}}, {"d": {"k": "int", "v": 1000 + n()}, "c": {"a": n()}},
                {"d": {"k": "int", "v": 1000 + n()}, "c": {"output": {"template": "t2.tex", "filetype": "pdf"}}}]

    def b_render_int(ids, rng):
        n = ids.next
        return [v for v in common_b(ids, rng) if v["d"]["k"] != "int"] + [
            {"d": {"k": "str", "v": "$R/x%d.csv" % n()}, "c": {"output": {"filetype": "csv"}}}]
    out.append(({"k": "render", "def": "t1.tex", "templates": ["t1.tex", "t2.tex"], "sel": {"cls": "int"}}, {},
                a_render_int, b_render_int))

    # ---- LaTeXToPDF
    pfs = {"files": [["a.tex.d/t1.tex", "tex in a directory named .tex", 2000], ["x.tex.bak", "not an extension", 2000],
                     ["t1.tex", "tex one", 2000], ["t2.tex", "tex two", 2000], ["t3.tex", "tex three", 2000],
                     ["t4.tex", "tex four", 3000], ["t5.tex", "tex five", 1000],
                     ["t2.pdf", "old pdf", 1500], ["t3.pdf", "old pdf", 2500], ["t4.pdf", "old pdf", 2500],
                     ["t5.pdf", "old pdf", 2500], ["nosrc.pdf", "old pdf", 2500]], "dirs": []}

    def a_pdf(ids, rng):
        n = ids.next
        tex = lambda name, extra=None: {"d": {"k": "str", "v": "$R/%s.tex" % name},
                                        "c": {"output": dict({"filetype": "tex"}, **(extra or {})), "n": n()}}
        return [tex("t1"), tex("t2"), tex("t3"), tex("t4"), tex("t5", {"changed": False}),
                tex("a.tex.d/t1"),                     # only the extension is replaced (commit 7f5ee11)
                {"d": {"k": "str", "v": "$R/x.tex.bak"}, "c": {"output": {"filetype": "tex"}, "n": n()}},
                {"d": {"k": "str", "v": "$R/t1.tex"}, "c": {"output": {"filetype": "tex", "changed": True}}},
                {"d": {"k": "str", "v": "$R/t3.tex"}, "c": {"output": {"filetype": "tex", "changed": 0}}},
                {"d": {"k": "str", "v": "$R/new%d.tex" % n()}, "c": {"output": {"filetype": "tex"}}},
                dict(tex("nosrc"), _e=1),                                                       # FileNotFoundError
                {"_e": 1, "d": {"k": "int", "v": 1000 + n()}, "c": {"output": {"filetype": "tex"}}}]   # AttributeError

    def b_pdf(ids, rng):
        n = ids.next
        return common_b(ids, rng) + [
            {"d": {"k": "str", "v": "$R/t1.csv"}, "c": {"output": {"filetype": "csv"}}},
            {"d": {"k": "str", "v": "$R/t2.pdf"}, "c": {"output": {"filetype": "pdf", "changed": True}}},
            {"d": {"k": "str", "v": "$R/t%d.tex" % n()}, "c": {"output": "tex"}},
            {"d": {"k": "str", "v": "$R/t%d.tex" % n()}, "c": {"filetype": "tex"}},
            {"d": {"k": "str", "v": "$R/t%d.tex" % n()}},
        ]
    out.append(({"k": "pdf", "ow": False, "sched": None}, pfs, a_pdf, b_pdf))
    out.append(({"k": "pdf", "ow": True, "sched": None}, pfs, a_pdf, b_pdf))
    out.append(({"k": "pdf", "ow": False, "sched": None, "verbose": True, "default_cmd": True}, pfs, a_pdf, b_pdf))

    # ---- PDFToPNG
    gfs = {"files": [["a.pdf.d/p.pdf", "pdf in a directory named .pdf", 2000], ["nopdfext", "x", 2000],
                     ["p1.pdf", "pdf one", 2000], ["p2.pdf", "pdf two", 2000], ["p2.png", "old png", 2500],
                     ["p3.jpeg", "old jpeg", 2500]], "dirs": []}

    def a_png(ids, rng):
        n = ids.next
        pdf = lambda name, extra=None: {"d": {"k": "str", "v": "$R/%s.pdf" % name},
                                        "c": {"output": dict({"filetype": "pdf"}, **(extra or {})), "n": n()}}
        return [pdf("p1"), pdf("p2"), pdf("p2", {"changed": True}), pdf("p2", {"changed": False}), pdf("p3"),
                pdf("a.pdf.d/p"),
                {"d": {"k": "str", "v": "$R/nopdfext"}, "c": {"output": {"filetype": "pdf"}, "n": n()}},
                {"d": {"k": "str", "v": "$R/y.pdf.old"}, "c": {"output": {"filetype": "pdf"}}},
                pdf("q%d" % n(), {"changed": 0}),
                {"_e": 1, "d": {"k": "obj", "id": n()}, "c": {"output": {"filetype": "pdf"}}}]     # AttributeError

    def b_png(ids, rng):
        n = ids.next
        return common_b(ids, rng) + [
            {"d": {"k": "str", "v": "$R/p1.tex"}, "c": {"output": {"filetype": "tex"}}},
            {"d": {"k": "str", "v": "$R/p1.png"}, "c": {"output": {"filetype": "png", "changed": True}}},
            {"d": {"k": "str", "v": "$R/p%d.pdf" % n()}, "c": {"output": "pdf"}},
            {"d": {"k": "str", "v": "$R/p%d.pdf" % n()}},
        ]
    out.append(({"k": "png", "format": "png", "ow": False}, gfs, a_png, b_png))
    out.append(({"k": "png", "format": "jpeg", "ow": True}, gfs, a_png, b_png))
    out.append(({"k": "png", "format": "png", "ow": False, "verbose": True}, gfs, a_png, b_png))

    # ---- HistToGraph
    def a_h2g(ids, rng):
        n = ids.next
        return [{"d": _hist(ids, 1, "num")}, {"d": _hist(ids, 2, "num"), "c": {"n": n()}},
                {"d": _hist(ids, 1, "vec"), "c": {"histogram": {"to_graph": True}, "value": {"old": 1}}},
                {"d": _hist(ids, 1, "pair"), "c": {"histogram": 5}},
                {"d": _hist(ids, 3, "num")}, {"d": _hist(ids, 1, "hist"), "c": {"output": {"to_csv": False}}}]

    def b_h2g(ids, rng):
        n = ids.next
        return common_b(ids, rng) + [
            {"d": _hist(ids, 1, "num"), "c": {"histogram": {"to_graph": False}}},
            {"d": _hist(ids, 2, "num"), "c": {"histogram": {"to_graph": 0, "dim": 2}, "n": n()}},
            {"d": _hist(ids, 1, "vec"), "c": {"histogram": {"to_graph": None}}},
            {"d": {"k": "rows", "id": n(), "rk": "ok", "upd": True}},
        ]
    out.append(({"k": "h2g"}, {}, a_h2g, b_h2g))
    for extra in ({"coord": "right"}, {"coord": "middle", "scalenum": 5}, {"scale": True}, {"mv": "first"},
                  {"mv": "witherr", "nfields": 3}, {"nfields": 3}, {"nfields": 1, "scale": True},
                  {"mv": "first", "nfields": 3, "coord": "right"}):
        out.append((dict({"k": "h2g"}, **extra), {}, a_h2g, b_h2g))

    # ---- IterateBins / MapBins
    def hists(kinds, rng_ctx=True):
        def mk(ids, rng):
            n = ids.next
            vals = []
            for b in kinds:
                vals.append({"d": _hist(ids, 1, b)})
                vals.append({"d": _hist(ids, 2, b), "c": {"n": n()}})
                vals.append({"d": _hist(ids, 1, b, [3]), "c": {"variable": {"name": "x"}, "histogram": {"dim": 1}}})
                vals.append({"d": _hist(ids, 3, b), "c": {"variable": None}})
            return vals
        return mk

    def iter_errs(kinds):
        def mk(ids, rng):
            n = ids.next
            b = kinds[0]
            return hists(kinds)(ids, rng) + [
                {"_e": 1, "d": _hist(ids, 1, b), "c": {"variable": {"latex": "x"}}},          # KeyError
                {"_e": 1, "d": _hist(ids, 2, b), "c": {"variable": {"name": "x"}}},           # LenaValueError
                {"_e": 1, "d": _hist(ids, 1, b), "c": {"variable": "x"}},                     # TypeError
                {"_e": 1, "d": _hist(ids, 1, b), "c": {"variable": 5, "n": n()}},             # TypeError
            ]
        return mk

    def cont_hists(ids, rng):
        """histograms whose bins hold containers (lists — also empty ones, lists of histograms, of pairs, nested —
        tuples, dictionaries), 1 to 3 dimensions, bare and with context"""
        n = ids.next
        vals = []
        for j, b in enumerate(CONT_BINS):
            vals.append({"d": _hist(ids, 1, b)})
            dim = 2 + j % 2
            vals.append({"d": _hist(ids, dim, b), "c": rng.choice([
                {"variable": {"name": "x"}, "n": n()}, {"n": n()}, {"variable": {"name": "y"}, "output": {"write": False}},
                {"histogram": {"dim": dim}, "variable": None}])})
        vals.append({"d": _hist(ids, 1, "list:empty", [3]), "c": {"variable": {"name": "x"}}})
        vals.append({"d": _hist(ids, 1, "list:hist", [3]), "c": {"variable": {"name": "x"}}})
        return vals

    def b_bins(kinds):
        others = [b for b in ("num", "hist", "vec", "pair") if b not in kinds]
        def mk(ids, rng):
            # (those of the container histograms the element's classes select — tuples under `tuple` — are sorted
            # out by `ref_selected` in `with_settings`)
            return common_b(ids, rng) + hists(others)(ids, rng) + [dict(v, _c=1) for v in cont_hists(ids, rng)]
        return mk
    out.append(({"k": "iterbins", "bins": ["hist"], "default": True}, {}, iter_errs(["hist"]), b_bins(["hist"])))
    out.append(({"k": "iterbins", "bins": ["num", "pair"]}, {}, iter_errs(["num", "pair"]), b_bins(["num", "pair"])))
    out.append(({"k": "iterbins", "bins": ["hist", "vec"]}, {}, hists(["hist", "vec"]), b_bins(["hist", "vec"])))
    allk = ["num", "hist", "vec", "pair"]
    for inner in ("id", "dup", "drop", "dupfirst", "raise", "yieldraise", "ctx"):
        out.append(({"k": "mapbins", "bins": allk, "default": True, "inner": inner}, {}, hists(allk), b_bins(allk)))
    for kinds, inner in ((["vec"], "id"), (["hist"], "dup"), (["num", "pair"], "dupfirst"), (["hist", "vec"], "ctx"),
                         (["vec"], "yieldraise")):
        out.append(({"k": "mapbins", "bins": kinds, "inner": inner}, {}, hists(kinds), b_bins(kinds)))
    for kinds, inner in ((["num", "pair"], "id"), (["hist", "vec"], "ctx")):
        out.append(({"k": "mapbins", "bins": kinds, "inner": inner, "drop": False}, {}, hists(kinds), b_bins(kinds)))

    # ---- RunIf
    def split_by(sel, extra_a):
        def a(ids, rng):
            return [v for v in common_b(ids, rng) + extra_a(ids, rng) if eval_sel(sel, v)]
        def b(ids, rng):
            return [v for v in common_b(ids, rng) + extra_a(ids, rng) if not eval_sel(sel, v)]
        return a, b

    def extra_runif(ids, rng):
        n = ids.next
        return [{"d": {"k": "int", "v": 2000 + n()}}, {"d": {"k": "int", "v": 2000 + n()}, "c": {"k": n()}},
                {"d": {"k": "str", "v": "r%d" % n()}, "c": {"k": 1}}, {"d": {"k": "str", "v": "r%d" % n()}},
                {"d": _hist(ids, 1, "num")}, {"d": _hist(ids, 1, "num"), "c": {"k": 2}},
                {"d": {"k": "obj", "id": n()}, "c": {"k": {"deep": 1}}}]
    sels = [{"cls": "int"}, {"cls": "str"}, {"key": "k"}, {"or": [{"cls": "int"}, {"cls": "histogram"}]},
            {"and": [{"cls": "str"}, {"key": "k"}]}, {"const": False}]
    inners = ["id", "dup", "drop", "number", "first", "count", "raise", "yieldraise", "last"]
    combos = [(s, i) for s in sels for i in inners]
    for s, i in combos:
        a, b = split_by(s, extra_runif)
        out.append(({"k": "runif", "sel": s, "inner": i}, {}, a, b))
    a, b = split_by({"cls": "str"}, extra_runif)
    out.append(({"k": "runif", "sel": {"cls": "str"}, "inner": {"write": W("$R", False, False)}}, wfs, a, b))
    out.append(({"k": "runif", "sel": {"cls": "str"}, "inner": {"write": W("$R/fresh", False, False)}}, wfs, a, b))
    a, b = split_by({"cls": "int"}, extra_runif)
    out.append(({"k": "runif", "sel": {"cls": "int"}, "inner": "dupeven", "init": "selector"}, {}, a, b))
    out.append(({"k": "runif", "sel": {"cls": "int"}, "inner": "number", "init": "two"}, {}, a, b))

    # ---- MapGroup(map_scalars=False)
    def a_group(ids, rng):
        n = ids.next
        i = lambda: {"k": "int", "v": 3000 + n()}
        return [
            {"d": {"k": "seq", "tuple": False, "items": [i(), i()]}, "c": {"group": [{"g": 1}, {"g": 2}]}},
            {"d": {"k": "seq", "tuple": False, "items": [i()]}, "c": {"group": [{"g": n()}], "n": n()}},
            {"d": {"k": "seq", "tuple": True, "items": [i(), _hist(ids, 1, "num"), i()]},
             "c": {"group": [{}, {"x": 1}, {"x": 1}], "foo": "bar"}},
            {"d": {"k": "seq", "tuple": False, "items": [i(), i()]},
             "c": {"group": [{"output": {"changed": True}}, {"g": 2}], "n": n()}},
            {"d": {"k": "seq", "tuple": False, "items": [i(), i()]},
             "c": {"group": [{"output": {"changed": False}}, {"output": {"changed": 0}}], "output": {"changed": None}}},
            {"d": {"k": "seq", "tuple": True, "items": [i(), i()]},
             "c": {"group": [{"output": {"changed": None}}, {}], "output": {"changed": False, "filetype": "pdf"}}},
            {"d": {"k": "seq", "tuple": False, "items": [i()]}, "c": {"group": [{"output": "changed"}], "output": 5}},
            {"_e": 1, "d": {"k": "seq", "tuple": False, "items": [i(), i()]},
             "c": {"group": [{"output": {"changed": [1]}}, {}]}},                                       # TypeError
            {"_e": 1, "d": {"k": "seq", "tuple": False, "items": [i(), i()]}, "c": {"group": [{"g": 1}]}},          # LenaRuntimeError
            {"_e": 1, "d": {"k": "seq", "tuple": False, "items": [i(), i()]}, "c": {"group": [{"g": 1}, 5]}},       # LenaTypeError
            {"_e": 1, "d": {"k": "seq", "tuple": False, "items": []}, "c": {"group": []}},                         # IndexError
        ]

    def b_group(ids, rng):
        n = ids.next
        i = lambda: {"k": "int", "v": 3000 + n()}
        return common_b(ids, rng) + [
            {"d": i(), "c": {"group": [{"g": 1}]}},
            {"d": {"k": "obj", "id": n()}, "c": {"group": [{"g": 1}, {"g": 2}], "n": n()}},
            {"d": _hist(ids, 1, "num"), "c": {"group": []}},
            {"d": {"k": "seq", "tuple": False, "items": [i(), i()]}, "c": {"groups": [{"g": 1}, {"g": 2}]}},
            {"d": {"k": "seq", "tuple": False, "items": [i(), i()]}, "c": {"output": {"group": [{}, {}]}}},
            {"d": {"k": "none"}, "c": {"group": None}},
        ]
    for inner in ("id", "dup", "drop", "number", "count", "raise", "yieldraise", "last", "dupeven"):
        out.append(({"k": "mapgroup", "inner": inner}, {}, a_group, b_group))

    # groups made by the real lena.flow.group_plots (GroupBy -> group_plots -> MapGroup is the documented chain)
    def a_gplots(ids, rng):
        n = ids.next
        i = lambda: {"k": "int", "v": 3000 + n()}
        m = lambda c=None: {"d": i(), "c": c}
        return [
            {"d": {"k": "gplots", "members": [m({"x": 1, "y": {"z": n()}}), m({"x": 1, "y": {"z": 0}})]}},
            {"d": {"k": "gplots", "members": [m({"output": {"changed": True}, "x": 1}), m({"x": 1})]}},
            {"d": {"k": "gplots", "members": [m({"output": {"changed": False}}), m(), m({"output": {"changed": 0}})]}},
            {"d": {"k": "gplots", "members": [m({"g": n()})]}},
            {"d": {"k": "gplots", "members": [{"d": _hist(ids, 1, "num"), "c": {"x": 1}}, m({"x": 1})]}},
        ]
    for inner in ("id", "dup", "number", "dupeven", "count"):
        out.append(({"k": "mapgroup", "inner": inner}, {}, a_gplots, b_group))

    # ---- GroupPlots (deprecated, but in the anchored file): passes what it does not select, yields the groups
    #      after the flow; an element object that is used again keeps its groups
    def gp_vals(ids, rng):
        n = ids.next
        return extra_runif(ids, rng) + [
            {"d": {"k": "int", "v": 2000 + n()}, "c": {"n": n(), "output": {"changed": True}}},
            {"d": {"k": "int", "v": 2000 + n()}, "c": {"n": "same", "output": {"changed": False}}},
            {"d": {"k": "int", "v": 2000 + n()}, "c": {"n": "same", "x": {"y": 1}}},
            {"d": {"k": "str", "v": "g%d" % n()}, "c": {"n": n()}},
        ]
    for sel, key, ys in (({"cls": "int"}, "parity", False), ({"cls": "int"}, "parity", True),
                         ({"cls": "int"}, "ctxn", False), ({"key": "n"}, "ctxn", True),
                         ({"or": [{"cls": "int"}, {"cls": "str"}]}, "cls", True), (None, "cls", False),
                         ({"cls": "histogram"}, "const", True), ({"key": "k"}, "parity", False)):
        gel = {"k": "groupplots", "sel": sel, "key": key, "ys": ys}
        out.append((gel, {},
                    (lambda g: lambda ids, rng: [v for v in common_b(ids, rng) + gp_vals(ids, rng)
                                                 if ref_selected(g, v)])(gel),
                    (lambda g: lambda ids, rng: [v for v in common_b(ids, rng) + gp_vals(ids, rng)
                                                 if not ref_selected(g, v)])(gel)))

    # ---- real converter processes (oracle only): `cp` for pdflatex, a PATH stub for pdftoppm
    out.append(({"k": "pdf", "ow": False, "sched": None, "real": True}, pfs, a_pdf, b_pdf))
    out.append(({"k": "png", "format": "png", "ow": False, "real": True}, gfs, a_png, b_png))

    # ---- pipelines: Sequence of selective elements; a value is unselected if no stage selects it
    def pipe(stages, makers):
        el = {"k": "pipe", "stages": stages}
        def cands(ids, rng):
            vals = common_b(ids, rng)
            for mk in makers:
                vals += mk(ids, rng)
            return vals
        def a(ids, rng):
            return [v for v in cands(ids, rng) if ref_selected(el, v)]
        def b(ids, rng):
            return [v for v in cands(ids, rng) if not ref_selected(el, v)]
        return el, a, b
    R = {"k": "render", "def": "t1.tex", "templates": ["t1.tex", "t2.tex"], "sel": None}
    pipes = [
        ([{"k": "tocsv"}, W("$R", False, False)], [a_tocsv, b_tocsv, a_write, b_write]),
        ([{"k": "h2g"}, {"k": "tocsv"}, W("$R/sub", False, False)], [a_h2g, b_h2g, b_tocsv]),
        ([{"k": "tocsv"}, W("$R", False, False), R, W("$R", False, True)], [a_tocsv, b_tocsv, a_render, b_render]),
        ([{"k": "iterbins", "bins": ["hist"], "default": True}, {"k": "h2g"}], [hists(["hist", "num"]), b_h2g]),
        ([{"k": "mapbins", "bins": allk, "default": True, "inner": "dup"}, {"k": "iterbins", "bins": ["hist"], "default": True},
          {"k": "tocsv"}], [hists(["hist", "num", "vec"]), b_tocsv]),
        ([W("$R", False, False), W("$R", False, False)], [a_write, b_write]),
        ([{"k": "mapbins", "bins": ["num", "pair"], "inner": "id", "drop": False},
          {"k": "iterbins", "bins": ["num", "pair"]}], [hists(["num", "pair", "vec"])]),
        ([{"k": "runif", "sel": {"cls": "int"}, "inner": "number"}, {"k": "mapgroup", "inner": "id"}],
         [extra_runif, a_group, b_group]),
        ([{"k": "runif", "sel": {"cls": "histogram"}, "inner": "id"}, {"k": "h2g"}, {"k": "tocsv"}],
         [extra_runif, a_h2g, b_h2g]),
    ]
    pipes.append(([], [a_tocsv]))          # Sequence(): everything passes
    for stages, makers in pipes:
        el, a, b = pipe(stages, makers)
        out.append((el, wfs if any(st["k"] == "write" for st in stages) else {}, a, b))

    # ---- every B palette also holds unselected values whose context carries the settings the element reads
    #      for the values it does select (they must not leak into what is made for the selected ones)
    #      … and (adversary round) one-shot iterables, values with pairs / dictionaries inside their data, contexts
    #      close to the element's selection rule, and the element's own selected values switched off
    def with_settings(el, mk_a, mk_b):
        def b(ids, rng):
            extra = settings_vals(ids)
            if el["k"] != "groupplots":        # (its deepcopy / group_by callables are not made for these)
                extra = extra + exotic_vals(ids)
                wide = oneshot_vals(ids) + container_vals(ids) + nearmiss_vals(ids, el, rng)
                wide = wide + twin_vals(ids, el, mk_a(_Ids(), rng), rng)
                # (`_x`: in the quick tier step 1 of gen_cases puts these before OR after a selected value, not both)
                extra = extra + [dict(v, _x=1) for v in wide]
            base = [{k: x for k, x in v.items() if k != "_c"} for v in mk_b(ids, rng)
                    if not (v.get("_c") and ref_selected(el, v))]
            return base + [v for v in extra if not ref_selected(el, v)]
        return b
    return [(el, fs, mk_a, with_settings(el, mk_a, mk_b)) for el, fs, mk_a, mk_b in out]


def _draw(rng, palette, n):
    """n values of the palette; error-raising ones (the last of a palette, by convention mixed in) are allowed"""
    if not palette:
        return []
    ok = [v for v in palette if not v.get("_e")]
    bad = [v for v in palette if v.get("_e")]
    out = []
    for _ in range(n):
        v = copy.deepcopy(rng.choice(bad if bad and (not ok or rng.random() < 0.12) else ok))
        v.pop("_e", None)
        v.pop("_x", None)
        out.append(v)
    return out


def _one_none(vals):
    """None is a singleton: at most one bare None per flow, so that every flow value is an object of its own"""
    seen, out = set(), []
    for v in vals:
        d = v["d"]
        single = (d["k"] if d["k"] in ("none", "bool") else
                  "emptytuple" if d["k"] == "seq" and d["tuple"] and not d["items"] else
                  "emptystr" if d["k"] == "str" and d["v"] == "" else None)
        if single and v.get("c") is None:      # None, True, () and "" are singletons
            if single in seen:
                continue
            seen.add(single)
        out.append(v)
    return out


def _uniq_pdf(A):
    """LaTeXToPDF: pairwise different file names among the selected values"""
    seen, out = set(), []
    for v in A:
        name = v["d"].get("v")
        if name in seen:
            continue
        seen.add(name)
        out.append(v)
    return out


def _pipe_fix(A, ids, keep_first=True):
    """pipelines with Write: every selected value but the first gets a file name of its own (two produced texts
    written to one path would be compared character by character, which the payload abstraction cannot follow)"""
    out, first = [], keep_first
    for v in A:
        c = v.get("c")
        has_name = isinstance(c, dict) and isinstance(c.get("output"), dict) and "filename" in c["output"]
        if not has_name:
            if first:
                first = False
            elif c is None:
                v = dict(v, c={"output": {"filename": "auto%d" % ids.next()}})
            elif isinstance(c.get("output", {}), dict):
                c = copy.deepcopy(c)
                c.setdefault("output", {})["filename"] = "auto%d" % ids.next()
                v = dict(v, c=c)
            else:
                continue        # `output` is not a dictionary: no way to give it a name of its own
        out.append(v)
    return out


def _mk_case(el, fs, A, B, pat, rng):
    el = dict(el)
    if el["k"] == "pdf":
        n = len(pat) + 1
        el["sched"] = [[rng.randint(0, n), rng.choice([0, 0, 0, 1])] for _ in range(len(A))]
    return {"el": el, "fs": fs, "A": A, "B": B, "pat": pat}


def _with_second(case, A2, B2, pat2, rng):
    if case["el"]["k"] == "pdf":
        names = set(v["d"].get("v") for v in case["A"])
        keep = [v for v in A2 if v["d"].get("v") not in names]
        drop = len(A2) - len(keep)
        if drop:
            A2 = keep
            pat2 = [True] * len(A2) + [False] * len(B2)
            rng.shuffle(pat2)
        n = len(case["pat"]) + len(pat2) + 1
        el = dict(case["el"])
        el["sched"] = list(el["sched"]) + [[rng.randint(0, n), rng.choice([0, 0, 0, 1])] for _ in A2]
        case = dict(case, el=el)
    return dict(case, second={"A": A2, "B": B2, "pat": pat2})


def _prepare(el, A, B, ids, second=False):
    A, B = _one_none(_refresh(A, ids)), _one_none(_refresh(B, ids))
    if el["k"] == "pdf":
        A = _uniq_pdf(A)
    if el["k"] == "pipe" and any(st["k"] == "write" for st in el["stages"]):
        A = _pipe_fix(A, ids, keep_first=not second)
        # re-sort: a file name may turn a value into one that a stage selects
        A = [v for v in A if ref_selected(el, v)]
    return A, B


ALIAS_ELEMENTS = ("tocsv", "write", "render", "png", "h2g", "runif")


def _alias_variants(case, rng):
    """the same flow with objects shared between positions: a context object shared by two pairs, and a value
    standing at two positions (outside the property's quantifier; see DESIGN: locality)"""
    specs, _ = _flow_specs(case)
    n = len(specs)
    if n < 2 or case["el"]["k"] not in ALIAS_ELEMENTS or case["el"].get("real"):
        return
    with_ctx = [i for i, sp in enumerate(specs) if sp.get("c") is not None and sp["d"]["k"] != "gplots"]
    if len(with_ctx) >= 2:
        i, j = sorted(rng.sample(with_ctx, 2))
        yield dict(case, alias=[[i, j, "ctx"]])
    i, j = sorted(rng.sample(range(n), 2))
    # the copy takes the place of a value of the same kind (selected / unselected), so that A and B keep their meaning
    same_kind = [(a, b) for a in range(n) for b in range(a + 1, n) if case["pat"][a] == case["pat"][b]]
    if same_kind:
        i, j = rng.choice(same_kind)
        yield dict(case, alias=[[i, j, "same"]])


def gen_cases(ctx):
    """a generator (lazily enumerable: a changed tree makes a quick run take a sample of the thorough cases)"""
    rng = ctx.rng
    quick = ctx.tier == "quick"
    draws = 1 if quick else 10
    sizes = [(a, b) for a in range(4) for b in range(4)]
    configs = _configs(ctx.tier)
    ctx.exhaustive = False
    if quick:
        # RunIf has 6 selectors x 9 inner sequences: keep a cross (every selector, every inner sequence) and a sample
        keep = []
        for cfg in configs:
            el = cfg[0]
            if el["k"] != "runif" or el["sel"] == {"cls": "int"} or el["inner"] in ("number", "first") \
                    or isinstance(el["inner"], dict) or rng.random() < 0.15:
                keep.append(cfg)
        configs = keep
    for el, fs, mk_a, mk_b in configs:
        real = bool(el.get("real"))
        # 1. every value of both palettes at least once, before and after a value of the other kind
        ids = _Ids()
        pal_a, pal_b = mk_a(ids, rng), mk_b(ids, rng)
        if not real:
            for which, pal, other in ((True, pal_a, pal_b), (False, pal_b, pal_a)):
                for v in pal:
                    one_order = quick and v.get("_x")
                    v = {k: x for k, x in copy.deepcopy(v).items() if k not in ("_e", "_x")}
                    o = _draw(rng, other, 1)
                    A, B = ([v], o) if which else (o, [v])
                    A, B = _prepare(el, A, B, ids)
                    if len(A) + len(B) < 2 and (pal_a and pal_b):
                        continue
                    pats = list(_patterns(len(A), len(B)))
                    for pat in ([rng.choice(pats)] if one_order else pats):
                        yield _mk_case(el, fs, A, B, pat, rng)
        # 2. all interleavings of drawn lists with |A|, |B| <= 3
        for (na, nb) in sizes:
            many = el["k"] in ("runif", "mapbins", "mapgroup")     # many settings of these: one draw each in quick
            for d in range(1 if real or (quick and many) else draws):
                if real and (na + nb > 4 or na == 0):
                    continue
                ids = _Ids()
                A = _draw(rng, mk_a(ids, rng), na) if na else []
                B = _draw(rng, mk_b(ids, rng), nb) if nb else []
                A, B = _prepare(el, A, B, ids)
                pats = list(_patterns(len(A), len(B)))
                for pat in pats:
                    yield _mk_case(el, fs, A, B, pat, rng)
                if real or d > 0:
                    continue
                # 2b. the element object used a second time (state kept between runs must not carry anything from
                #     the unselected values of either flow)
                if (na, nb) in ((1, 1), (2, 1), (1, 2), (2, 2), (0, 2), (3, 3)):
                    A2 = _draw(rng, mk_a(ids, rng), rng.randint(0, 2))
                    B2 = _draw(rng, mk_b(ids, rng), rng.randint(0, 2))
                    A2, B2 = _prepare(el, A2, B2, ids, second=True)
                    for pat in rng.sample(pats, min(2, len(pats))):
                        pat2 = [True] * len(A2) + [False] * len(B2)
                        rng.shuffle(pat2)
                        yield _with_second(_mk_case(el, fs, A, B, pat, rng), A2, B2, pat2, rng)
                # 2c. flows whose values share objects
                if (na, nb) in ((1, 1), (2, 1), (1, 2), (2, 2)):
                    for pat in rng.sample(pats, min(2, len(pats))):
                        for c in _alias_variants(_mk_case(el, fs, A, B, pat, rng), rng):
                            yield c
        # 2d. second use after a flow of unselected values only: nothing they carry may reach the next flow
        if not real:
            for _ in range(2 if quick else 8):
                ids = _Ids()
                B1 = _draw(rng, mk_b(ids, rng), 3)
                A2 = _draw(rng, mk_a(ids, rng), 2)
                B2 = _draw(rng, mk_b(ids, rng), 1)
                _, B1 = _prepare(el, [], B1, ids)
                A2, B2 = _prepare(el, A2, B2, ids, second=True)
                if not A2 or not B1:
                    continue
                pat2 = [True] * len(A2) + [False] * len(B2)
                rng.shuffle(pat2)
                yield _with_second(_mk_case(el, fs, [], B1, [False] * len(B1), rng), A2, B2, pat2, rng)
        # 3. longer flows, random interleavings
        if not quick and not real:
            for _ in range(20):
                ids = _Ids()
                na, nb = rng.randint(1, 6), rng.randint(1, 6)
                A = _draw(rng, mk_a(ids, rng), na)
                B = _draw(rng, mk_b(ids, rng), nb)
                A, B = _prepare(el, A, B, ids)
                for _ in range(4):
                    pat = [True] * len(A) + [False] * len(B)
                    rng.shuffle(pat)
                    yield _mk_case(el, fs, A, B, pat, rng)


def _refresh(vals, ids):
    """give every drawn value a payload of its own (ids / integers / string suffixes), keeping its shape"""
    out = []
    for v in vals:
        v = copy.deepcopy(v)
        _refresh_data(v["d"], ids)
        out.append(v)
    return out


def _refresh_data(d, ids):
    k = d["k"]
    if k == "int":
        d["v"] = 10000 + ids.next()
    elif k == "float":
        d["v"] = "%d.5" % (10000 + ids.next())
    elif k in ("obj", "bytes", "writable", "badwrite", "rows", "hist", "lookalike", "set", "gen", "iter", "oneshot"):
        d["id"] = ids.next()
    elif k == "seq":
        for x in d["items"]:
            _refresh_data(x, ids)
    elif k == "baredict":
        if "n" in d["v"]:
            d["v"]["n"] = ids.next()
    elif k == "gplots":
        for m in d["members"]:
            _refresh_data(m["d"], ids)


# ---- MANIFEST texts ------------------------------------------------------------------------
LEVEL_TEXT = ("Lean 4 theorems about a transcribed model of the run loops of the ten selective elements (and GroupPlots), "
              "for all flows, all interleavings and all element settings (no bound): the interleaving law "
              "run(interleave(A,B)) = interleave(run(A),B) with blocks, state and exception, its readings (identity and "
              "order of unselected values incl. the exact cut at an exception, independence of the results for selected "
              "values, state untouched), the loop bodies pass what the DOCUMENTED selection rules reject, pipelines of "
              "loop-shaped elements, locality.  LaTeXToPDF (process pool): identity/order of unselected values and the "
              "places where the file system may change for every schedule; exception independent of B and schedule; "
              "results as multisets for runs that end normally (false for failing runs: proved), also for a used object.  "
              "The model is tied to /repo by a correspondence check (blocks of outputs per consumed value, object "
              "identity, contexts, directory) on every interleaving of up to 3+3 drawn values per element configuration, "
              "plus a direct oracle that evaluates the property on the real code.")
LEVEL_NOTE = ("Trusted: Lean kernel (+ propext, Classical.choice, Quot.sound), the hand transcription validated by the "
              "correspondence run, the payload abstraction (texts, graphs, third-party context entries), converter "
              "stubs and schedules, the stand-ins for user callables, the JSON protocol.  'Without touching the file "
              "system' is a theorem with content for Write, PDFToPNG, RunIf, MapGroup and LaTeXToPDF; for ToCSV, "
              "RenderLaTeX, HistToGraph, IterateBins, MapBins it rests on the oracle's directory snapshots.  "
              "THEOREMS lists the 52 theorems that carry the property; instances, unfoldings and free theorems are in "
              "AUX_THEOREMS.")
TECHNIQUE = "Lean 4 proof over hand-written model + correspondence check over all interleavings of small flows"
DESIGN_REF = "DESIGN.md section 3, C10"
